/* C19 - BP harness on the statistics kernels (generated C of the clang IR of Statistics.cpp through harness/SF.cpp): IEEE doubles, so effects that do not exist in exact arithmetic (cancellation) are visible */
#include "gen.c"
unsigned nondet_uint(void);
double nondet_double(void);
static double in_d0, in_d1, in_d2;
static double wts[3] = {1.0, 1.0, 1.0}, out2[2];

// HARNESS name=c19_variance_nonnegative unwind=6 timeout=600 key=C19/bp/variance-nonnegative
void c19_variance_nonnegative(void)
{
	gen_init();
	double d[3];
	in_d0 = nondet_double(); in_d1 = nondet_double(); in_d2 = nondet_double();
	d[0] = in_d0; d[1] = in_d1; d[2] = in_d2;
	/* finite data of moderate magnitude: no overflow in the squares */
	__CPROVER_assume(in_d0 >= -1e100 && in_d0 <= 1e100 && in_d1 >= -1e100 && in_d1 <= 1e100 && in_d2 >= -1e100 && in_d2 <= 1e100);
	double v = verif_stats(3, 3, (uint8_t*) d, (uint8_t*) wts, (uint8_t*) out2);
	__CPROVER_assert(v >= 0.0, "Variance of finite data is a non-negative number (not negative, not NaN)");
#ifdef WITNESS
	__CPROVER_assert(0, "witness: end of harness reachable");
#endif
}
