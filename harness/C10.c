/* C10 - BP harness: Vector::operator[] of the real code with an arbitrary unsigned index (CBMC bounds and pointer checks on the generated C) */
#include "gen.c"
unsigned nondet_uint(void);
double nondet_double(void);
static unsigned in_i;
static double vec[3], outv[64];
static uint32_t shape[4];

// HARNESS name=c10_vector_index_accept unwind=5 timeout=300 key=C10/bp/vector-index
void c10_vector_index_accept(void)
{
	gen_init();
	in_i = nondet_uint(); vec[0] = nondet_double(); vec[1] = nondet_double(); vec[2] = nondet_double();
	__CPROVER_assume(in_i < 3);
	verif_la(53, 3, 1, (uint8_t*) vec, 0, 0, (uint8_t*) vec, 0.0, in_i, 0, (uint8_t*) vec, (uint8_t*) vec, (uint8_t*) outv, (uint8_t*) shape);
	__CPROVER_assert(outv[0] == vec[in_i] || (vec[in_i] != vec[in_i]), "the indexed component is returned");
#ifdef WITNESS
	__CPROVER_assert(0, "witness: end of harness reachable");
#endif
}
// HARNESS name=c10_vector_index_reject unwind=5 timeout=300 exit_ok=1 key=C10/bp/vector-index
void c10_vector_index_reject(void)
{
	gen_init();
	in_i = nondet_uint(); vec[0] = 1.0; vec[1] = 2.0; vec[2] = 3.0;
	__CPROVER_assume(in_i >= 3);
	verif_la(53, 3, 1, (uint8_t*) vec, 0, 0, (uint8_t*) vec, 0.0, in_i, 0, (uint8_t*) vec, (uint8_t*) vec, (uint8_t*) outv, (uint8_t*) shape);
	__CPROVER_assert(0, "an index outside the vector returned a number");
}
