// C02, C03, C11, C12, C13, C14 wrappers around Numerics.cpp / Integration.cpp.  User callbacks are the external symbols verif_f* (common.h).
#include "common.h"
#include <random>
#include <string>
#include "libphysica/Integration.hpp"
#include "libphysica/Numerics.hpp"
#include "libphysica/Statistics.hpp"
using namespace libphysica;

namespace libphysica
{
extern double Adaptive_Simpson_Integration(std::function<double(double)> func, double a, double b, double epsilon, double S, double fa, double fb, double fc, int bottom, bool& warning);
extern std::vector<std::vector<double>> Compute_Gauss_Legendre_Roots_and_Weights(unsigned int n, double x_min, double x_max);
extern double Integrate_MC_Brute_Force(std::function<double(std::vector<double>&, const double)> func, std::vector<double>& region, const int ncall);
extern double Integrate_MC_Miser(std::function<double(std::vector<double>&, const double)> func, std::vector<double>& region, const int ncall);
extern double Integrate_MC_Vegas(std::function<double(std::vector<double>&, const double)> func, std::vector<double>& region, const int init, const int ncall, const int itmx, const int nprn);
extern void Miser(std::function<double(std::vector<double>&, const double)> func, std::vector<double>& region, const int npts, const double dith, double& ave, double& var, std::mt19937& PRNG);
extern std::vector<double> Random_Point(std::vector<double>& region, std::mt19937& PRNG);
extern void Rebin(const double rc, const int nd, std::vector<double>& r, std::vector<double>& xin, libphysica::Matrix& xi, const int j);
}	// namespace libphysica

static const char* METHOD[] = {"Trapezoidal", "Gauss-Legendre", "Gauss-Kronrod", "Tanh-Sinh", "Gauss-Legendre_2", "Adaptive-Simpson", "Monte-Carlo", "Vegas", "Miser", "No-Such-Method"};

// ---- C02
VX double verif_c02_root(double xl, double xr, double acc) { return Find_Root(verif_f, xl, xr, acc); }

// ---- C03
VX double verif_c03_integrate(double a, double b, double eps, int depth) { return Integrate(verif_f, a, b, eps, depth); }
VX double verif_c03_integrate_default(double a, double b, double eps) { return Integrate(verif_f, a, b, eps); }
VX double verif_c03_asi(double a, double b, double eps, double S, double fa, double fb, double fc, int bottom, int* warning)
{
	bool w	 = false;
	double r = Adaptive_Simpson_Integration(verif_f, a, b, eps, S, fa, fb, fc, bottom, w);
	*warning = w;
	return r;
}
VX double verif_c03_find_epsilon(double a, double b, double precision) { return Find_Epsilon(verif_f, a, b, precision); }

// ---- C12
VX void verif_c12_rw(unsigned n, double a, double b, double* roots, double* weights, unsigned* sizes)
{
	std::vector<std::vector<double>> rw = Compute_Gauss_Legendre_Roots_and_Weights(n, a, b);
	sizes[0]							= rw.size();
	for(unsigned i = 0; i < rw.size(); i++)
	{
		roots[i]   = rw[i][0];
		weights[i] = rw[i][1];
	}
}
static std::vector<std::vector<double>> mkrw(unsigned n, const double* roots, const double* weights)
{
	std::vector<std::vector<double>> rw(n, std::vector<double>(2));
	for(unsigned i = 0; i < n; i++)
	{
		rw[i][0] = roots[i];
		rw[i][1] = weights[i];
	}
	return rw;
}
VX double verif_c12_gl_fab(double a, double b, unsigned n) { return Integrate_Gauss_Legendre(verif_f, a, b, n); }
VX double verif_c12_gl_frw(unsigned n, const double* roots, const double* weights) { return Integrate_Gauss_Legendre(verif_f, mkrw(n, roots, weights)); }
VX double verif_c12_gl_vrw(unsigned nv, const double* values, unsigned n, const double* roots, const double* weights) { return Integrate_Gauss_Legendre(std::vector<double>(values, values + nv), mkrw(n, roots, weights)); }

// ---- C13
VX double verif_c13_int1(double a, double b, int method, int param) { return Integrate(verif_f, a, b, std::string(METHOD[method]), param); }
VX double verif_c13_int2(double x1, double x2, double y1, double y2, int method, int param) { return Integrate_2D(verif_f2, x1, x2, y1, y2, std::string(METHOD[method]), param); }
VX double verif_c13_int3(double x1, double x2, double y1, double y2, double z1, double z2, int method, int param) { return Integrate_3D(verif_f3, x1, x2, y1, y2, z1, z2, std::string(METHOD[method]), param); }
static double fv_of_vector(Vector v)
{
	double c[3] = {v[0], v[1], v[2]};
	return verif_fv(c, v.Size());
}
VX double verif_c13_int3sph(double r1, double r2, double c1, double c2, double p1, double p2, int method, int param) { return Integrate_3D(fv_of_vector, r1, r2, c1, c2, p1, p2, std::string(METHOD[method]), param); }

// ---- C11
VX double verif_c11_findmin(double xl, double xr, double tol) { return Find_Minimum(verif_f, xl, xr, tol); }
VX double verif_c11_findmax(double xl, double xr, double tol) { return Find_Maximum(verif_f, xl, xr, tol); }
static double fv_of_stdvector(std::vector<double> v) { return verif_fv(v.data(), v.size()); }
// mode 0: general simplex pp ((ndim+1) x ndim, row major); 1: point + scalar delta (pp = point, deltas[0]); 2: point + deltas
VX void verif_c11_nm(int mode, unsigned ndim, const double* pp, const double* deltas, double ftol, double* xmin, double* state)
{
	Minimization M(ftol);
	std::vector<double> r;
	if(mode == 0)
	{
		std::vector<std::vector<double>> simplex(ndim + 1, std::vector<double>(ndim));
		for(unsigned i = 0; i < ndim + 1; i++)
			for(unsigned j = 0; j < ndim; j++)
				simplex[i][j] = pp[i * ndim + j];
		r = M.minimize(simplex, fv_of_stdvector);
	}
	else if(mode == 1)
	{
		std::vector<double> p(pp, pp + ndim);
		r = M.minimize(p, deltas[0], fv_of_stdvector);
	}
	else
	{
		std::vector<double> p(pp, pp + ndim), d(deltas, deltas + ndim);
		r = M.minimize(p, d, fv_of_stdvector);
	}
	for(unsigned j = 0; j < ndim; j++)
		xmin[j] = r[j];
	// reported state: fmin, then y[0..ndim], then current_simplex row major
	state[0] = M.fmin;
	for(unsigned i = 0; i < ndim + 1; i++)
		state[1 + i] = M.y[i];
	for(unsigned i = 0; i < ndim + 1; i++)
		for(unsigned j = 0; j < ndim; j++)
			state[2 + ndim + i * ndim + j] = M.current_simplex[i][j];
	state[2 + ndim + (ndim + 1) * ndim] = r.size();
}

// ---- C14
static double fv_mc(std::vector<double>& v, const double w) { return verif_fv(v.data(), v.size()); }
VX double verif_c14_mc(int method, unsigned dim, const double* region, int ncall)
{
	std::vector<double> reg(region, region + 2 * dim);
	if(method == 6)
		return Integrate_MC_Brute_Force(fv_mc, reg, ncall);
	if(method == 8)
		return Integrate_MC_Miser(fv_mc, reg, ncall);
	return Integrate_MC(fv_mc, reg, ncall, std::string(METHOD[method]));
}
VX double verif_c14_vegas(unsigned dim, const double* region, int init, int ncall, int itmx)
{
	std::vector<double> reg(region, region + 2 * dim);
	return Integrate_MC_Vegas(fv_mc, reg, init, ncall, itmx, -1);
}
// Vegas grid refinement: old grid xi_old (n_old boundaries, last = 1) with densities r, rebinned into nd bins of equal weight rc
VX void verif_c14_rebin(unsigned n_old, int nd, double rc, const double* r, const double* xi_old, double* out)
{
	unsigned cols = n_old > (unsigned) nd ? n_old : (unsigned) nd;
	libphysica::Matrix xi(1, cols, 0.0);
	for(unsigned k = 0; k < n_old; k++)
		xi[0][k] = xi_old[k];
	std::vector<double> rr(r, r + n_old), xin(cols, 0.0);
	Rebin(rc, nd, rr, xin, xi, 0);
	for(int k = 0; k < nd; k++)
		out[k] = xi[0][k];
}
VX void verif_c14_random_point(unsigned dim, const double* region, double* out)
{
	std::mt19937 PRNG(12345);
	std::vector<double> reg(region, region + 2 * dim);
	std::vector<double> p = Random_Point(reg, PRNG);
	for(unsigned i = 0; i < dim; i++)
		out[i] = p[i];
}
