// C20: unit constants of Natural_Units.cpp (dynamic initialisation order, defining products)
#include "common.h"
#include "libphysica/Natural_Units.hpp"
using namespace libphysica::natural_units;
namespace libphysica { namespace natural_units {
extern const double Hz, Newton, dyne, Watt, Pa, hPa, kPa, bar, barye, Kelvin, Elementary_Charge, Coulomb, Volt, Ampere, Farad, Tesla, Gauss, Weber, Ohm, Siemens, mole;
extern const double mPlanck, mPlanck_reduced, G_Newton, G_Fermi, Higgs_VeV;
} }
// order of out[]: see UNITS in checks/C20.py
VX void verif_units(double* out)
{
	const double v[] = {GeV, gram, kg, cm, meter, km, sec, ms, minute, hr, day, year, Joule, erg, cal, Hz, Newton, dyne, Watt, Pa, bar, barye, Coulomb, Volt, Ampere, Farad, Tesla, Gauss, Weber, Ohm, Siemens, eV, MeV, mm, fm, inch, foot, mile, barn, tonne, Elementary_Charge, mPlanck, mPlanck_reduced, G_Newton, G_Fermi, Higgs_VeV, deg, arcmin, arcsec, week};
	for(unsigned k = 0; k < sizeof(v) / sizeof(v[0]); k++)
		out[k] = v[k];
}
