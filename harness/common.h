// Shared by all harness TUs.  The harness is compiled twice from the same text:
//  * clang++-14 -S -emit-llvm  (symbolic encoding; verif_f* are external symbols the interpreter intercepts)
//  * g++ -O2 -DVERIF_NATIVE     (shared object for replay / translator validation; verif_f* call settable pointers)
#pragma once
#include <cstddef>
#include <functional>
#include <vector>
#define VX extern "C" __attribute__((noinline, used))

#ifdef VERIF_NATIVE
extern "C" {
double (*verif_f_ptr)(double)						  = 0;
double (*verif_f2_ptr)(double, double)				  = 0;
double (*verif_f3_ptr)(double, double, double)		  = 0;
double (*verif_fv_ptr)(const double*, unsigned long) = 0;
double verif_f(double x) { return verif_f_ptr(x); }
double verif_f2(double x, double y) { return verif_f2_ptr(x, y); }
double verif_f3(double x, double y, double z) { return verif_f3_ptr(x, y, z); }
double verif_fv(const double* p, unsigned long n) { return verif_fv_ptr(p, n); }
}
#else
extern "C" {
double verif_f(double x);
double verif_f2(double x, double y);
double verif_f3(double x, double y, double z);
double verif_fv(const double* p, unsigned long n);
}
#endif
