/* C17 - BP harnesses: Sign / StepFunction over all doubles (generated C of the clang IR) */
#include "gen.c"
double nondet_double(void);
static double in_x;
// HARNESS name=c17_sign_step_all_doubles unwind=2 key=C17/bp/sign-step
void c17_sign_step_all_doubles(void)
{
	gen_init();
	in_x = nondet_double();
	double s = verif_sf(1, in_x, 0.0, 0.0, 0, 0);
	double t = verif_sf(3, in_x, 0.0, 0.0, 0, 0);
	__CPROVER_assert(s == 1.0 || s == 0.0 || s == -1.0, "Sign is -1, 0 or 1");
	if(in_x == in_x)
	{
		__CPROVER_assert((in_x > 0.0) == (s == 1.0) && (in_x == 0.0) == (s == 0.0) && (in_x < 0.0) == (s == -1.0), "Sign agrees with the comparisons");
		__CPROVER_assert(t == (in_x >= 0.0 ? 1.0 : 0.0), "StepFunction agrees with >= 0");
	}
	double u = verif_sf(2, in_x, -in_x, 0.0, 0, 0);
	if(in_x == in_x && in_x != 0.0) __CPROVER_assert(u == -in_x, "Sign(x,-x) = -x");
#ifdef WITNESS
	__CPROVER_assert(0, "witness: end of harness reachable");
#endif
}
