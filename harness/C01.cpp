// C01/C08/C09 wrappers around the real Interpolation / Interpolation_2D code (private members reached with -fno-access-control)
#include "common.h"
#include "libphysica/Numerics.hpp"
using namespace libphysica;

// real constructor on plain arrays; coefficient tables and the transformed tables are copied out
VX void verif_c01_build(unsigned n, const double* xs, const double* ys, double xdim, double fdim, double* a, double* b, double* c, double* d, double* xv, double* fv, double* misc)
{
	std::vector<double> x(xs, xs + n), y(ys, ys + n);
	Interpolation f(x, y, xdim, fdim);
	for(unsigned i = 0; i + 1 < n; i++)
	{
		a[i] = f.a[i];
		b[i] = f.b[i];
		c[i] = f.c[i];
		d[i] = f.d[i];
	}
	for(unsigned i = 0; i < n; i++)
	{
		xv[i] = f.x_values[i];
		fv[i] = f.function_values[i];
	}
	misc[0] = f.N;
	misc[1] = f.domain[0];
	misc[2] = f.domain[1];
	misc[3] = f.prefactor;
	misc[4] = f.jLast;
	misc[5] = f.correlated_calls;
	misc[6] = f.a.size();
	misc[7] = f.domain.size();
}

// field offsets of the object, measured by the compiler (robust against member reordering)
VX void verif_c01_layout(unsigned long* out)
{
	Interpolation* p = 0;
	out[0]			 = sizeof(Interpolation);
	out[1]			 = (unsigned long) &p->N;
	out[2]			 = (unsigned long) &p->x_values;
	out[3]			 = (unsigned long) &p->function_values;
	out[4]			 = (unsigned long) &p->prefactor;
	out[5]			 = (unsigned long) &p->a;
	out[6]			 = (unsigned long) &p->b;
	out[7]			 = (unsigned long) &p->c;
	out[8]			 = (unsigned long) &p->d;
	out[9]			 = (unsigned long) &p->jLast;
	out[10]			 = (unsigned long) &p->correlated_calls;
	out[11]			 = (unsigned long) &p->domain;
	Interpolation_2D* q = 0;
	out[12]				= sizeof(Interpolation_2D);
	out[13]				= (unsigned long) &q->x_int;
	out[14]				= (unsigned long) &q->y_int;
	out[15]				= (unsigned long) &q->prefactor;
}

VX Interpolation* verif_c09_new(unsigned n, const double* xs, const double* ys)
{
	std::vector<double> x(xs, xs + n), y(ys, ys + n);
	return new Interpolation(x, y);
}
VX double verif_c01_eval(Interpolation* f, double x) { return f->Interpolate(x); }
VX double verif_c01_call(Interpolation* f, double x) { return (*f)(x); }
VX double verif_c01_deriv(Interpolation* f, double x, unsigned k) { return f->Derivative(x, k); }
VX unsigned verif_c01_locate(Interpolation* f, double x) { return f->Locate(x); }
VX double verif_c08_integrate(Interpolation* f, double x1, double x2) { return f->Integrate(x1, x2); }
VX double verif_c08_locmin(Interpolation* f, double x1, double x2) { return f->Local_Minimum(x1, x2); }
VX double verif_c08_locmax(Interpolation* f, double x1, double x2) { return f->Local_Maximum(x1, x2); }
VX double verif_c08_globmin(Interpolation* f) { return f->Global_Minimum(); }
VX double verif_c08_globmax(Interpolation* f) { return f->Global_Maximum(); }
VX void verif_c08_setpref(Interpolation* f, double p) { f->Set_Prefactor(p); }
VX void verif_c08_multiply(Interpolation* f, double p) { f->Multiply(p); }
VX void verif_c09_copy(Interpolation* dst, Interpolation* src) { *dst = *src; }

// 2D
VX Interpolation_2D* verif_c01_build2d(unsigned nx, unsigned ny, const double* xs, const double* ys, const double* fs, double xdim, double ydim, double fdim)
{
	std::vector<double> x(xs, xs + nx), y(ys, ys + ny);
	std::vector<std::vector<double>> f(nx, std::vector<double>(ny));
	for(unsigned i = 0; i < nx; i++)
		for(unsigned j = 0; j < ny; j++)
			f[i][j] = fs[i * ny + j];
	return new Interpolation_2D(x, y, f, xdim, ydim, fdim);
}
VX double verif_c01_eval2d(Interpolation_2D* f, double x, double y) { return f->Interpolate(x, y); }
VX double verif_c08_globmin2d(Interpolation_2D* f) { return f->Global_Minimum(); }
VX double verif_c08_globmax2d(Interpolation_2D* f) { return f->Global_Maximum(); }
VX void verif_c08_setpref2d(Interpolation_2D* f, double p) { f->Set_Prefactor(p); }
VX void verif_c08_multiply2d(Interpolation_2D* f, double p) { f->Multiply(p); }
VX void verif_c01_setcache2d(Interpolation_2D* f, unsigned jx, int cx, unsigned jy, int cy)
{
	f->x_int.jLast			  = jx;
	f->x_int.correlated_calls = cx;
	f->y_int.jLast			  = jy;
	f->y_int.correlated_calls = cy;
}

#ifdef VERIF_NATIVE
// native-only: object with prescribed coefficient tables and cache state (replay of I |- query counterexamples)
static Interpolation* mk(unsigned n, const double* xs, const double* ys, const double* a, const double* b, const double* c, const double* d, double pref, unsigned jlast, int corr)
{
	std::vector<double> x(xs, xs + n), y(ys, ys + n);
	Interpolation* f = new Interpolation(x, y);
	if(a)
	{
		f->a.assign(a, a + n - 1);
		f->b.assign(b, b + n - 1);
		f->c.assign(c, c + n - 1);
		f->d.assign(d, d + n - 1);
	}
	f->prefactor		= pref;
	f->jLast			= jlast;
	f->correlated_calls = corr;
	return f;
}
// op: 0 Interpolate, 1..4 Derivative order, 10 Integrate(x,x2), 11 Local_Minimum, 12 Local_Maximum, 13 Global_Minimum, 14 Global_Maximum, 20 Locate
VX double verif_c01_raw(unsigned n, const double* xs, const double* ys, const double* a, const double* b, const double* c, const double* d, double pref, unsigned jlast, int corr, int op, double x, double x2)
{
	Interpolation* f = mk(n, xs, ys, a, b, c, d, pref, jlast, corr);
	switch(op)
	{
		case 0: return f->Interpolate(x);
		case 1:
		case 2:
		case 3:
		case 4: return f->Derivative(x, op);
		case 5: return f->Derivative(x, 0);
		case 10: return f->Integrate(x, x2);
		case 11: return f->Local_Minimum(x, x2);
		case 12: return f->Local_Maximum(x, x2);
		case 13: return f->Global_Minimum();
		case 14: return f->Global_Maximum();
		case 20: return f->Locate(x);
	}
	return 0;
}
// a short history on one real-constructor object: ops[k] in {0 Interpolate(a), 1 Derivative(a,1), 10 Integrate(a,b), 11 Local_Minimum, 12 Local_Maximum, 13/14 Global_*, 20 Locate(a), 30 Set_Prefactor(a), 31 Multiply(a), 40 copy-assign to a second object and continue on the copy}
VX double verif_c09_history(unsigned n, const double* xs, const double* ys, unsigned nops, const int* ops, const double* a, const double* b)
{
	Interpolation* f = verif_c09_new(n, xs, ys);
	double last		 = 0;
	for(unsigned k = 0; k < nops; k++)
	{
		switch(ops[k])
		{
			case 0: last = f->Interpolate(a[k]); break;
			case 1: last = f->Derivative(a[k], 1); break;
			case 5: last = f->Derivative(a[k], 0); break;
			case 10: last = f->Integrate(a[k], b[k]); break;
			case 11: last = f->Local_Minimum(a[k], b[k]); break;
			case 12: last = f->Local_Maximum(a[k], b[k]); break;
			case 13: last = f->Global_Minimum(); break;
			case 14: last = f->Global_Maximum(); break;
			case 20: last = f->Locate(a[k]); break;
			case 30: f->Set_Prefactor(a[k]); break;
			case 31: f->Multiply(a[k]); break;
			case 40:
			{
				Interpolation* g = new Interpolation();
				*g				 = *f;
				f				 = g;
				break;
			}
		}
	}
	return last;
}
// two queries in sequence on one object (history): returns the second result
VX double verif_c09_seq(unsigned n, const double* xs, const double* ys, double pref, unsigned jlast, int corr, int op, double x, double x2)
{
	return verif_c01_raw(n, xs, ys, 0, 0, 0, 0, pref, jlast, corr, op, x, x2);
}
VX double verif_c01_raw2d(unsigned nx, unsigned ny, const double* xs, const double* ys, const double* fs, double pref, unsigned jx, int cx, unsigned jy, int cy, int op, double x, double y)
{
	Interpolation_2D* f = verif_c01_build2d(nx, ny, xs, ys, fs, -1, -1, -1);
	f->prefactor		= pref;
	verif_c01_setcache2d(f, jx, cx, jy, cy);
	if(op == 0)
		return f->Interpolate(x, y);
	if(op == 13)
		return f->Global_Minimum();
	return f->Global_Maximum();
}
#endif

// ---- C10: constructor guards.  mode 0: (x,y) lists of lengths nx, ny;  mode 1: data table with `nx` rows of `ny` columns (flattened in xs);  returns N of the constructed object
VX unsigned verif_c10_ctor(int mode, unsigned nx, const double* xs, unsigned ny, const double* ys, double probe, double* out)
{
	if(mode == 0)
	{
		std::vector<double> x(xs, xs + nx), y(ys, ys + ny);
		Interpolation f(x, y);
		out[0] = f(probe);
		return f.N;
	}
	std::vector<std::vector<double>> t(nx, std::vector<double>(ny));
	for(unsigned i = 0; i < nx; i++)
		for(unsigned j = 0; j < ny; j++)
			t[i][j] = xs[i * ny + j];
	Interpolation f(t);
	out[0] = f(probe);
	return f.N;
}
// 2D: grid nx x ny with `ragged` = 1 dropping the last entry of the last row, 2 = one row missing
// constructor with units: the abscissae are scaled by x_dim, the ordinates by f_dim; then one evaluation
VX double verif_c10_ctor_units(unsigned n, const double* xs, const double* ys, double x_dim, double f_dim, double probe)
{
	std::vector<double> x(xs, xs + n), y(ys, ys + n);
	Interpolation f(x, y, x_dim, f_dim);
	return f(probe);
}
VX double verif_c10_ctor2d(unsigned nx, unsigned ny, const double* xs, const double* ys, const double* fs, int ragged, double px, double py)
{
	std::vector<double> x(xs, xs + nx), y(ys, ys + ny);
	std::vector<std::vector<double>> f(nx, std::vector<double>(ny));
	for(unsigned i = 0; i < nx; i++)
		for(unsigned j = 0; j < ny; j++)
			f[i][j] = fs[i * ny + j];
	if(ragged == 1) f[nx - 1].pop_back();
	if(ragged == 2) f.pop_back();
	Interpolation_2D g(x, y, f);
	return g(px, py);
}
