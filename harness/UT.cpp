// C19 (helpers), C20 (In_Units), C10 (list guards): wrappers around Utilities.cpp, List_Manipulations.hpp, Natural_Units.cpp
#include "common.h"
#include <string>
#include "libphysica/Utilities.hpp"
#include "libphysica/List_Manipulations.hpp"
#include "libphysica/Natural_Units.hpp"
using namespace libphysica;
using namespace libphysica::natural_units;

VX unsigned long verif_workload(unsigned workers, unsigned tasks, int* out, unsigned long cap)
{
	std::vector<int> r = Workload_Distribution(workers, tasks);
	for(unsigned long k = 0; k < r.size() && k < cap; k++)
		out[k] = r[k];
	return r.size();
}
VX unsigned long verif_range(int mn, int mx, int step, int* out, unsigned long cap)
{
	std::vector<int> r = Range(mn, mx, step);
	for(unsigned long k = 0; k < r.size() && k < cap; k++)
		out[k] = r[k];
	return r.size();
}
VX unsigned long verif_range1(int mx, int* out, unsigned long cap)
{
	std::vector<int> r = Range(mx);
	for(unsigned long k = 0; k < r.size() && k < cap; k++)
		out[k] = r[k];
	return r.size();
}
VX unsigned long verif_space(int logarithmic, double mn, double mx, unsigned steps, double* out, unsigned long cap)
{
	std::vector<double> r = logarithmic ? Log_Space(mn, mx, steps) : Linear_Space(mn, mx, steps);
	for(unsigned long k = 0; k < r.size() && k < cap; k++)
		out[k] = r[k];
	return r.size();
}
VX unsigned verif_closest(unsigned n, const double* list, double target)
{
	std::vector<double> v(list, list + n);
	return Locate_Closest_Location(v, target);
}
// list templates on double.  op: 1 Lists_Equal(a,b)  2 Combine_Lists(a,b)  3 Transpose_Lists(a,b) (flattened)  4 Sub_List(a,i1,i2)  5 Flatten_List({a,b})  6 List_Contains(a,value)  7 Find_Indices(a,value)
//                             8 Lists_Equal({a,b},{a,b'}) nested  9 Transpose_Lists({a,b,a}) general
VX long verif_lists(int op, unsigned n1, const double* a, unsigned n2, const double* b, double value, int i1, unsigned i2, double* out, unsigned long cap)
{
	std::vector<double> v1(a, a + n1), v2(b, b + n2), r;
	switch(op)
	{
		case 1: return Lists_Equal(v1, v2);
		case 2: r = Combine_Lists(v1, v2); break;
		case 3:
		{
			std::vector<std::vector<double>> t = Transpose_Lists(v1, v2);
			for(auto& row : t)
				r.insert(r.end(), row.begin(), row.end());
			out[cap - 1] = t.size();
			break;
		}
		case 4: r = Sub_List(v1, i1, i2); break;
		case 5: r = Flatten_List(std::vector<std::vector<double>> {v1, v2}); break;
		case 6: return List_Contains(v1, value);
		case 7:
		{
			std::vector<int> idx = Find_Indices(v1, value);
			for(unsigned long k = 0; k < idx.size() && k + 1 < cap; k++)
				out[k] = idx[k];
			return idx.size();
		}
		case 8: return Lists_Equal(std::vector<std::vector<double>> {v1, v2}, std::vector<std::vector<double>> {v1, std::vector<double>(v2.begin(), v2.end())});
		case 9:
		{
			std::vector<std::vector<double>> t = Transpose_Lists(std::vector<std::vector<double>> {v1, v2, v1});
			for(auto& row : t)
				r.insert(r.end(), row.begin(), row.end());
			out[cap - 1] = t.size();
			break;
		}
	}
	for(unsigned long k = 0; k < r.size() && k + 1 < cap; k++)
		out[k] = r[k];
	return r.size();
}
// ---- C20: In_Units overloads.  op: 1 scalar  2 scalar rounded(digits)  3 std::vector  4 vector<vector> (rows x cols)  5 Vector  6 Matrix ; out receives the converted values
VX long verif_in_units(int op, unsigned rows, unsigned cols, const double* q, double unit, unsigned digits, int ragged, double* out)
{
	const bool rnd = op >= 10;	// op 13..17: the container overloads with round = true and the given digits
	if(rnd)
		op -= 10;
	switch(op)
	{
		case 1: out[0] = In_Units(q[0], unit); return 1;
		case 2: out[0] = In_Units(q[0], unit, true, (int) digits); return 1;
		case 3:
		{
			std::vector<double> v(q, q + cols), r = rnd ? In_Units(v, unit, true, (int) digits) : In_Units(v, unit);
			for(unsigned k = 0; k < r.size(); k++)
				out[k] = r[k];
			return r.size();
		}
		case 4:
		{
			std::vector<std::vector<double>> t(rows, std::vector<double>(cols));
			for(unsigned i = 0; i < rows; i++)
				for(unsigned j = 0; j < cols; j++)
					t[i][j] = q[i * cols + j];
			if(ragged && rows > 1)
				t[rows - 1].pop_back();
			std::vector<std::vector<double>> r = rnd ? In_Units(t, unit, true, (int) digits) : In_Units(t, unit);
			unsigned k = 0;
			for(auto& row : r)
				for(double x : row)
					out[k++] = x;
			return k;
		}
		case 5:
		{
			Vector v(std::vector<double>(q, q + cols));
			Vector r = rnd ? In_Units(v, unit, true, (int) digits) : In_Units(v, unit);
			for(unsigned k = 0; k < r.Size(); k++)
				out[k] = r[k];
			return r.Size();
		}
		case 6:
		{
			std::vector<std::vector<double>> t(rows, std::vector<double>(cols));
			for(unsigned i = 0; i < rows; i++)
				for(unsigned j = 0; j < cols; j++)
					t[i][j] = q[i * cols + j];
			Matrix M(t), r = rnd ? In_Units(M, unit, true, (int) digits) : In_Units(M, unit);
			unsigned k = 0;
			for(unsigned i = 0; i < r.Rows(); i++)
				for(unsigned j = 0; j < r.Columns(); j++)
					out[k++] = r[i][j];
			return k;
		}
		case 7:   // per-column units: unit, 2*unit, 3*unit, ...
		{
			std::vector<std::vector<double>> t(rows, std::vector<double>(cols));
			for(unsigned i = 0; i < rows; i++)
				for(unsigned j = 0; j < cols; j++)
					t[i][j] = q[i * cols + j];
			if(ragged && rows > 1)
				t[rows - 1].pop_back();
			std::vector<double> dims(cols);
			for(unsigned j = 0; j < cols; j++)
				dims[j] = (j + 1) * unit;
			std::vector<std::vector<double>> r = rnd ? In_Units(t, dims, true, (int) digits) : In_Units(t, dims);
			unsigned k = 0;
			for(auto& row : r)
				for(double x : row)
					out[k++] = x;
			return k;
		}
	}
	return -1;
}
// ---- C20: the library's own logic of the text import (line counting, header skipping, reshaping, per-column units); the file and stream operations are the environment
namespace libphysica
{
extern unsigned int Count_Lines(std::string filepath);
}
VX unsigned verif_count_lines(const char* path) { return Count_Lines(std::string(path)); }
VX unsigned long verif_import_table(const char* path, unsigned ndim, const double* dims, unsigned ignored, double* out, unsigned long cap, unsigned* shape)
{
	std::vector<double> d(dims, dims + ndim);
	std::vector<std::vector<double>> t = Import_Table(std::string(path), d, ignored);
	shape[0]		= t.size();
	shape[1]		= t.empty() ? 0 : t[0].size();
	unsigned long k = 0;
	for(unsigned i = 0; i < t.size(); i++)
		for(unsigned j = 0; j < t[i].size(); j++)
			if(k < cap)
				out[k++] = t[i][j];
	return k;
}
VX unsigned long verif_import_list(const char* path, double dimension, unsigned ignored, double* out, unsigned long cap)
{
	std::vector<double> v = Import_List(std::string(path), dimension, ignored);
	for(unsigned long k = 0; k < v.size() && k < cap; k++)
		out[k] = v[k];
	return v.size();
}
// writers (C20 round trip): the stream operations are the environment, the loops, separators, header handling and unit division are the library's
VX void verif_export_table(const char* path, unsigned rows, unsigned cols, const double* data, unsigned ndim, const double* dims, const char* header)
{
	std::vector<std::vector<double>> t(rows, std::vector<double>(cols));
	for(unsigned i = 0; i < rows; i++)
		for(unsigned j = 0; j < cols; j++)
			t[i][j] = data[i * cols + j];
	std::vector<double> d(dims, dims + ndim);
	Export_Table(std::string(path), t, d, std::string(header));
}
VX void verif_export_list(const char* path, unsigned n, const double* data, double dimension, const char* header)
{
	std::vector<double> v(data, data + n);
	Export_List(std::string(path), v, dimension, std::string(header));
}
