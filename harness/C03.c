/* C03 - BP harnesses: evaluation points of the real adaptive Simpson code on IEEE doubles */
#include "gen.c"
double nondet_double(void);
static double in_a, in_b;

// HARNESS name=c03_toplevel_points_recorded unwind=4 timeout=120 key=C03/bp/evaluation-inside
void c03_toplevel_points_recorded(void)
{
	gen_init();
	in_a = nondet_double(); in_b = nondet_double();
	__CPROVER_assume(in_a < in_b && in_a >= -1e300 && in_b <= 1e300);
	verif_check_lo = in_a; verif_check_hi = in_b; verif_check_on = 1; /* every evaluation argument is asserted to lie in [lo,hi] inside the callback */
	verif_f_cut = 3;
	double r = verif_c03_integrate(in_a, in_b, 1.0, 0);
}

// HARNESS name=c03_midpoints_inside unwind=6 timeout=900 solver=kissat tier=thorough key=C03/bp/evaluation-inside
void c03_midpoints_inside(void)
{
	gen_init();
	in_a = nondet_double(); in_b = nondet_double();
	__CPROVER_assume(in_a < in_b && in_a >= -1e300 && in_b <= 1e300);
	/* depth 0: the top level evaluates at a, b, (a+b)/2 and the first recursion level at (a+c)/2, (b+c)/2, then accepts */
	double r = verif_c03_integrate(in_a, in_b, 1.0, 0);
	__CPROVER_assert(verif_ncalls == 5, "depth 0 evaluates the integrand exactly 5 times");
	for(int i = 0; i < 5; i++) __CPROVER_assert(verif_call_arg[i] >= in_a && verif_call_arg[i] <= in_b, "evaluation point inside [a,b]");
#ifdef WITNESS
	__CPROVER_assert(0, "witness: end of harness reachable");
#endif
}
