/* C02 - BP harnesses: entry logic of the real Find_Root on IEEE doubles (generated C of the clang IR) */
#include "gen.c"
double nondet_double(void);
static double in_xl, in_xr, in_acc, in_f0, in_f1;
static double result;

static void setup(void)
{
	gen_init();
	in_xl = nondet_double(); in_xr = nondet_double(); in_acc = nondet_double(); in_f0 = nondet_double(); in_f1 = nondet_double();
	__CPROVER_assume(in_xl == in_xl && in_xr == in_xr);
	verif_f_script[0] = in_f0; verif_f_script[1] = in_f1; verif_f_scripted = 2;
}

// HARNESS name=c02_nan_end_exits unwind=2 exit_ok=1 key=C02/bp/nan-end-exits
void c02_nan_end_exits(void)
{
	setup();
	__CPROVER_assume(in_f0 != in_f0 || in_f1 != in_f1);
	verif_f_cut = 2;
	result = verif_c02_root(in_xl, in_xr, in_acc);
	__CPROVER_assert(0, "Find_Root returned a number although a bracket end evaluates to NaN");
}

// HARNESS name=c02_same_sign_exits unwind=2 exit_ok=1 key=C02/bp/same-sign-exits
void c02_same_sign_exits(void)
{
	setup();
	__CPROVER_assume((in_f0 > 0.0 && in_f1 > 0.0) || (in_f0 < 0.0 && in_f1 < 0.0));
	verif_f_cut = 2;
	result = verif_c02_root(in_xl, in_xr, in_acc);
	__CPROVER_assert(0, "Find_Root returned a number although the bracket has no sign change");
}

// HARNESS name=c02_zero_end_returned unwind=2 key=C02/bp/zero-end-returned
void c02_zero_end_returned(void)
{
	setup();
	__CPROVER_assume(in_f0 == in_f0 && in_f1 == in_f1 && (in_f0 == 0.0 || in_f1 == 0.0));
	verif_f_cut = 2;
	result = verif_c02_root(in_xl, in_xr, in_acc);
	double lo = in_xl <= in_xr ? in_xl : in_xr, hi = in_xl <= in_xr ? in_xr : in_xl;
	__CPROVER_assert(result == (in_f0 == 0.0 ? lo : hi), "a bracket end that is a zero is returned as is");
#ifdef WITNESS
	__CPROVER_assert(0, "witness: end of harness reachable");
#endif
}

// HARNESS name=c02_valid_bracket_enters_ridder unwind=2 key=C02/bp/valid-bracket-never-exits
void c02_valid_bracket_enters_ridder(void)
{
	setup();
	/* opposite strict signs, finite: a valid bracket. The run is cut at the third evaluation, i.e. once the Ridder branch has been entered. */
	__CPROVER_assume((in_f0 > 0.0 && in_f1 < 0.0) || (in_f0 < 0.0 && in_f1 > 0.0));
	__CPROVER_assume(in_f0 - in_f0 == 0.0 && in_f1 - in_f1 == 0.0);
	verif_f_cut = 3;
	int before = verif_ncalls;
	result = verif_c02_root(in_xl, in_xr, in_acc);
	/* accept mode: verif_exit() asserts unreachability */
#ifdef WITNESS
	__CPROVER_assert(0, "witness: end of harness reachable");
#endif
}
