// C06, C07, C17, C18, C19(statistics part): wrappers around Special_Functions.cpp and Statistics.cpp
#include "common.h"
#include <random>
#include "libphysica/Special_Functions.hpp"
#include "libphysica/Statistics.hpp"
using namespace libphysica;

namespace libphysica
{
extern double GammaQcf(double x, double a);
extern double GammaPser(double x, double a);
extern double GammaQint(double x, double a);
extern std::vector<double> FactorialList;
}	// namespace libphysica

// scalar functions: op selects, (a,b,c) doubles, (i,j) integers
VX double verif_sf(int op, double a, double b, double c, int i, int j)
{
	switch(op)
	{
		case 1: return Sign(a);
		case 2: return Sign(a, b);
		case 3: return StepFunction(a);
		case 4: return Round(a, (unsigned) i);
		case 5: return Relative_Difference(a, b);
		case 6: return Floats_Equal(a, b, c);
		case 7: return Floats_Equal(a, b);
		case 10: return Factorial((unsigned) i);
		case 11: return Binomial_Coefficient(i, j);
		case 12: return GammaLn(a);
		case 13: return Gamma(a);
		case 14: return Upper_Incomplete_Gamma(a, b);
		case 15: return Lower_Incomplete_Gamma(a, b);
		case 16: return GammaQ(a, b);
		case 17: return GammaP(a, b);
		case 18: return Inv_GammaP(a, b);
		case 19: return Inv_GammaQ(a, b);
		case 20: return GammaQcf(a, b);
		case 21: return GammaPser(a, b);
		case 30: return Dawson_Integral(a);
		case 31: return Erfi(a);
		case 32: return Inv_Erf(a);
		// distributions
		case 40: return PDF_Uniform(a, b, c);
		case 41: return CDF_Uniform(a, b, c);
		case 42: return PDF_Gauss(a, b, c);
		case 43: return CDF_Gauss(a, b, c);
		case 44: return Quantile_Gauss(a, b, c);
		case 45: return PMF_Binomial((unsigned) i, a, (unsigned) j);
		case 46: return CDF_Binomial((unsigned) i, a, (unsigned) j);
		case 47: return PMF_Poisson(a, (unsigned) i);
		case 48: return CDF_Poisson(a, (unsigned) i);
		case 49: return Inv_CDF_Poisson((unsigned) i, a);
		case 50: return PDF_Chi_Square(a, b);
		case 51: return CDF_Chi_Square(a, b);
		case 52: return PDF_Exponential(a, b);
		case 53: return CDF_Exponential(a, b);
		case 54: return PDF_Maxwell_Boltzmann(a, b);
		case 55: return CDF_Maxwell_Boltzmann(a, b);
		case 56: return Log_Likelihood_Poisson(a, (unsigned long) i, b);
		case 57: return Likelihood_Poisson(a, (unsigned long) i, b);
	}
	return -12345.0;
}
// two-call history in one process: the value of the second call (C06 history independence)
VX double verif_sf_seq(int op, double a0, double b0, double a1, double b1)
{
	verif_sf(op, a0, b0, 0.0, 0, 0);
	return verif_sf(op, a1, b1, 0.0, 0, 0);
}
// vector spherical harmonics coefficient tables: which = 0 (Y) / 1 (Psi); out = {re, im}
VX void verif_vsh(int which, int component, int l, int m, int l_hat, int m_hat, double* out)
{
	std::complex<double> c = which == 0 ? VSH_Y_Component(component, l, m, l_hat, m_hat) : VSH_Psi_Component(component, l, m, l_hat, m_hat);
	out[0]				   = c.real();
	out[1]				   = c.imag();
}
// assembled vector harmonics: which = 0 (Y) / 1 (Psi); out = {re0, im0, re1, im1, re2, im2}
VX void verif_vsh_vec(int which, int l, int m, double theta, double phi, double* out)
{
	std::vector<std::complex<double>> v = which == 0 ? Vector_Spherical_Harmonics_Y(l, m, theta, phi) : Vector_Spherical_Harmonics_Psi(l, m, theta, phi);
	for(int i = 0; i < 3; i++)
	{
		out[2 * i]	   = v[i].real();
		out[2 * i + 1] = v[i].imag();
	}
}
VX unsigned long verif_factorial_table(double* out, unsigned long cap)
{
	unsigned long n = FactorialList.size();
	for(unsigned long k = 0; k < n && k < cap; k++)
		out[k] = FactorialList[k];
	return n;
}
VX void verif_factorial_table_set(const double* in, unsigned long n) { FactorialList.assign(in, in + n); }
// binned likelihoods
VX double verif_likelihood_binned(int logarithm, unsigned n, const double* pred, const unsigned long* obs, unsigned nb, const double* bkg)
{
	std::vector<double> p(pred, pred + n), b(bkg, bkg + nb);
	std::vector<unsigned long> o(obs, obs + n);
	return logarithm ? Log_Likelihood_Poisson_Binned(p, o, b) : Likelihood_Poisson_Binned(p, o, b);
}
VX double verif_chibar(int cdf, double x, unsigned n, const double* w)
{
	std::vector<double> ws(w, w + n);
	return cdf ? CDF_Chi_Bar_Square(x, ws) : PDF_Chi_Bar_Square(x, ws);
}
// ---- samplers (C18): the generator object is real; Sample_Uniform / Sample_Gauss are intercepted by the checks
VX double verif_sample(int op, double a, double b, double c)
{
	std::mt19937 PRNG(20240607);
	switch(op)
	{
		case 1: return Sample_Uniform(PRNG, a, b);
		case 2: return Sample_Gauss(PRNG, a, b);
		case 3: return Sample_Poisson(PRNG, a);
		case 4: return Inverse_Transform_Sampling(verif_f, a, b, PRNG);
		case 5: return Rejection_Sampling(verif_f, a, b, c, PRNG);
	}
	return -12345.0;
}
VX void verif_rejection2d(double x1, double x2, double y1, double y2, double zmax, double* out)
{
	std::mt19937 PRNG(20240607);
	std::function<double(double, double)> pdf = verif_f2;
	std::pair<double, double> r				  = Rejection_Sampling_2D(PRNG, pdf, x1, x2, y1, y2, zmax);
	out[0]									  = r.first;
	out[1]									  = r.second;
}
VX unsigned long verif_metropolis(double sigma, unsigned sample, unsigned thinning, unsigned burn_in, unsigned ndomain, const double* domain, double* out, unsigned long cap)
{
	std::mt19937 PRNG(20240607);
	std::vector<double> dom(domain, domain + ndomain);
	std::vector<double> s = Sample_Metropolis(PRNG, verif_f, sigma, sample, thinning, burn_in, dom);
	for(unsigned long k = 0; k < s.size() && k < cap; k++)
		out[k] = s[k];
	return s.size();
}
VX unsigned long verif_metropolis2d(double sx, double sy, unsigned sample, unsigned thinning, unsigned burn_in, unsigned ndomain, const double* domain, double* out, unsigned long cap)
{
	std::mt19937 PRNG(20240607);
	std::vector<double> dom(domain, domain + ndomain);
	std::pair<double, double> sig(sx, sy);
	std::vector<std::pair<double, double>> s = Sample_Metropolis_2D(PRNG, verif_f2, sig, sample, thinning, burn_in, dom);
	for(unsigned long k = 0; k < s.size() && 2 * k + 1 < cap; k++)
	{
		out[2 * k]	   = s[k].first;
		out[2 * k + 1] = s[k].second;
	}
	return s.size();
}
// ---- summary statistics (C19)
VX double verif_stats(int op, unsigned n, const double* data, const double* weights, double* out2)
{
	std::vector<double> d(data, data + n);
	switch(op)
	{
		case 1: return Arithmetic_Mean(d);
		case 2: return Median(d);
		case 3: return Variance(d);
		case 4: return Standard_Deviation(d);
		case 5:
		{
			std::vector<DataPoint> dp;
			for(unsigned i = 0; i < n; i++)
				dp.push_back(DataPoint(data[i], weights[i]));
			std::vector<double> r = Weighted_Average(dp);
			out2[0]				  = r[0];
			out2[1]				  = r[1];
			return r.size();
		}
	}
	return -12345.0;
}
