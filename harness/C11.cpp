// C11: the minimisers.  Bracket_Method / Brent are local to Numerics.cpp, so this harness TU includes the real source text (-I/repo/src) instead of linking a separately lowered Numerics.cpp.
#include "common.h"
#include "Numerics.cpp"
using namespace libphysica;

static double fv_of_stdvector(std::vector<double> v) { return verif_fv(v.data(), v.size()); }

VX void verif_c11_bracket(double a, double b, double* out)
{
	Brent br(3e-8);
	std::function<double(double)> f = verif_f;
	br.Bracket(a, b, f);
	out[0] = br.ax; out[1] = br.bx; out[2] = br.cx; out[3] = br.fa; out[4] = br.fb; out[5] = br.fc;
}
VX double verif_c11_brent(double ax, double bx, double cx, double tol, double* out)
{
	Brent br(tol);
	br.ax = ax; br.bx = bx; br.cx = cx;
	std::function<double(double)> f = verif_f;
	double r = br.Minimize(f);
	out[0] = br.x_min; out[1] = br.f_min;
	return r;
}
VX double verif_c11_findmin(double xl, double xr, double tol) { return Find_Minimum(verif_f, xl, xr, tol); }
VX double verif_c11_findmax(double xl, double xr, double tol) { return Find_Maximum(verif_f, xl, xr, tol); }
// mode 0: general simplex pp ((ndim+1) x ndim, row major); 1: point + scalar delta; 2: point + deltas
VX void verif_c11_nm(int mode, unsigned ndim, const double* pp, const double* deltas, double ftol, double* xmin, double* state)
{
	Minimization M(ftol);
	std::vector<double> r;
	if(mode == 0)
	{
		std::vector<std::vector<double>> simplex(ndim + 1, std::vector<double>(ndim));
		for(unsigned i = 0; i < ndim + 1; i++)
			for(unsigned j = 0; j < ndim; j++)
				simplex[i][j] = pp[i * ndim + j];
		r = M.minimize(simplex, fv_of_stdvector);
	}
	else if(mode == 1)
	{
		std::vector<double> p(pp, pp + ndim);
		r = M.minimize(p, deltas[0], fv_of_stdvector);
	}
	else
	{
		std::vector<double> p(pp, pp + ndim), d(deltas, deltas + ndim);
		r = M.minimize(p, d, fv_of_stdvector);
	}
	for(unsigned j = 0; j < ndim; j++)
		xmin[j] = r[j];
	state[0] = M.fmin;
	for(unsigned i = 0; i < ndim + 1; i++)
		state[1 + i] = M.y[i];
	for(unsigned i = 0; i < ndim + 1; i++)
		for(unsigned j = 0; j < ndim; j++)
			state[2 + ndim + i * ndim + j] = M.current_simplex[i][j];
	state[2 + ndim + (ndim + 1) * ndim] = r.size();
}
