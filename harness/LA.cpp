// C04/C05/C15/C16 (+C10 guards): one dispatching wrapper around the real Vector / Matrix code of Linear_Algebra.cpp.
// Objects are built with the library's own constructors from flat arrays; results are copied out entry by entry.
#include "common.h"
#include "libphysica/Linear_Algebra.hpp"
using namespace libphysica;

namespace libphysica
{
extern Matrix Householder_Matrix(const Matrix& M);
extern Vector Find_Eigenvector_Rayleigh(Matrix& M, double& eigenvalue);
}	// namespace libphysica

static Matrix mkM(unsigned r, unsigned c, const double* a)
{
	if(r == 0 || c == 0)
		return Matrix(r, c);
	std::vector<std::vector<double>> e(r, std::vector<double>(c));
	for(unsigned i = 0; i < r; i++)
		for(unsigned j = 0; j < c; j++)
			e[i][j] = a[i * c + j];
	return Matrix(e);
}
static Vector mkV(unsigned n, const double* a)
{
	return Vector(std::vector<double>(a, a + n));
}
static void outM(const Matrix& M, double* out, unsigned* shape)
{
	shape[0] = M.Rows();
	shape[1] = M.Columns();
	for(unsigned i = 0; i < M.Rows(); i++)
		for(unsigned j = 0; j < M.Columns(); j++)
			out[i * M.Columns() + j] = M.components[i][j];
	shape[2] = M.components.size();
	shape[3] = M.components.size() ? M.components[0].size() : 0;
}
static void outV(const Vector& v, double* out, unsigned* shape)
{
	shape[0] = v.Size();
	shape[1] = 1;
	for(unsigned i = 0; i < v.Size(); i++)
		out[i] = v.components[i];
	shape[2] = v.components.size();
	shape[3] = 1;
}
static void outS(double s, double* out, unsigned* shape)
{
	shape[0] = shape[1] = shape[2] = shape[3] = 1;
	out[0]									  = s;
}

// A: r1 x c1, B: r2 x c2 (vectors: r x 1), C, D only for the block constructor; s scalar; i,j indices
VX int verif_la(int op, unsigned r1, unsigned c1, const double* a, unsigned r2, unsigned c2, const double* b, double s, unsigned i, unsigned j, const double* c, const double* d, double* out, unsigned* shape)
{
	switch(op)
	{
		// ---- matrix (+) matrix
		case 1: outM(mkM(r1, c1, a).Plus(mkM(r2, c2, b)), out, shape); break;
		case 2: outM(mkM(r1, c1, a).Minus(mkM(r2, c2, b)), out, shape); break;
		case 3: outM(mkM(r1, c1, a) + mkM(r2, c2, b), out, shape); break;
		case 4: outM(mkM(r1, c1, a) - mkM(r2, c2, b), out, shape); break;
		case 5:
		{
			Matrix A = mkM(r1, c1, a);
			A += mkM(r2, c2, b);
			outM(A, out, shape);
			break;
		}
		case 6:
		{
			Matrix A = mkM(r1, c1, a);
			A -= mkM(r2, c2, b);
			outM(A, out, shape);
			break;
		}
		case 7: outM(mkM(r1, c1, a).Product(mkM(r2, c2, b)), out, shape); break;
		case 8: outM(mkM(r1, c1, a) * mkM(r2, c2, b), out, shape); break;
		// ---- scalar
		case 9: outM(mkM(r1, c1, a).Product(s), out, shape); break;
		case 10: outM(mkM(r1, c1, a) * s, out, shape); break;
		case 11: outM(s * mkM(r1, c1, a), out, shape); break;
		case 12: outM(mkM(r1, c1, a).Division(s), out, shape); break;
		case 13: outM(mkM(r1, c1, a) / s, out, shape); break;
		case 14: outM(mkM(r1, c1, a).Transpose(), out, shape); break;
		// ---- matrix / vector
		case 15: outV(mkM(r1, c1, a).Product(mkV(r2, b)), out, shape); break;
		case 16: outV(mkM(r1, c1, a) * mkV(r2, b), out, shape); break;
		case 17: outV(mkV(r2, b) * mkM(r1, c1, a), out, shape); break;
		case 18: outM(Outer_Vector_Product(mkV(r1, a), mkV(r2, b)), out, shape); break;
		// ---- properties
		case 19: outS(mkM(r1, c1, a).Trace(), out, shape); break;
		case 20: outS(mkM(r1, c1, a).Norm(), out, shape); break;
		case 21: outS(mkM(r1, c1, a).Symmetric(), out, shape); break;
		case 22: outS(mkM(r1, c1, a).Antisymmetric(), out, shape); break;
		case 23: outS(mkM(r1, c1, a).Diagonal(), out, shape); break;
		case 24: outS(mkM(r1, c1, a).Square(), out, shape); break;
		case 25: outM(mkM(r1, c1, a).Sub_Matrix(i, j), out, shape); break;
		case 26: outV(mkM(r1, c1, a).Return_Row(i), out, shape); break;
		case 27: outV(mkM(r1, c1, a).Return_Column(j), out, shape); break;
		case 28:
		{
			Matrix A = mkM(r1, c1, a);
			A.Delete_Row(i);
			outM(A, out, shape);
			break;
		}
		case 29:
		{
			Matrix A = mkM(r1, c1, a);
			A.Delete_Column(j);
			outM(A, out, shape);
			break;
		}
		case 30:   // block constructor {{A,B},{C,D}} with A r1xc1, B r1xc2, C r2xc1, D r2xc2
			outM(Matrix(std::vector<std::vector<Matrix>> {{mkM(r1, c1, a), mkM(r1, c2, b)}, {mkM(r2, c1, c), mkM(r2, c2, d)}}), out, shape);
			break;
		case 31: outM(Identity_Matrix(r1), out, shape); break;
		case 32: outM(Matrix(std::vector<double>(a, a + r1)), out, shape); break;
		case 33: outS(mkM(r1, c1, a) == mkM(r2, c2, b), out, shape); break;
		case 34: outS(mkM(r1, c1, a)[i][j], out, shape); break;
		case 35:
		{
			Matrix A = mkM(r1, c1, a);
			A		 = mkM(r2, c2, b);
			outM(A, out, shape);
			break;
		}
		case 36: outS(mkM(r1, c1, a).Orthogonal(), out, shape); break;
		case 37:
		{
			Matrix A = mkM(r1, c1, a);
			A.Resize(i, j);
			outM(A, out, shape);
			break;
		}
		case 38:
		{
			Matrix A = mkM(r1, c1, a);
			A.Assign(i, j, s);
			outM(A, out, shape);
			break;
		}
		// ---- vectors
		case 40: outS(mkV(r1, a).Dot(mkV(r2, b)), out, shape); break;
		case 41: outS(mkV(r1, a) * mkV(r2, b), out, shape); break;
		case 42: outV(mkV(r1, a).Cross(mkV(r2, b)), out, shape); break;
		case 43: outV(mkV(r1, a) + mkV(r2, b), out, shape); break;
		case 44: outV(mkV(r1, a) - mkV(r2, b), out, shape); break;
		case 45:
		{
			Vector v = mkV(r1, a);
			v += mkV(r2, b);
			outV(v, out, shape);
			break;
		}
		case 46:
		{
			Vector v = mkV(r1, a);
			v -= mkV(r2, b);
			outV(v, out, shape);
			break;
		}
		case 47: outV(mkV(r1, a) * s, out, shape); break;
		case 48: outV(s * mkV(r1, a), out, shape); break;
		case 49: outV(mkV(r1, a) / s, out, shape); break;
		case 50: outS(mkV(r1, a).Norm(), out, shape); break;
		case 51: outV(mkV(r1, a).Normalized(), out, shape); break;
		case 52:
		{
			Vector v = mkV(r1, a);
			v.Normalize();
			outV(v, out, shape);
			break;
		}
		case 53: outS(mkV(r1, a)[i], out, shape); break;
		case 54: outS(mkV(r1, a) == mkV(r2, b), out, shape); break;
		case 55: outS(Angle(mkV(r1, a), mkV(r2, b)), out, shape); break;
		case 56:
		{
			Vector v = mkV(r1, a);
			v.Resize(i);
			outV(v, out, shape);
			break;
		}
		case 57:
		{
			Vector v = mkV(r1, a);
			v.Assign(i, s);
			outV(v, out, shape);
			break;
		}
		// ---- C05
		case 60: outS(mkM(r1, c1, a).Determinant(), out, shape); break;
		case 61: outS(mkM(r1, c1, a).Invertible(), out, shape); break;
		case 62: outM(mkM(r1, c1, a).Inverse(), out, shape); break;
		// ---- C15
		case 70:
		{
			std::pair<Matrix, Matrix> qr = QR_Decomposition(mkM(r1, c1, a));
			outM(qr.first, out, shape);
			unsigned sh2[4];
			outM(qr.second, out + shape[0] * shape[1], sh2);
			break;
		}
		case 71: outM(Householder_Matrix(mkM(r1, c1, a)), out, shape); break;
		case 72:
		{
			Matrix M						= mkM(r1, c1, a);
			std::vector<double> ev			= Eigenvalues(M);
			outV(Vector(ev), out, shape);
			break;
		}
		case 73:
		{
			Matrix M   = mkM(r1, c1, a);
			double lam = s;
			Vector v   = Find_Eigenvector_Rayleigh(M, lam);
			outV(v, out, shape);
			out[v.Size()] = lam;
			break;
		}
		case 74:
		{
			Matrix M = mkM(r1, c1, a);
			auto es	 = Eigensystem(M);
			outV(Vector(es.first), out, shape);
			for(unsigned k = 0; k < es.second.size(); k++)
				for(unsigned l = 0; l < es.second[k].Size(); l++)
					out[es.first.size() + k * r1 + l] = es.second[k][l];
			break;
		}
		// ---- C16
		case 80: outM(Rotation_Matrix(s, i, mkV(r2, b)), out, shape); break;
		case 81: outV(Spherical_Coordinates(a[0], a[1], a[2]), out, shape); break;
		case 82: outV(Spherical_Coordinates(a[0], a[1], a[2], mkV(r2, b)), out, shape); break;
		case 83: outM(Rotation_Matrix(s, i), out, shape); break;
		default: return -1;
	}
	return 0;
}
