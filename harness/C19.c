/* C19 - BP harnesses: the real Workload_Distribution and Range on machine integers (generated C of the clang IR) */
#include "gen.c"
unsigned nondet_uint(void);
int nondet_int(void);
#ifndef RB
#define RB 3
#endif
#ifndef MAXW
#define MAXW 8
#endif
#ifndef MAXT
#define MAXT 64
#endif
static unsigned in_workers, in_tasks;
static int in_min, in_max, in_step;
static int32_t outbuf[64];

// HARNESS name=c19_workload unwind=12 timeout=600 key=C19/bp/workload
void c19_workload(void)
{
	gen_init();
	in_workers = nondet_uint(); in_tasks = nondet_uint();
	__CPROVER_assume(in_workers >= 1 && in_workers <= MAXW && in_tasks <= MAXT);
	uint64_t n = verif_workload(in_workers, in_tasks, (uint8_t*) outbuf, 64);
	__CPROVER_assert(n == (uint64_t) in_workers + 1, "workers+1 indices");
	__CPROVER_assert(outbuf[0] == 0, "first index is 0");
	__CPROVER_assert(outbuf[in_workers] == (int32_t) in_tasks, "last index is tasks");
	int32_t lo = outbuf[1] - outbuf[0], hi = lo;
	for(unsigned i = 0; i < MAXW; i++)
		if(i < in_workers)
		{
			int32_t d = outbuf[i + 1] - outbuf[i];
			__CPROVER_assert(d >= 0, "indices non-decreasing");
			if(d < lo) lo = d;
			if(d > hi) hi = d;
		}
	__CPROVER_assert(hi - lo <= 1, "consecutive differences differ by at most one");
#ifdef WITNESS
	__CPROVER_assert(0, "witness: end of harness reachable");
#endif
}

