"""Check driver: lowers /repo, runs a check module's jobs in a process pool, replays candidates natively,
   applies known_findings.json, writes evidence/<id>.json, prints VIOLATION / KNOWN-FINDING lines, sets the exit code."""
import json, os, re, sys, time, traceback, multiprocessing, importlib, resource, hashlib
HERE = os.path.dirname(os.path.abspath(__file__))
VERIF = os.path.dirname(HERE)
sys.path.insert(0, HERE); sys.path.insert(0, os.path.join(VERIF, 'checks'))
import z3
import front, llparse, llsym

ALLSRC = ['Numerics.cpp', 'Special_Functions.cpp', 'Utilities.cpp', 'Linear_Algebra.cpp', 'Integration.cpp', 'Statistics.cpp', 'Natural_Units.cpp']

def ob(name, status, backend='EA', solver_s=0.0, detail='', model=None, key=None, sample=None, solver='driver'):
    """status: discharged | undecided | candidate | broken"""
    if isinstance(model, dict):
        model = {k: (str(v) if llsym.is_sym(v) else [str(x) if llsym.is_sym(x) else x for x in v] if isinstance(v, (list, tuple)) else v) for k, v in model.items()}
    return {'name': name, 'status': status, 'backend': backend, 'solver_s': round(solver_s, 3), 'detail': detail, 'model': model, 'key': key or name, 'sample': sample, 'solver': solver}

def model_value(m, t):
    v = m.eval(t, model_completion=True)
    if z3.is_rational_value(v): return [v.numerator_as_long(), v.denominator_as_long()]
    if z3.is_int_value(v): return [v.as_long(), 1]
    if z3.is_algebraic_value(v):
        a = v.approx(30); return [a.numerator_as_long(), a.denominator_as_long()]
    if z3.is_true(v): return [1, 1]
    if z3.is_false(v): return [0, 1]
    return str(v)

def q2f(q):
    from fractions import Fraction
    return float(Fraction(q[0], q[1]))

def _has_div_or_ite(t, depth=0):
    if depth > 400: return True
    k = t.decl().kind()
    if k in (z3.Z3_OP_DIV, z3.Z3_OP_ITE, z3.Z3_OP_UNINTERPRETED) and t.num_args() > 0:
        if k == z3.Z3_OP_DIV and z3.is_rational_value(t.arg(1)): return _has_div_or_ite(t.arg(0), depth + 1)
        return True
    return any(_has_div_or_ite(c, depth + 1) for c in t.children())

def _mk_solver(kind):
    if kind == 'default': return z3.Solver()
    if kind == 'nlsat': return z3.Then('simplify', 'purify-arith', 'qfnra-nlsat').solver()
    return z3.Tactic(kind).solver()

def _ackermannize(fs):
    """replace every application of an uninterpreted function by a fresh constant and add all pairwise congruence constraints: equisatisfiable, and pure (nonlinear) real arithmetic afterwards"""
    cache = {}; apps = {}
    def go(t):
        k = t.get_id()
        if k in cache: return cache[k]
        old = t.children(); ch = [go(c) for c in old]; d = t.decl()
        if z3.is_app(t) and d.kind() == z3.Z3_OP_UNINTERPRETED and t.num_args() > 0:
            r = z3.FreshConst(t.sort(), 'ack'); apps.setdefault(d.name(), []).append((ch, r))
        elif ch and any(not a.eq(b) for a, b in zip(ch, old)): r = d(*ch)
        else: r = t
        cache[k] = r; return r
    out = [go(f) for f in fs]
    for L in apps.values():
        for i in range(len(L)):
            for j in range(i + 1, len(L)):
                out.append(z3.Implies(z3.And(*[a == b for a, b in zip(L[i][0], L[j][0])]), L[i][1] == L[j][1]))
    return out

def _check(so, tmo_ms):
    """solver call with a second line of defence: if the solver's own timeout is not honoured, interrupt the context a little later (the per-job wall-time cap of run_jobs is the third)"""
    import threading
    tm = threading.Timer(tmo_ms / 1000.0 * 1.2 + 3.0, lambda: so.ctx.interrupt()); tm.daemon = True; tm.start()
    try: return so.check()
    except z3.Z3Exception: return z3.unknown
    finally: tm.cancel()

def prove(name, assumptions, claim, timeout_ms=20000, model_vars=None, key=None, detail='', tactic=None, sample=False):
    """discharged iff assumptions AND NOT claim is unsat.  sat -> candidate with a model of model_vars.  unknown -> undecided.
       tactic='nra': portfolio (default solver for a fifth of the budget, then simplify+purify-arith+nlsat) for polynomial/rational identities"""
    # fast path for polynomial identities: expand lhs - rhs into a sum of monomials with the solver's own simplifier
    if z3.is_eq(claim) and claim.num_args() == 2 and z3.is_arith(claim.arg(0)) and not _has_div_or_ite(claim.arg(0)) and not _has_div_or_ite(claim.arg(1)):
        t0 = time.time()
        try:
            d = z3.simplify(claim.arg(0) - claim.arg(1), som=True, flat=True)
            if z3.is_rational_value(d) and d.numerator_as_long() == 0:
                return ob(name, 'discharged', solver_s=time.time() - t0, key=key, detail=(detail + ' polynomial identity by expansion').strip(), solver='z3/simplify-som',
                          sample={'obligation': name, 'result': 'lhs - rhs expands to 0', 'solver': 'z3/simplify-som'} if sample else None)
        except z3.Z3Exception: pass
    plan = _plan(tactic, timeout_ms)
    if os.environ.get('VERIF_PROVE_INLINE'): return _prove_solver(plan, name, assumptions, claim, model_vars, key, detail, sample)
    # the solver runs in a forked child: a query whose own timeout is not honoured (seen with nlsat on seeded trees) is killed instead of stalling the job
    import pickle, select
    budget = sum(t for _, t in plan) / 1000.0 * 1.25 + 10.0; t0 = time.time()
    try: rfd, wfd = os.pipe(); cpid = os.fork()
    except OSError: return _prove_solver(plan, name, assumptions, claim, model_vars, key, detail, sample)
    if cpid == 0:
        try:
            os.close(rfd)
            try:
                import ctypes, signal; ctypes.CDLL(None).prctl(1, signal.SIGKILL)
            except Exception: pass
            data = pickle.dumps(_prove_solver(plan, name, assumptions, claim, model_vars, key, detail, sample))
            with os.fdopen(wfd, 'wb') as f: f.write(data)
        except BaseException: pass
        finally: os._exit(0)
    os.close(wfd); buf = b''; killed = False
    while True:
        left = budget - (time.time() - t0)
        rl = select.select([rfd], [], [], max(0.0, left))[0] if left > 0 else []
        if not rl:
            try: os.kill(cpid, 9)
            except OSError: pass
            killed = True; break
        chunk = os.read(rfd, 1 << 16)
        if not chunk: break
        buf += chunk
    os.close(rfd)
    try: os.waitpid(cpid, 0)
    except OSError: pass
    if buf and not killed:
        try:
            res = pickle.loads(buf)
            if res['status'] == 'undecided': res = _sample_model(name, assumptions, claim, model_vars, key, detail) or res
            return res
        except Exception: pass
    alt = _sample_model(name, assumptions, claim, model_vars, key, detail)
    if alt is not None: return alt
    return ob(name, 'undecided', solver_s=time.time() - t0, key=key, detail=(detail + (' solver process killed after %.0f s: its timeout was not honoured' % budget if killed else ' solver process died without a result')).strip(), solver='z3/' + plan[-1][0])

def _sample_model(name, assumptions, claim, model_vars, key, detail, seconds=12.0):
    """last resort for a query the solver left open: look for a counter-model by evaluating the (Ackermannised) formula at random small rationals.  A hit is a genuine model (checked by evaluation);
       no hit says nothing.  Only the 'sat' side can come out of this, so it can turn an undecided obligation into a candidate (which is then replayed), never into a discharged one."""
    import random
    try:
        fs = _ackermannize(list(assumptions) + [z3.Not(claim)]); consts = {}
        stack = list(fs); seen = set()
        while stack:
            u = stack.pop()
            if u.get_id() in seen: continue
            seen.add(u.get_id())
            if z3.is_const(u) and u.decl().kind() == z3.Z3_OP_UNINTERPRETED: consts[u.get_id()] = u
            stack.extend(u.children())
        cs = list(consts.values()); rng = random.Random(20240607); t0 = time.time(); tries = 0
        while time.time() - t0 < seconds:
            tries += 1; sub = []
            for c in cs:
                if z3.is_bool(c): v = z3.BoolVal(rng.random() < 0.5)
                elif z3.is_int(c): v = z3.IntVal(rng.randint(-3, 12))
                else: v = z3.RealVal(rng.randint(-12, 12)) / z3.RealVal(rng.choice([1, 1, 2, 3, 4, 8]))
                sub.append((c, z3.simplify(v)))
            if all(z3.is_true(z3.simplify(z3.substitute(f, *sub))) for f in fs):
                def val(t):
                    if not llsym.is_sym(t): return t
                    v = z3.simplify(z3.substitute(t, *sub))
                    if z3.is_rational_value(v): return [v.numerator_as_long(), v.denominator_as_long()]
                    if z3.is_int_value(v): return [v.as_long(), 1]
                    if z3.is_true(v): return [1, 1]
                    if z3.is_false(v): return [0, 1]
                    return str(v)
                mv = {k: ([val(x) for x in t] if isinstance(t, (list, tuple)) else val(t)) for k, t in (model_vars or {}).items()}
                return ob(name, 'candidate', solver_s=time.time() - t0, model=mv, key=key, detail=(detail + ' counter-model found by evaluation at random rationals (try %d) after the solver left the query open' % tries).strip(), solver='z3/simplify-eval')
    except Exception: pass
    return None

def _plan(tactic, timeout_ms):
    return [('default', timeout_ms)] if tactic is None else [('nlsat', timeout_ms), ('default', max(2000, timeout_ms // 5))] if tactic == 'nra' else [('ack-nlsat', timeout_ms), ('default', max(2000, timeout_ms // 5))] if tactic == 'nra-uf' else [(tactic, timeout_ms)]

def _prove_solver(plan, name, assumptions, claim, model_vars, key, detail, sample):
    dt = 0.0; r = z3.unknown; so = None; used = ''
    for kind, tmo in plan:
        if kind == 'ack-nlsat':
            so = _mk_solver('nlsat'); so.set('timeout', int(tmo)); so.add(*_ackermannize(list(assumptions) + [z3.Not(claim)]))
        else:
            so = _mk_solver(kind); so.set('timeout', int(tmo))
            so.add(*assumptions); so.add(z3.Not(claim))
        t0 = time.time()
        r = _check(so, int(tmo))
        dt += time.time() - t0; used = kind
        if r != z3.unknown: break
    smp = None
    if sample:
        txt = so.to_smt2() if hasattr(so, 'to_smt2') else ''; smp = {'obligation': name, 'smtlib_head': txt[:600], 'smtlib_bytes': len(txt), 'result': str(r), 'solver': 'z3/' + used}
    if r == z3.unsat: return ob(name, 'discharged', solver_s=dt, key=key, detail=detail, sample=smp, solver='z3/' + used)
    if r == z3.sat:
        m = so.model(); mv = {}
        for k, t in (model_vars or {}).items():
            if isinstance(t, (list, tuple)): mv[k] = [model_value(m, x) if llsym.is_sym(x) else x for x in t]
            else: mv[k] = model_value(m, t) if llsym.is_sym(t) else t
        return ob(name, 'candidate', solver_s=dt, model=mv, key=key, detail=detail, sample=smp, solver='z3/' + used)
    try: why = so.reason_unknown()
    except Exception: why = 'unknown'
    return ob(name, 'undecided', solver_s=dt, key=key, detail=(detail + ' solver: ' + why).strip(), sample=smp, solver='z3/' + used)

def alg_assumptions(st):
    """minimal sound hypotheses for algebraic identities on a path: every executed divisor is non-zero (proved separately by divisor_obligations)
       and the defining equations of the square-root witnesses; the comparison outcomes of the path are dropped (weaker hypothesis => still sound)"""
    out = [e[1] != 0 for e in st.events if e[0] == 'div']
    for d in st.defs:
        if d[0] == 'sqrt': out += [d[1] >= 0, d[1] * d[1] == d[2]]
    return out

def check_sat(name, assumptions, timeout_ms=20000, key=None):
    """vacuity witness: the assumptions (path condition + precondition) must be satisfiable"""
    so = z3.Solver(); so.set('timeout', timeout_ms); so.add(*assumptions)
    t0 = time.time(); r = so.check(); dt = time.time() - t0
    if r == z3.sat: return ob(name, 'discharged', solver_s=dt, key=key, detail='witness: precondition and path condition are satisfiable')
    if r == z3.unsat: return ob(name, 'broken', solver_s=dt, key=key, detail='VACUOUS: assumptions unsatisfiable')
    return ob(name, 'undecided', solver_s=dt, key=key, detail='witness unknown')

def divisor_obligations(name, st, pre=(), timeout_ms=10000, model_vars=None, key=None, tactic=None):
    """every fdiv executed on this path has a non-zero divisor; every sqrt a non-negative argument"""
    out = []; k = 0
    for e in st.events:
        if e[0] == 'div':
            k += 1
            out.append(prove('%s/div%d' % (name, k), list(pre) + st.pc[:e[2]], e[1] != 0, timeout_ms, model_vars, key=key or (name + '/div'), tactic=tactic))
        elif e[0] == 'sqrt':
            k += 1
            out.append(prove('%s/sqrtarg%d' % (name, k), list(pre) + st.pc[:e[2]], e[1] >= 0, timeout_ms, model_vars, key=key or (name + '/sqrt'), tactic=tactic))
    return out

def _run_job(job):
    fn, args = job
    t0 = time.time()
    try:
        res = fn(*args)
        return {'obs': res, 'wall': time.time() - t0, 'rss_kb': resource.getrusage(resource.RUSAGE_SELF).ru_maxrss, 'job': fn.__name__ + repr(args)[:80], 'called': {k.lstrip('@'): v for k, v in llsym.CALLED.items()}}
    except llsym.Unsupported as e:
        return {'obs': [ob('%s%r' % (fn.__name__, args), 'undecided', detail='interpreter: ' + str(e))], 'wall': time.time() - t0, 'rss_kb': 0, 'job': fn.__name__}
    except Exception as e:
        return {'obs': [ob('%s%r' % (fn.__name__, args), 'broken', detail='exception: ' + traceback.format_exc()[-1500:])], 'wall': time.time() - t0, 'rss_kb': 0, 'job': fn.__name__}

def _job_child(job, conn):
    try:
        import ctypes, signal; ctypes.CDLL(None).prctl(1, signal.SIGKILL)      # PR_SET_PDEATHSIG: never outlive the driver
    except Exception: pass
    try: conn.send(_run_job(job))
    finally: conn.close()

def run_jobs(jobs, workers, cap_s):
    """every job in its own forked process: a job that dies (signal, interpreter crash) or exceeds the wall-time cap is reported as such instead of stalling the run"""
    from multiprocessing.connection import wait
    mp = multiprocessing.get_context('fork'); results = [None] * len(jobs); pending = list(range(len(jobs))); running = {}
    def name(i): return jobs[i][0].__name__ + repr(jobs[i][1])[:80]
    while pending or running:
        while pending and len(running) < workers:
            i = pending.pop(0); r, w = mp.Pipe(False); p = mp.Process(target=_job_child, args=(jobs[i], w)); p.start(); w.close(); running[i] = (p, r, time.time())
        ready = wait([v[1] for v in running.values()], timeout=2.0)
        for i, (p, r, t0) in list(running.items()):
            if r in ready:
                try: results[i] = r.recv()
                except (EOFError, OSError):
                    p.join(5); results[i] = {'obs': [ob(name(i), 'broken', detail='the job process died without a result (exit code %s)' % p.exitcode)], 'wall': time.time() - t0, 'rss_kb': 0, 'job': name(i)}
                p.join(5); r.close(); del running[i]
            elif time.time() - t0 > cap_s:
                p.kill(); p.join(5); r.close(); del running[i]
                results[i] = {'obs': [ob(name(i), 'undecided', detail='job exceeded the wall-time cap of %d s' % cap_s)], 'wall': time.time() - t0, 'rss_kb': 0, 'job': name(i)}
    return results

class Ctx:
    def __init__(s, pid, tier):
        s.pid = pid; s.tier = tier; s.t0 = time.time(); s.mods = {}; s.lower_info = []; s.functions = {}; s.assumptions = []; s.bounds = {}
        s.seed = int(os.environ.get('VERIF_SEED', '0') or 0)
        s.workers = int(os.environ.get('VERIF_WORKERS', '16'))
        s.extra = {}
    def quick(s): return s.tier == 'quick'
    def lower(s, srcs, harness, keep, **kw):
        hp = os.path.join(VERIF, 'harness', harness)
        path, info = front.lower(srcs, hp, keep, **kw)
        mod = llparse.parse_module(open(path).read())
        mod.path = path
        info['ir_lines'] = mod.text_lines; info['functions'] = len(mod.funcs)
        s.lower_info.append(info)
        for n, f in mod.funcs.items(): s.functions[n[1:]] = f.nlines
        return mod
    def native(s, srcs, harness):
        return front.native_so(srcs, os.path.join(VERIF, 'harness', harness))

def load_known():
    p = os.path.join(VERIF, 'known_findings.json')
    if not os.path.exists(p): return []
    return json.load(open(p)).get('findings', [])

def main(argv):
    import argparse
    ap = argparse.ArgumentParser()
    ap.add_argument('pid'); ap.add_argument('--tier', default=os.environ.get('VERIF_TIER', 'quick')); ap.add_argument('--replay', default=None)
    ap.add_argument('--only', default=None, help='development: run only jobs whose name contains this')
    a = ap.parse_args(argv)
    pid = a.pid; tier = a.tier if a.tier in ('quick', 'thorough') else 'quick'
    modl = importlib.import_module(pid)
    ctx = Ctx(pid, tier)
    if a.replay:
        rec = json.load(open(a.replay))
        conf, detail = modl.replay(ctx, rec['obligation'])
        print('replay of %s: %s -- %s' % (rec['obligation']['name'], 'REPRODUCED' if conf else 'not reproduced', detail))
        return 1 if conf else 0
    broken = []
    try:
        jobs = modl.jobs(ctx)
    except Exception:
        print('BROKEN-HARNESS: %s set-up failed\n%s' % (pid, traceback.format_exc()))
        return 2
    if a.only: jobs = [j for j in jobs if a.only in (j[0].__name__ + repr(j[1]))]
    t1 = time.time()
    if ctx.workers > 1 and len(jobs) > 1:
        results = run_jobs(jobs, min(ctx.workers, len(jobs)), int(os.environ.get('VERIF_JOB_CAP_S', '900' if tier == 'quick' else '7200')))
    else:
        results = [_run_job(j) for j in jobs]
    obs = []; jobstats = []; called = {}
    for r in results:
        obs.extend(r['obs']); jobstats.append({'job': r['job'], 'wall_s': round(r['wall'], 2), 'rss_mb': r['rss_kb'] // 1024})
        for k, v in (r.get('called') or {}).items(): called[k] = called.get(k, 0) + v
    # translator validation (concrete interpreter run vs native build) -- part of every run
    tv = []
    if hasattr(modl, 'validate'):
        try: tv = modl.validate(ctx)
        except Exception:
            tv = [ob('translator-validation', 'broken', detail=traceback.format_exc()[-1500:])]
        obs.extend(tv)
    known = load_known()
    violations = []; knownhits = []; unconfirmed = []
    os.makedirs(os.path.join(VERIF, 'replays', pid), exist_ok=True)
    nrep = {}
    for o in obs:
        if o['status'] != 'candidate': continue
        k = o['key']
        if nrep.get(k, 0) >= 3 and any(v['key'] == k for v in violations + [h[0] for h in knownhits]):
            # the key is already confirmed by replay: further candidates of the same key are counted, not replayed
            o['status'] = 'known' if any(h[0]['key'] == k for h in knownhits) else 'violated'; o['replay'] = 'same key as a replayed and confirmed candidate'
            if o['status'] == 'violated': o['replay_path'] = [v for v in violations if v['key'] == k][0]['replay_path']; violations.append(o)
            else: knownhits.append((o, [h[1] for h in knownhits if h[0]['key'] == k][0]))
            continue
        nrep[k] = nrep.get(k, 0) + 1
        if nrep[k] > 12:
            o['status'] = 'unconfirmed'; o['replay'] = 'replay budget for this key exhausted without a reproduction'; unconfirmed.append(o); continue
        try:
            conf, detail = modl.replay(ctx, o)
        except Exception:
            conf, detail = False, 'replay raised: ' + traceback.format_exc()[-800:]
        o['replay'] = detail
        if not conf:
            o['status'] = 'unconfirmed'; unconfirmed.append(o); continue
        rp = os.path.join(VERIF, 'replays', pid, re.sub(r'[^A-Za-z0-9_.-]', '_', o['name'])[:120] + '.json')
        json.dump({'property': pid, 'obligation': o, 'replay_detail': detail}, open(rp, 'w'), indent=1, default=str)
        o['replay_path'] = rp
        hit = [k2 for k2 in known if k2.get('property') == pid and k2.get('status') == 'known' and k2.get('key') == o['key']]
        if hit: o['status'] = 'known'; knownhits.append((o, hit[0]))
        else: o['status'] = 'violated'; violations.append(o)
    nd = sum(1 for o in obs if o['status'] == 'discharged'); nu = sum(1 for o in obs if o['status'] in ('undecided', 'unconfirmed'))
    brk = [o for o in obs if o['status'] == 'broken']
    wall = time.time() - ctx.t0
    samples = [o['sample'] for o in obs if o.get('sample')][:3]
    if not samples: samples = [{'obligation': o['name'], 'status': o['status'], 'backend': o['backend'], 'detail': o['detail'][:200]} for o in obs[:3]]
    byback = {}
    for o in obs: byback[o['backend']] = byback.get(o['backend'], 0) + 1
    ev = {
        'property_id': pid, 'tier': tier, 'seed': ctx.seed, 'level': 'other',
        'coverage': {
            'explanation': 'bounded solver-based symbolic checking of the real code: /repo sources lowered with clang++-14 to LLVM IR on this run, executed symbolically '
                           '(EA: exact real arithmetic, z3; BP: IR->C, CBMC bit-precise), every obligation is path-condition AND precondition AND NOT claim sent to the solver; '
                           'unsat = holds for all values inside the stated bounds. ' + getattr(modl, 'EXPLANATION', ''),
            'obligations': len(obs), 'discharged': nd, 'undecided': nu, 'violated': len(violations), 'known_findings_hit': len(knownhits), 'broken': len(brk),
            'evaluations': len(obs), 'distinct_nontrivial': len(set(o['name'] for o in obs if o['status'] in ('discharged', 'violated', 'known') and str(o.get('solver', '')).startswith(('z3/', 'cbmc')) and not o['name'].startswith('witness'))),
            'decided_by_driver': sum(1 for o in obs if not str(o.get('solver', '')).startswith(('z3/', 'cbmc'))),
            'rule': 'one evaluation = one obligation over all symbolic inputs of its bound. Non-trivial = decided (unsat / confirmed model) by a solver query (z3 portfolio incl. the polynomial-expansion fast path, or CBMC); '
                    'obligations the driver settles itself (structurally identical result terms, concrete values, path-coverage counters, translator validation) and vacuity witnesses are counted as trivial; distinct = distinct obligation names',
            'samples': samples,
            'functions_executed': {k: v for k, v in sorted(called.items(), key=lambda kv: -kv[1])[:80]},
            'functions_executed_rule': 'functions of the lowered module that the symbolic interpreter entered in this run (mangled name: number of calls over all paths); the CBMC harnesses name their entry functions in the sample',
            'module_functions': len(ctx.functions),
            'lowering': ctx.lower_info, 'bounds': getattr(modl, 'BOUNDS', {}).get(tier, getattr(modl, 'BOUNDS', {})), 'not_decided': getattr(modl, 'NOT_DECIDED', []),
            'by_backend': byback, 'solver_s_total': round(sum(o['solver_s'] for o in obs), 2), 'interp_feasibility_queries': llsym.STATS['feas_q'],
            'jobs': jobstats[:80], 'peak_rss_mb': max([j['rss_mb'] for j in jobstats] + [0]),
            'undecided_list': [{'name': o['name'], 'detail': o['detail'][:300], 'replay': o.get('replay', '')[:300]} for o in obs if o['status'] in ('undecided', 'unconfirmed')][:40],
            'violations_list': [{'name': o['name'], 'key': o['key'], 'model': o['model'], 'replay': o.get('replay')} for o in violations][:20],
            'known_list': [{'name': o['name'], 'key': o['key'], 'what': k.get('what')} for o, k in knownhits][:40],
            'translator_validation': [{'name': o['name'], 'status': o['status'], 'detail': o['detail'][:200]} for o in tv][:20],
            'extra': ctx.extra,
        },
        'assumptions': getattr(modl, 'ASSUMPTIONS', []),
        'wall_s': round(wall, 2), 'violations': len(violations),
    }
    os.makedirs(os.path.join(VERIF, 'evidence'), exist_ok=True)
    json.dump(ev, open(os.path.join(VERIF, 'evidence', pid + '.json'), 'w'), indent=1, default=str)
    print('%s tier=%s obligations=%d discharged=%d undecided=%d violated=%d known=%d broken=%d wall=%.1fs solver=%.1fs' %
          (pid, tier, len(obs), nd, nu, len(violations), len(knownhits), len(brk), wall, ev['coverage']['solver_s_total']))
    und = [o for o in obs if o['status'] in ('undecided', 'unconfirmed')]
    for o in und[:25]: print('  UNDECIDED %s: %s %s' % (o['name'], o['detail'][:160], o.get('replay', '')[:160]))
    if len(und) > 25: print('  ... and %d more undecided obligations (see evidence file)' % (len(und) - 25))
    seen = set()
    for o, k in knownhits:
        if k['key'] in seen: continue
        seen.add(k['key']); print('KNOWN-FINDING: property=%s %s' % (pid, k.get('what', k['key'])))
    for o in brk[:10]: print('BROKEN-HARNESS: %s: %s' % (o['name'], o['detail'][:600]))
    seen = set()
    for o in violations:
        if o['key'] in seen: continue
        seen.add(o['key']); n = sum(1 for v in violations if v['key'] == o['key'])
        print('  violated: key=%s (%d obligations) first=%s model=%s replay: %s' % (o['key'], n, o['name'], json.dumps(o['model'], default=str)[:400], str(o.get('replay'))[:400]))
        print('VIOLATION property=%s replay=%s' % (pid, o['replay_path']))
    if violations: return 1
    if brk: return 2
    return 0

if __name__ == '__main__':
    sys.exit(main(sys.argv[1:]))
