"""Reader for the textual LLVM IR that clang 14 emits (typed pointers).  Only what -O1 C++ output uses."""
import re, struct
from fractions import Fraction

# ---------------------------------------------------------------- types
class T: pass
class IntT(T):
    def __init__(s, w): s.w = w
    def __repr__(s): return 'i%d' % s.w
class FpT(T):
    def __init__(s, k): s.k = k
    def __repr__(s): return s.k
class PtrT(T):
    def __init__(s, to): s.to = to
    def __repr__(s): return '%r*' % (s.to,)
class ArrT(T):
    def __init__(s, n, el, vec=False): s.n = n; s.el = el; s.vec = vec
    def __repr__(s): return '[%d x %r]' % (s.n, s.el)
class StructT(T):
    def __init__(s, fields, packed=False, name=None): s.fields = fields; s.packed = packed; s.name = name
    def __repr__(s): return s.name or ('{%s}' % ','.join(map(repr, s.fields)))
class FnT(T):
    def __init__(s, ret, args): s.ret = ret; s.args = args
    def __repr__(s): return 'fn'
class VoidT(T):
    def __repr__(s): return 'void'
class NamedT(T):
    def __init__(s, name, mod): s.name = name; s.mod = mod
    def res(s): return s.mod.types[s.name]
    def __repr__(s): return s.name

TOK = re.compile(r'\s*(%"(?:[^"\\]|\\.)*"|@"(?:[^"\\]|\\.)*"|\$"(?:[^"\\]|\\.)*"|%[-\w.$]+|@[-\w.$]+|\$[-\w.$]+|c"(?:[^"\\]|\\.)*"|"(?:[^"\\]|\\.)*"|<\{|\}>|\.\.\.|[-+]?0x[KLMHR]?[0-9A-Fa-f]+|[-+]?\d+\.\d*(?:[eE][-+]?\d+)?|[-+]?\d+|![\w.]*|#\d+|[\w.]+|[(){}\[\]<>,=*])')
def tokenize(s):
    out = []; i = 0; n = len(s)
    while i < n:
        m = TOK.match(s, i)
        if not m:
            if s[i:].strip() == '': break
            raise SyntaxError('tok %r' % s[i:i+40])
        out.append(m.group(1)); i = m.end()
    return out

PARAM_ATTR = {'noundef', 'nonnull', 'nocapture', 'readonly', 'writeonly', 'noalias', 'zeroext', 'signext', 'returned', 'readnone', 'inreg',
              'immarg', 'nofree', 'nest', 'swiftself', 'swifterror', 'noalias'}
PAREN_ATTR = {'dereferenceable', 'dereferenceable_or_null', 'sret', 'byval', 'inalloca', 'preallocated', 'elementtype', 'byref', 'align'}

class P:  # token cursor
    def __init__(s, toks, mod): s.t = toks; s.i = 0; s.mod = mod
    def peek(s): return s.t[s.i] if s.i < len(s.t) else None
    def next(s): s.i += 1; return s.t[s.i-1]
    def eat(s, x):
        if s.peek() == x: s.i += 1; return True
        return False
    def expect(s, x):
        if s.next() != x: raise SyntaxError('expected %s got %s in %s' % (x, s.t[s.i-1], ' '.join(s.t[max(0, s.i-8):s.i+4])))
    def type(s):
        t = s.next()
        if t == 'void': ty = VoidT()
        elif re.fullmatch(r'i\d+', t): ty = IntT(int(t[1:]))
        elif t in ('double', 'float', 'x86_fp80', 'half', 'fp128'): ty = FpT(t)
        elif t == 'ptr': ty = PtrT(IntT(8))
        elif t in ('metadata', 'token', 'label'): ty = VoidT()
        elif t[0] == '%': ty = NamedT(t, s.mod)
        elif t == '[':
            n = int(s.next()); s.expect('x'); el = s.type(); s.expect(']'); ty = ArrT(n, el)
        elif t == '{' or t == '<{':
            close = '}' if t == '{' else '}>'
            fs = []
            if not s.eat(close):
                while True:
                    fs.append(s.type())
                    if s.eat(close): break
                    s.expect(',')
            ty = StructT(fs, packed=(t == '<{'))
        elif t == '<':
            n = int(s.next()); s.expect('x'); el = s.type(); s.expect('>'); ty = ArrT(n, el, vec=True)
        elif t == 'opaque': ty = StructT([])
        else: raise SyntaxError('type? %s in %s' % (t, ' '.join(s.t[max(0, s.i-8):s.i+4])))
        while True:
            if s.eat('*'): ty = PtrT(ty)
            elif s.peek() == '(':
                s.next(); args = []
                if not s.eat(')'):
                    while True:
                        if s.eat('...'): pass
                        else:
                            args.append(s.type())
                            s.skip_attrs()
                        if s.eat(')'): break
                        s.expect(',')
                ty = FnT(ty, args)
            else: break
        return ty
    def skip_attrs(s):
        while True:
            t = s.peek()
            if t in PARAM_ATTR: s.next()
            elif t == 'align':
                s.next()
                if s.peek() == '(':
                    s.next(); s.next(); s.expect(')')
                else: s.next()
            elif t in PAREN_ATTR:
                s.next(); s.expect('('); d = 1
                while d:
                    x = s.next(); d += (x == '(') - (x == ')')
            else: break
    def value(s, ty):
        """operand: ('reg',name) | ('const',pyvalue) | ('global',name) | ('zero',) | ('undef',) | ('agg',[(ty,val)...]) | ('cstr',bytes) | ('cgep',...) | ('ccast', op, val, sty, dty)"""
        t = s.next()
        if t[0] == '%': return ('reg', t)
        if t[0] == '@': return ('global', t)
        if t == 'null': return ('const', 0)
        if t == 'zeroinitializer': return ('zero',)
        if t in ('undef', 'poison'): return ('undef',)
        if t == 'true': return ('const', 1)
        if t == 'false': return ('const', 0)
        if t == 'getelementptr':
            s.eat('inbounds'); s.expect('('); bt = s.type(); s.expect(','); pt = s.type(); pv = s.value(pt); idx = []
            while s.eat(','):
                s.eat('inrange'); it = s.type(); idx.append(s.value(it))
            s.expect(')'); return ('cgep', bt, pv, idx)
        if t in ('bitcast', 'inttoptr', 'ptrtoint', 'addrspacecast', 'trunc', 'zext', 'sext'):
            s.expect('('); st = s.type(); v = s.value(st); s.expect('to'); dt = s.type(); s.expect(')')
            if t in ('bitcast', 'inttoptr', 'ptrtoint', 'addrspacecast'): return v
            return ('ccast', t, v, st, dt)
        if t in ('add', 'sub', 'mul'):
            while s.peek() in ('nsw', 'nuw'): s.next()
            s.expect('('); st = s.type(); a = s.value(st); s.expect(','); st2 = s.type(); b = s.value(st2); s.expect(')')
            return ('cbin', t, a, b, st)
        if isinstance(ty, FpT):
            if t.startswith('0x'):
                if t[2] == 'K':
                    h = t[3:].rjust(20, '0'); se = int(h[:4], 16); mant = int(h[4:], 16)
                    e = se & 0x7fff; sg = -1.0 if se >> 15 else 1.0
                    if e == 0x7fff: return ('const', sg * float('inf') if mant << 1 & (2**64 - 1) == 0 else float('nan'))
                    try: return ('const', sg * float(Fraction(mant, 2**63) * Fraction(2) ** (e - 16383)))
                    except OverflowError: return ('const', sg * float('inf'))
                if t[2] in 'LMHR': raise SyntaxError('exotic fp constant')
                return ('const', struct.unpack('>d', bytes.fromhex(t[2:].rjust(16, '0')))[0])
            return ('const', float(t))
        if re.fullmatch(r'[-+]?\d+', t): return ('const', int(t))
        if t.startswith('c"'):
            raw = t[2:-1]; out = bytearray(); i = 0
            while i < len(raw):
                if raw[i] == '\\':
                    if raw[i+1] == '\\': out.append(92); i += 2
                    else: out.append(int(raw[i+1:i+3], 16)); i += 3
                else: out.append(ord(raw[i])); i += 1
            return ('cstr', bytes(out))
        if t in ('[', '{', '<{', '<'):
            close = {'[': ']', '{': '}', '<{': '}>', '<': '>'}[t]; elems = []
            if s.eat(close): return ('agg', [])
            while True:
                et = s.type(); elems.append((et, s.value(et)))
                if s.eat(close): break
                s.expect(',')
            return ('agg', elems)
        raise SyntaxError('value? %s in %s' % (t, ' '.join(s.t[max(0, s.i-8):s.i+4])))

class Instr:
    def __init__(s, **k): s.__dict__.update(k)
class Func:
    def __init__(s): s.blocks = {}; s.order = []; s.params = []; s.nlines = 0
class Module:
    def __init__(s): s.types = {}; s.funcs = {}; s.decls = {}; s.aliases = {}; s.globals = {}; s.text_lines = 0

SYM = r'(@"(?:[^"\\]|\\.)*"|@[-\w.$]+)'
LINK = {'dso_local', 'internal', 'linkonce_odr', 'weak_odr', 'hidden', 'private', 'available_externally', 'weak', 'linkonce', 'fastcc', 'unnamed_addr',
        'local_unnamed_addr', 'external', 'common', 'appending', 'thread_local', 'protected', 'default', 'dso_preemptable', 'ccc', 'extern_weak', 'constant', 'global'}

def parse_module(text):
    mod = Module(); lines = text.split('\n'); i = 0; mod.text_lines = len(lines)
    while i < len(lines):
        ln = lines[i]
        if ln.startswith('%') and ' = type ' in ln:
            name, rest = ln.split(' = type ', 1)
            p = P(tokenize(rest), mod); ty = p.type()
            if isinstance(ty, StructT): ty.name = name.strip()
            mod.types[name.strip()] = ty
        elif ln.startswith('@'):
            m = re.match(SYM + r' = (.*)', ln)
            name, rest = m.group(1), m.group(2)
            head = rest.split('(')[0]
            if re.search(r'\b(alias|ifunc)\b', head) and not re.search(r'\b(global|constant)\b', head):
                mod.aliases[name] = re.findall(SYM, rest)[-1]
            else:
                mod.globals[name] = rest
        elif ln.startswith('declare'):
            m = re.search(SYM + r'\(', ln); mod.decls[m.group(1)] = ln
        elif ln.startswith('define'):
            f = Func(); hdr = ln
            m = re.search(SYM + r'\(', hdr)
            f.name = m.group(1)
            pre = hdr[:m.start(1)]
            j = m.end(); d = 1
            while d:
                d += (hdr[j] == '(') - (hdr[j] == ')'); j += 1
            plist = hdr[m.end():j-1]
            p = P(tokenize(re.sub(r'^define\s+', '', pre)), mod)
            while True:
                t = p.peek()
                if t in LINK or t in PARAM_ATTR: p.next()
                elif t in PAREN_ATTR:
                    p.skip_attrs()
                else: break
            f.ret = p.type()
            pp = P(tokenize(plist), mod)
            while pp.peek() is not None:
                if pp.eat('...'): break
                ty = pp.type(); pp.skip_attrs(); nm = pp.next(); f.params.append((ty, nm)); pp.eat(',')
            i += 1; cur = None; start = i
            while not lines[i].startswith('}'):
                ln = lines[i]; i += 1
                s = ln if 'c"' in ln else ln.split(';')[0]
                s = s.rstrip()
                if not s.strip(): continue
                mlab = re.match(r'^("(?:[^"\\]|\\.)*"|[-\w.$]+):', s)
                if mlab and not s.startswith(' '):
                    lab = mlab.group(1)
                    cur = '%' + lab; f.blocks[cur] = []; f.order.append(cur); continue
                if cur is None:
                    cur = '%' + str(len(f.params)); f.blocks[cur] = []; f.order.append(cur)
                if re.match(r'^\s+(cleanup|catch |filter )', s): continue
                if ' invoke ' in ' ' + s and ' to label ' not in s and 'to label' in lines[i]:
                    s += ' ' + lines[i].strip(); i += 1
                if s.lstrip().startswith('switch ') and s.endswith('['):
                    while not lines[i].strip().startswith(']'):
                        s += ' ' + lines[i].strip(); i += 1
                    s += ' ]'; i += 1
                f.blocks[cur].append(parse_instr(s.strip(), mod))
            f.nlines = i - start
            mod.funcs[f.name] = f
        i += 1
    return mod

FLAGS = {'nsw', 'nuw', 'exact', 'fast', 'nnan', 'ninf', 'nsz', 'arcp', 'contract', 'afn', 'reassoc', 'inbounds', 'tail', 'musttail', 'notail', 'volatile'}
BINOPS = {'add', 'sub', 'mul', 'udiv', 'sdiv', 'urem', 'srem', 'shl', 'lshr', 'ashr', 'and', 'or', 'xor', 'fadd', 'fsub', 'fmul', 'fdiv', 'frem'}
CASTS = {'zext', 'sext', 'trunc', 'bitcast', 'sitofp', 'uitofp', 'fptosi', 'fptoui', 'ptrtoint', 'inttoptr', 'fpext', 'fptrunc', 'addrspacecast'}
MD = re.compile(r',\s*![\w.]+ !\d+')

def parse_instr(s, mod):
    s = MD.sub('', s)
    s = re.sub(r'\s#\d+$', '', s)
    toks = tokenize(s); p = P(toks, mod); dest = None
    if len(toks) > 1 and toks[1] == '=': dest = p.next(); p.next()
    op = p.next()
    I = Instr(op=op, dest=dest, text=s)
    if op in ('tail', 'musttail', 'notail'): op = p.next(); I.op = op
    if op in BINOPS:
        I.flags = set()
        while p.peek() in FLAGS: I.flags.add(p.next())
        I.ty = p.type(); I.a = p.value(I.ty); p.expect(','); I.b = p.value(I.ty)
    elif op == 'fneg':
        while p.peek() in FLAGS: p.next()
        I.ty = p.type(); I.a = p.value(I.ty)
    elif op == 'freeze':
        I.ty = p.type(); I.a = p.value(I.ty)
    elif op in ('icmp', 'fcmp'):
        while p.peek() in FLAGS: p.next()
        I.pred = p.next(); I.ty = p.type(); I.a = p.value(I.ty); p.expect(','); I.b = p.value(I.ty)
    elif op in CASTS:
        I.sty = p.type(); I.a = p.value(I.sty); p.expect('to'); I.ty = p.type()
    elif op == 'select':
        while p.peek() in FLAGS: p.next()
        ct = p.type(); I.c = p.value(ct); p.expect(','); I.ty = p.type(); I.a = p.value(I.ty); p.expect(','); t2 = p.type(); I.b = p.value(t2)
    elif op == 'phi':
        while p.peek() in FLAGS: p.next()
        I.ty = p.type(); I.inc = []
        while True:
            p.expect('['); v = p.value(I.ty); p.expect(','); lab = p.next(); p.expect(']'); I.inc.append((v, lab))
            if not p.eat(','): break
    elif op == 'br':
        if p.peek() == 'label': p.next(); I.cond = None; I.t = p.next()
        else:
            ct = p.type(); I.cond = p.value(ct); p.expect(','); p.expect('label'); I.t = p.next(); p.expect(','); p.expect('label'); I.f = p.next()
    elif op == 'switch':
        I.ty = p.type(); I.a = p.value(I.ty); p.expect(','); p.expect('label'); I.default = p.next(); p.expect('['); I.cases = []
        while not p.eat(']'):
            ct = p.type(); cv = p.value(ct); p.expect(','); p.expect('label'); I.cases.append((cv[1], p.next()))
    elif op == 'ret':
        I.ty = p.type(); I.a = None if isinstance(I.ty, VoidT) else p.value(I.ty)
    elif op == 'load':
        p.eat('atomic'); p.eat('volatile'); I.ty = p.type(); p.expect(','); pt = p.type(); I.a = p.value(pt)
    elif op == 'store':
        p.eat('atomic'); p.eat('volatile'); I.ty = p.type(); I.v = p.value(I.ty); p.expect(','); pt = p.type(); I.a = p.value(pt)
    elif op == 'alloca':
        I.ty = p.type(); I.n = ('const', 1)
        if p.eat(','):
            if p.peek() != 'align': nt = p.type(); I.n = p.value(nt)
    elif op == 'getelementptr':
        p.eat('inbounds'); I.bty = p.type(); p.expect(','); pt = p.type(); I.a = p.value(pt); I.idx = []
        while p.eat(','):
            it = p.type(); I.idx.append((it, p.value(it)))
    elif op in ('call', 'invoke'):
        while p.peek() in FLAGS or p.peek() in ('fastcc', 'ccc'): p.next()
        p.skip_attrs()
        I.rty = p.type()
        if isinstance(I.rty, FnT): I.rty = I.rty.ret
        elif isinstance(I.rty, PtrT) and isinstance(I.rty.to, FnT) and p.peek() != '(' and (p.peek() or '')[0] in '%@' and False: pass
        I.callee = p.value(PtrT(IntT(8))); p.expect('('); I.args = []
        if not p.eat(')'):
            while True:
                at = p.type(); p.skip_attrs()
                if isinstance(at, VoidT):   # metadata argument
                    while p.peek() not in (',', ')'): p.next()
                    I.args.append((at, ('undef',)))
                else: I.args.append((at, p.value(at)))
                if p.eat(')'): break
                p.expect(',')
        if op == 'invoke':
            while p.peek() != 'to': p.next()
            p.next(); p.expect('label'); I.normal = p.next()
    elif op == 'extractvalue':
        I.ty = p.type(); I.a = p.value(I.ty); I.path = []
        while p.eat(','): I.path.append(int(p.next()))
    elif op == 'insertvalue':
        I.ty = p.type(); I.a = p.value(I.ty); p.expect(','); I.vty = p.type(); I.v = p.value(I.vty); I.path = []
        while p.eat(','): I.path.append(int(p.next()))
    elif op in ('unreachable', 'landingpad', 'resume', 'fence', 'cleanupret', 'catchret', 'catchswitch', 'catchpad', 'cleanuppad'):
        pass
    elif op in ('extractelement', 'insertelement', 'shufflevector', 'atomicrmw', 'cmpxchg', 'va_arg'):
        I.unsupported = True
    else:
        raise SyntaxError('instr? ' + s)
    return I

# ---------------------------------------------------------------- layout (x86-64 SysV)
def rt(t):
    while isinstance(t, NamedT): t = t.res()
    return t
def alignof(t):
    t = rt(t)
    if isinstance(t, IntT): return max(1, min(8, (t.w + 7) // 8)) if t.w <= 64 else 16
    if isinstance(t, FpT): return {'double': 8, 'float': 4, 'x86_fp80': 16, 'half': 2, 'fp128': 16}[t.k]
    if isinstance(t, (PtrT, FnT)): return 8
    if isinstance(t, ArrT): return alignof(t.el) if not t.vec else min(16, sizeof(t))
    if isinstance(t, StructT): return 1 if t.packed or not t.fields else max(alignof(f) for f in t.fields)
    return 1
def sizeof(t):
    t = rt(t)
    if isinstance(t, IntT): return {1: 1, 8: 1, 16: 2, 24: 4, 32: 4, 64: 8, 128: 16}.get(t.w, (t.w + 7) // 8)
    if isinstance(t, FpT): return {'double': 8, 'float': 4, 'x86_fp80': 16, 'half': 2, 'fp128': 16}[t.k]
    if isinstance(t, (PtrT, FnT)): return 8
    if isinstance(t, ArrT): return t.n * sizeof(t.el)
    if isinstance(t, StructT):
        off = 0
        for f in t.fields:
            if not t.packed: off = (off + alignof(f) - 1) // alignof(f) * alignof(f)
            off += sizeof(f)
        a = alignof(t); return (off + a - 1) // a * a
    return 0
def field_off(t, k):
    off = 0
    for i, f in enumerate(t.fields):
        if not t.packed: off = (off + alignof(f) - 1) // alignof(f) * alignof(f)
        if i == k: return off
        off += sizeof(f)
    raise IndexError(k)
