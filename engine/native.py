"""Native execution of harness wrappers (g++ -O2 build of the real sources) through ctypes, in a forked child so that
   exit()/SIGSEGV in the library are observed instead of killing the check.  Used for replay and translator validation."""
import ctypes, os, pickle, signal, struct, sys

def _conv(a, keep):
    if isinstance(a, float): return ctypes.c_double(a)
    if isinstance(a, bool): return ctypes.c_int(int(a))
    if isinstance(a, int): return ctypes.c_long(a)
    if isinstance(a, tuple):
        k, v = a
        if k == 'u32': return ctypes.c_uint(v)
        if k == 'i32': return ctypes.c_int(v)
        if k == 'u64': return ctypes.c_ulong(v)
        if k == 'f64': return ctypes.c_double(v)
        if k == 'dbl[]':
            arr = (ctypes.c_double * max(len(v), 1))(*v); keep.append(('dbl[]', arr, len(v))); return arr
        if k == 'i32[]':
            arr = (ctypes.c_int * max(len(v), 1))(*v); keep.append(('i32[]', arr, len(v))); return arr
        if k == 'u32[]':
            arr = (ctypes.c_uint * max(len(v), 1))(*v); keep.append(('u32[]', arr, len(v))); return arr
        if k == 'str': return ctypes.c_char_p(v.encode())
    raise TypeError(a)

def call(so, fn, args, restype='double', fcb=None, fcb_name='verif_f_ptr', fcb_sig=None, timeout=30, pre=None, read_globals=()):
    """returns dict: status ok|exit|signal|timeout, code, ret, arrays (contents of every array argument after the call), calls (callback log)"""
    r, w = os.pipe()
    pid = os.fork()
    if pid == 0:
        try:
            os.close(r)
            devnull = os.open(os.devnull, os.O_WRONLY); os.dup2(devnull, 1); os.dup2(devnull, 2)
            lib = ctypes.CDLL(so)
            log = []
            keepcb = []
            if fcb is not None:
                sig = fcb_sig or ctypes.CFUNCTYPE(ctypes.c_double, ctypes.c_double)
                def wrapped(*a):
                    v = fcb(*a); note = getattr(fcb, 'note', None)     # a callback may leave a picklable note (e.g. the point behind a pointer argument) for the log
                    log.append((tuple(x if isinstance(x, (int, float)) else None for x in a), v) + ((note,) if note is not None else ())); return v
                cb = sig(wrapped); keepcb.append(cb)
                ctypes.c_void_p.in_dll(lib, fcb_name).value = ctypes.cast(cb, ctypes.c_void_p).value
            if pre: pre(lib)
            f = getattr(lib, fn)
            f.restype = {'double': ctypes.c_double, 'int': ctypes.c_int, 'uint': ctypes.c_uint, 'void': None, 'long': ctypes.c_long}[restype]
            keep = []
            cargs = [_conv(a, keep) for a in args]
            # flush a marker first so that an exit() inside the call still reports the callback log
            ret = f(*cargs)
            out = {'status': 'ok', 'ret': ret, 'arrays': [list(arr)[:n] for (_, arr, n) in keep], 'calls': log, 'globals': {g: ctypes.c_double.in_dll(lib, g).value for g in read_globals}}
            os.write(w, pickle.dumps(out))
        except BaseException as e:
            try: os.write(w, pickle.dumps({'status': 'pyerror', 'error': repr(e)}))
            except Exception: pass
        os._exit(0)
    os.close(w)
    def _alarm(sig, frm): raise TimeoutError()
    old = signal.signal(signal.SIGALRM, _alarm); signal.alarm(timeout)
    try:
        data = b''
        while True:
            chunk = os.read(r, 1 << 16)
            if not chunk: break
            data += chunk
        _, status = os.waitpid(pid, 0)
    except TimeoutError:
        os.kill(pid, signal.SIGKILL); os.waitpid(pid, 0); os.close(r)
        return {'status': 'timeout'}
    finally:
        signal.alarm(0); signal.signal(signal.SIGALRM, old)
    os.close(r)
    if data:
        return pickle.loads(data)
    if os.WIFSIGNALED(status): return {'status': 'signal', 'code': os.WTERMSIG(status)}
    return {'status': 'exit', 'code': os.WEXITSTATUS(status)}
