"""EA back end: symbolic interpreter for the parsed LLVM IR.
   doubles  : Python float when concrete, z3 Real term when symbolic (exact arithmetic)
   integers : Python int when concrete (wrapping, width-aware), z3 Int term when symbolic (mathematical; recorded as an assumption)
   i1       : Python int 0/1 or z3 Bool
   pointers : Python int addresses into a flat object memory with bounds checks; ('fn', name) for functions
   Branches on symbolic conditions fork the path; every path carries its condition (st.pc)."""
import math, sys, time, bisect
from fractions import Fraction
import z3
from llparse import *

sys.setrecursionlimit(20000)

class PathEnd(Exception):
    """the path stops here: kind in exit | throw | oob | uninit | unreachable | trap | unmodelled"""
    def __init__(s, kind, msg=''): Exception.__init__(s, kind + ': ' + msg); s.kind = kind; s.msg = msg
class Unsupported(Exception):
    """the interpreter cannot represent this; the obligation that needed it is undecided (never passed)"""

def is_sym(v): return isinstance(v, z3.ExprRef)
def is_bool(v): return isinstance(v, z3.BoolRef)

def RV(x):
    if isinstance(x, float):
        if x != x or x in (float('inf'), float('-inf')): raise Unsupported('non-finite double meets a symbolic term')
        fr = Fraction(x); return z3.RealVal(str(fr))
    if isinstance(x, int): return z3.RealVal(x)
    if isinstance(x, Fraction): return z3.RealVal(str(x))
    return x
def toR(v):
    if is_sym(v):
        if z3.is_int(v): return int_to_real(v)
        if is_bool(v): return z3.If(v, z3.RealVal(1), z3.RealVal(0))
        return v
    return RV(v)
def int_to_real(t):
    """Int term -> Real term, pushing the conversion through ITE trees with constant leaves (keeps queries in NRA)"""
    if z3.is_int_value(t): return z3.RealVal(t.as_long())
    if z3.is_app_of(t, z3.Z3_OP_ITE):
        return z3.If(t.arg(0), int_to_real(t.arg(1)), int_to_real(t.arg(2)))
    if z3.is_app_of(t, z3.Z3_OP_ADD):
        r = int_to_real(t.arg(0))
        for k in range(1, t.num_args()): r = r + int_to_real(t.arg(k))
        return r
    if z3.is_app_of(t, z3.Z3_OP_TO_INT) : return z3.ToReal(t)
    return z3.ToReal(t)
def toI(v, w=32):
    if is_sym(v):
        if is_bool(v): return z3.If(v, z3.IntVal(1), z3.IntVal(0))
        return v
    if v >> (w - 1): v -= 1 << w
    return z3.IntVal(v)
def toB(v):
    if is_sym(v):
        if is_bool(v): return v
        return v != 0
    return z3.BoolVal(bool(v))
def sgn(x, w): return x - (1 << w) if x >> (w - 1) else x
def as_bool01(t):
    """Bool for integer values known to be 0/1 (zero-extended booleans)"""
    if isinstance(t, int): return z3.BoolVal(bool(t)) if t in (0, 1) else None
    if is_bool(t): return t
    if is_sym(t) and z3.is_app_of(t, z3.Z3_OP_ITE):
        x, y = as_bool01(t.arg(1)) if not z3.is_int_value(t.arg(1)) else (z3.BoolVal(bool(t.arg(1).as_long())) if t.arg(1).as_long() in (0, 1) else None), \
               as_bool01(t.arg(2)) if not z3.is_int_value(t.arg(2)) else (z3.BoolVal(bool(t.arg(2).as_long())) if t.arg(2).as_long() in (0, 1) else None)
        if x is not None and y is not None: return z3.If(t.arg(0), x, y)
    return None

STATS = {'feas_s': 0.0, 'feas_q': 0}

class State:
    def __init__(s):
        s.mem = {}; s.zero = []; s.objs = {}; s.bases = []; s.brk = 0x100000; s.pc = []; s.events = []; s.writes = 0; s.fresh = 0; s.defs = []; s.visits = {}; s.trace = None
    def fork(s):
        n = State.__new__(State)
        n.mem = dict(s.mem); n.zero = list(s.zero); n.objs = dict(s.objs); n.bases = list(s.bases); n.brk = s.brk
        n.pc = list(s.pc); n.events = list(s.events); n.writes = s.writes; n.fresh = s.fresh; n.defs = list(s.defs); n.visits = s.visits; n.trace = s.trace
        return n
    # ---- objects
    def alloc(s, size, kind='heap'):
        a = (s.brk + 15) // 16 * 16 + 64          # 64-byte red zone between objects
        s.brk = a + max(size, 1)
        s.objs[a] = (max(size, 0), kind, True); s.bases.append(a)
        return a
    def find(s, addr, size):
        if not isinstance(addr, int): raise Unsupported('symbolic address')
        i = bisect.bisect_right(s.bases, addr) - 1
        if i < 0: return None
        b = s.bases[i]; sz, k, live = s.objs[b]
        if addr + size <= b + sz and live: return b
        return None
    def free(s, a):
        if a == 0: return
        if a in s.objs and s.objs[a][2]:
            sz, k, _ = s.objs[a]; s.objs[a] = (sz, k, False)
        else: raise PathEnd('oob', 'free of %x which is not a live object base' % a)
    # ---- cells
    def _clear(s, addr, n):
        for k in range(addr - 15, addr + n):
            c = s.mem.get(k)
            if c is not None and k + c[0] > addr and k < addr + n:
                if k >= addr and k + c[0] <= addr + n: del s.mem[k]
                else:
                    # partial overlap: split a concrete integer cell into bytes, otherwise give up
                    if isinstance(c[1], int):
                        del s.mem[k]
                        for j in range(c[0]):
                            if not (addr <= k + j < addr + n): s.mem[k + j] = (1, (c[1] >> (8 * j)) & 255)
                    else: raise Unsupported('partial overwrite of a non-integer cell')
        if s.zero:
            nz = []
            for (a, m) in s.zero:
                if a + m <= addr or a >= addr + n: nz.append((a, m))
                else:
                    if a < addr: nz.append((a, addr - a))
                    if a + m > addr + n: nz.append((addr + n, a + m - addr - n))
            s.zero = nz
    def store(s, addr, size, v):
        if s.find(addr, size) is None:
            s.events.append(('oob', 'store', addr, size)); raise PathEnd('oob', 'store of %d bytes at %#x outside every live object' % (size, addr))
        s._clear(addr, size)
        s.mem[addr] = (size, v); s.writes += 1
        if s.trace is not None: s.trace.append(('store', addr, size))
    def load(s, addr, size, isfp=False):
        if s.trace is not None: s.trace.append(('load', addr, size))
        if s.find(addr, size) is None:
            s.events.append(('oob', 'load', addr, size)); raise PathEnd('oob', 'load of %d bytes at %#x outside every live object' % (size, addr))
        c = s.mem.get(addr)
        if c is not None and c[0] == size: return c[1]
        # assemble from smaller/larger concrete cells or zero-fill
        out = 0; ok = True
        for j in range(size):
            b = s._byte(addr + j)
            if b is None: ok = False; break
            out |= b << (8 * j)
        if ok:
            if isfp:
                import struct as _st
                return _st.unpack('<d', out.to_bytes(8, 'little'))[0] if size == 8 else _st.unpack('<f', out.to_bytes(4, 'little'))[0]
            return out
        if c is None and not any(addr - 15 <= k < addr + size for k in s.mem if k != addr) and not s._in_zero(addr, size):
            s.events.append(('uninit', addr, size)); raise PathEnd('uninit', 'load of %d uninitialised bytes at %#x' % (size, addr))
        raise Unsupported('type-punned load at %#x size %d' % (addr, size))
    def _in_zero(s, addr, size):
        return any(a <= addr and addr + size <= a + n for (a, n) in s.zero)
    def _byte(s, addr):
        for k in range(addr, addr - 16, -1):
            c = s.mem.get(k)
            if c is not None:
                if k + c[0] > addr:
                    if isinstance(c[1], int): return (c[1] >> (8 * (addr - k))) & 255
                    if isinstance(c[1], float):
                        import struct as _st
                        return _st.pack('<d', c[1])[addr - k] if c[0] == 8 else None
                    return None
                break
        if s._in_zero(addr, 1): return 0
        return None
    def memset(s, addr, val, n):
        if n == 0: return
        if s.find(addr, n) is None:
            s.events.append(('oob', 'memset', addr, n)); raise PathEnd('oob', 'memset %d bytes at %#x' % (n, addr))
        s._clear(addr, n)
        if val == 0: s.zero.append((addr, n))
        else:
            for j in range(n): s.mem[addr + j] = (1, val & 255)
        s.writes += 1
    def memcpy(s, d, sr, n):
        if n == 0: return
        if s.find(sr, n) is None or s.find(d, n) is None:
            s.events.append(('oob', 'memcpy', d, sr, n)); raise PathEnd('oob', 'memcpy of %d bytes %#x -> %#x' % (n, sr, d))
        cells = []
        for k in range(sr - 15, sr + n):
            c = s.mem.get(k)
            if c is not None and k + c[0] > sr and k < sr + n:
                if k < sr or k + c[0] > sr + n:
                    if isinstance(c[1], int):
                        for j in range(c[0]):
                            if sr <= k + j < sr + n: cells.append((k + j, (1, (c[1] >> (8 * j)) & 255)))
                    else: raise Unsupported('memcpy splits a non-integer cell')
                else: cells.append((k, c))
        zs = []
        for (a, m) in s.zero:
            lo = max(a, sr); hi = min(a + m, sr + n)
            if lo < hi: zs.append((lo - sr + d, hi - lo))
        s._clear(d, n)
        for k, c in cells: s.mem[k - sr + d] = c
        s.zero.extend(zs); s.writes += 1
    # ---- conveniences for harnesses
    def put_doubles(s, vals, kind='heap'):
        a = s.alloc(8 * len(vals), kind)
        for i, v in enumerate(vals): s.mem[a + 8 * i] = (8, v)
        return a
    def get_doubles(s, a, n): return [s.load(a + 8 * i, 8, True) for i in range(n)]
    def put_ints(s, vals, size=4, kind='heap'):
        a = s.alloc(size * len(vals), kind)
        for i, v in enumerate(vals): s.mem[a + size * i] = (size, v & ((1 << (8 * size)) - 1) if isinstance(v, int) else v)
        return a
    def get_ints(s, a, n, size=4): return [s.load(a + size * i, size) for i in range(n)]
    def out_doubles(s, n): return s.alloc(8 * n)
    def new_real(s, name):
        s.fresh += 1; return z3.Real('%s!%d' % (name, s.fresh))

def loop_headers(f):
    """targets of back edges of function f (depth-first search over the terminators): the loop headers, in layout order"""
    def succ(b):
        I = f.blocks[b][-1]
        if I.op == 'br': return [I.t] if I.cond is None else [I.t, I.f]
        if I.op == 'switch': return [I.default] + [l for _, l in I.cases]
        if I.op == 'invoke': return [I.normal]
        return []
    heads = set(); state = {}; stack = [(f.order[0], iter(succ(f.order[0])))]; state[f.order[0]] = 1
    while stack:
        b, it = stack[-1]
        for n in it:
            if state.get(n) == 1: heads.add(n)
            elif n not in state and n in f.blocks: state[n] = 1; stack.append((n, iter(succ(n)))); break
        else: state[b] = 2; stack.pop()
    return [b for b in f.order if b in heads]

CALLED = {}      # process-wide: function name -> number of symbolic calls (reported as evidence)

class Limits:
    def __init__(s, max_steps=4000000, max_paths=4000, feas_ms=10000, max_seconds=300, max_visits=None, visit_fn='', visit_block=''):
        s.max_steps = max_steps; s.max_paths = max_paths; s.feas_ms = feas_ms; s.max_seconds = max_seconds; s.max_visits = max_visits; s.visit_fn = visit_fn; s.visit_block = visit_block

UF = {}
def uf(name, arity=1):
    k = (name, arity)
    if k not in UF: UF[k] = z3.Function(name, *([z3.RealSort()] * (arity + 1)))
    return UF[k]

MATH1 = {'exp': math.exp, 'log': math.log, 'log10': math.log10, 'sin': math.sin, 'cos': math.cos, 'tan': math.tan, 'acos': math.acos, 'asin': math.asin,
         'atan': math.atan, 'erf': math.erf, 'erfc': math.erfc, 'tgamma': math.gamma, 'lgamma': math.lgamma, 'sinh': math.sinh, 'cosh': math.cosh, 'tanh': math.tanh,
         'log1p': math.log1p, 'expm1': math.expm1, 'cbrt': lambda x: math.copysign(abs(x) ** (1.0 / 3), x)}

class Path:
    def __init__(s, st, ret=None, end=None): s.st = st; s.ret = ret; s.end = end
    def __repr__(s): return 'Path(ret=%r,end=%r)' % (s.ret, s.end)

class Interp:
    def __init__(s, mod, intercept=None, limits=None, merge_pure=True, resolve_selects=False):
        s.mod = mod; s.intercept = dict(DEFAULT_INTERCEPTS); s.intercept.update(intercept or {}); s.lim = limits or Limits(); s.steps = 0; s.ended = []; s.merge_pure = merge_pure
        s.gaddr = {}; s.called = {}; s.npaths = 0; s.resolve_selects = resolve_selects; s.t0 = time.time()
        s.havoc = {}      # {(function-name substring, block label): handler(it, f, blk, regs, st)}: loop-header abstraction, see run()
    # ------------------------------------------------------------ set-up
    def new_state(s):
        st = State()
        for name in s.mod.globals:
            if name.startswith('@llvm.'): continue
            s._alloc_global(st, name)
        for name in s.mod.globals:
            if name.startswith('@llvm.'): continue
            s._init_global(st, name)
        return st
    def run_global_ctors(s, st, only=''):
        """executes the module's dynamic initialisers (llvm.global_ctors entries whose name contains `only`), as the C++ runtime does before main"""
        import re as _re
        txt = s.mod.globals.get('@llvm.global_ctors', '')
        done = []
        for fn in _re.findall(r'void \(\)\* (@[\w.$]+)', txt):
            if only in fn and fn in s.mod.funcs:
                ps = s.execute(fn, [], st)
                live = [p for p in ps if p.end is None]
                if len(live) != 1: raise Unsupported('global constructor %s: %s' % (fn, [str(p.end) for p in ps][:3]))
                st = live[0].st; done.append(fn)
        return st, done
    def _gparse(s, name):
        rest = s.mod.globals[name]
        p = P(tokenize(MD.sub('', rest)), s.mod)
        while p.peek() in LINK and p.peek() not in ('constant', 'global'): p.next()
        kind = p.next()
        ty = p.type()
        return p, ty
    def _alloc_global(s, st, name):
        p, ty = s._gparse(name)
        sz = sizeof(ty)
        s.gaddr[name] = st.alloc(512 if name in s.STREAMS else (sz if sz else 256), 'global')
    STREAMS = ('@_ZSt4cout', '@_ZSt4cerr', '@_ZSt4clog')
    def _init_global(s, st, name):
        p, ty = s._gparse(name)
        if name in s.STREAMS:
            # std::cout/cerr: enough structure for an inlined std::endl (os.put(os.widen('\n')); os.flush()): vptr -> fake vtable with vbase offset 0, basic_ios::_M_ctype (offset 240) -> ctype with _M_widen_ok and an identity widen table
            if '__streams' not in s.gaddr:
                vt = st.alloc(64, 'global'); st.zero.append((vt, 64)); ct = st.alloc(640, 'global'); st.zero.append((ct, 640))
                st.mem[ct + 56] = (1, 1)
                for i in range(256): st.mem[ct + 57 + i] = (1, i)
                s.gaddr['__streams'] = (vt, ct)
            vt, ct = s.gaddr['__streams']; a = s.gaddr[name]
            st.zero.append((a, 512)); st.mem[a] = (8, vt + 24); st.mem[a + 240] = (8, ct)
            return
        if p.peek() in (None, ','): return       # external: contents unknown
        v = p.value(ty)
        s._init(st, s.gaddr[name], ty, v)
    def _init(s, st, addr, ty, v):
        ty = rt(ty)
        if v[0] == 'zero': st.zero.append((addr, sizeof(ty))); return
        if v[0] == 'undef': return
        if v[0] == 'cstr':
            for j, b in enumerate(v[1]): st.mem[addr + j] = (1, b)
            return
        if v[0] == 'agg':
            if isinstance(ty, StructT):
                for k, (et, ev) in enumerate(v[1]): s._init(st, addr + field_off(ty, k), et, ev)
            else:
                es = sizeof(ty.el)
                for k, (et, ev) in enumerate(v[1]): s._init(st, addr + k * es, et, ev)
            return
        val = s.val(v, {}, ty)
        st.mem[addr] = (sizeof(ty), val)
    # ------------------------------------------------------------ operands
    def val(s, op, regs, ty=None):
        k = op[0]
        if k == 'reg': return regs[op[1]]
        if k == 'const':
            v = op[1]
            if isinstance(v, int) and ty is not None:
                t = rt(ty)
                if isinstance(t, IntT): return v & ((1 << t.w) - 1)
                if isinstance(t, FpT): return float(v)
            return v
        if k == 'zero' or k == 'undef':
            t = rt(ty) if ty is not None else None
            if isinstance(t, FpT): return 0.0
            if isinstance(t, (StructT, ArrT)):
                fs = t.fields if isinstance(t, StructT) else [t.el] * t.n
                return [s.val(op, regs, f) for f in fs]
            return 0
        if k == 'global':
            n = s.mod.aliases.get(op[1], op[1])
            if n in s.mod.funcs or n in s.mod.decls: return ('fn', n)
            if n in s.gaddr: return s.gaddr[n]
            raise Unsupported('unknown global ' + n)
        if k == 'cgep':
            base = s.val(op[2], regs)
            return s.gep(op[1], base, [(None, i) for i in op[3]], regs)
        if k == 'ccast':
            v = s.val(op[2], regs, op[3]); sw = rt(op[3]).w; dw = rt(op[4]).w
            if op[1] == 'sext' and v >> (sw - 1): v -= 1 << sw
            return v & ((1 << dw) - 1)
        if k == 'cbin':
            a = s.val(op[2], regs, op[4]); b = s.val(op[3], regs, op[4])
            if isinstance(a, tuple) or isinstance(b, tuple): raise Unsupported('constant expression on function address')
            r = {'add': a + b, 'sub': a - b, 'mul': a * b}[op[1]]
            return r & ((1 << 64) - 1)
        if k == 'agg':
            return [s.val(ev, regs, et) for et, ev in op[1]]
        raise Unsupported('operand kind %s' % k)
    def gep(s, bty, base, idxs, regs, st=None):
        if isinstance(base, tuple): raise Unsupported('gep on function pointer')
        addr = base; t = bty; first = True
        for ity, ix in idxs:
            i = s.val(ix, regs, ity)
            if is_sym(i): raise _SymIndex(i)
            w = rt(ity).w if ity is not None else 64
            if i >> (w - 1): i -= 1 << w
            if first: addr += i * sizeof(t); first = False
            else:
                t = rt(t)
                if isinstance(t, StructT): addr += field_off(t, i); t = t.fields[i]
                elif isinstance(t, ArrT): addr += i * sizeof(t.el); t = t.el
                else: raise Unsupported('gep into scalar')
        return addr & ((1 << 64) - 1)
    # ------------------------------------------------------------ solver helpers
    def feasible(s, pc, extra=None):
        so = z3.Solver(); so.set('timeout', s.lim.feas_ms); so.add(*pc)
        if extra is not None: so.add(extra)
        t0 = time.time(); r = so.check(); STATS['feas_s'] += time.time() - t0; STATS['feas_q'] += 1
        return r != z3.unsat
    def enum_values(s, term, st, maxn=64):
        """all concrete values an Int term can take under the path condition (bounded)"""
        so = z3.Solver(); so.set('timeout', s.lim.feas_ms); so.add(*st.pc); vals = []
        while len(vals) <= maxn:
            r = so.check()
            if r == z3.unsat: return vals
            if r != z3.sat: raise Unsupported('cannot enumerate values of symbolic index')
            v = so.model().eval(term, model_completion=True).as_long(); vals.append(v); so.add(term != v)
        raise Unsupported('symbolic index with more than %d values' % maxn)
    # ------------------------------------------------------------ execution
    def execute(s, fname, args, st):
        """runs fname from state st; returns list of Path (returned paths and ended paths)"""
        s.ended = []
        live = s.run(fname, args, st, 0)
        return [Path(st2, rv) for st2, rv in live] + [Path(st2, None, e) for st2, e in s.ended]
    def run(s, fname, args, st, depth):
        fname = s.mod.aliases.get(fname, fname)
        f = s.mod.funcs[fname]
        s.called[fname] = s.called.get(fname, 0) + 1; CALLED[fname] = CALLED.get(fname, 0) + 1
        if depth > 400: raise Unsupported('call depth')
        regs0 = {nm: a for (ty, nm), a in zip(f.params, args)}
        work = [(f.order[0], None, regs0, st, 0)]; outs = []
        while work:
            blk, prev, regs, st, ip = work.pop()
            instrs = f.blocks[blk]
            if ip == 0 and s.lim.max_visits is not None and s.lim.visit_fn in fname and s.lim.visit_block in blk:
                # loop bound: a block of the named function entered more than max_visits times on this path ends the path ('cutoff': outside the bound)
                k = (fname, blk); n = st.visits.get(k, 0) + 1
                if n > s.lim.max_visits: s.ended.append((st, PathEnd('cutoff', 'block %s of %s entered more than %d times' % (blk, fname[:40], s.lim.max_visits)))); continue
                st.visits = dict(st.visits); st.visits[k] = n
            if ip == 0:
                newv = {}
                try:
                    for I in instrs:
                        if I.op != 'phi': break
                        for v, lab in I.inc:
                            if lab == prev: newv[I.dest] = s.val(v, regs, I.ty); break
                        else: raise Unsupported('phi without matching predecessor %s in %s' % (prev, fname))
                except KeyError as e:
                    raise Unsupported('phi reads undefined register %s' % e)
                if newv: regs = dict(regs); regs.update(newv)
                if s.havoc:
                    # inductive step over a loop: at the first arrival at the named loop header the handler replaces the loop-carried state (phi registers, memory) by an arbitrary state
                    # satisfying its invariant; the second arrival (back edge) records the new loop-carried values and ends the path
                    hk = [k for k in s.havoc if k[0] in fname and k[1] == blk]
                    if hk:
                        vk = ('havoc', fname, blk); n = st.visits.get(vk, 0) + 1; st.visits = dict(st.visits); st.visits[vk] = n
                        phis = [I.dest for I in instrs if I.op == 'phi']
                        if n == 1:
                            regs = dict(regs); s.havoc[hk[0]](s, f, blk, regs, st)
                        else:
                            st.events.append(('backedge', blk, {d: regs[d] for d in phis}, dict(regs)))
                            s.ended.append((st, PathEnd('backedge', 'loop header %s reached again' % blk))); continue
            while True:
                I = instrs[ip]
                if I.op == 'phi': ip += 1; continue
                s.steps += 1
                if s.steps > s.lim.max_steps: raise Unsupported('step limit')
                if (s.steps & 1023) == 0 and time.time() - s.t0 > s.lim.max_seconds: raise Unsupported('exploration time limit of %d s' % s.lim.max_seconds)
                try:
                    r = s.step(f, I, regs, st, depth)
                except PathEnd as e:
                    s.ended.append((st, e)); break
                except _SymIndex as e:
                    # fork over the concrete values of a symbolic index
                    vals = s.enum_values(e.term, st); succ = []
                    for v in vals:
                        st2 = st.fork(); st2.pc.append(e.term == v); r2 = dict(regs)
                        s._subst_index(I, e.term, v, r2)
                        succ.append((blk, prev, r2, st2, ip))
                    work.extend(succ); break
                if r is None: ip += 1; continue
                kind = r[0]
                if kind == 'goto':
                    for tgt, regs2, st2 in r[1]: work.append((tgt, blk, regs2, st2, 0))
                    break
                if kind == 'ret':
                    outs.append((st, r[1])); break
                if kind == 'fork':
                    for regs2, st2 in r[1]: work.append((blk, prev, regs2, st2, ip + 1))
                    break
                raise AssertionError(kind)
            if len(outs) + len(work) + len(s.ended) > s.lim.max_paths: raise Unsupported('path limit')
        return outs
    def _subst_index(s, I, term, v, regs):
        # bind every register whose value is exactly this term to the concrete value
        for k, x in list(regs.items()):
            if is_sym(x) and x.eq(term): regs[k] = v & ((1 << 64) - 1)
    def step(s, f, I, regs, st, depth):
        op = I.op
        V = lambda o, ty=None: s.val(o, regs, ty)
        if op in ('fadd', 'fsub', 'fmul', 'fdiv', 'frem'):
            if not isinstance(rt(I.ty), FpT) or rt(I.ty).k not in ('double', 'float', 'x86_fp80'): raise Unsupported('fp type ' + repr(I.ty))
            a_, b_ = V(I.a, I.ty), V(I.b, I.ty)
            if rt(I.ty).k == 'x86_fp80':
                # long double: only concrete values, computed in double precision (libstdc++'s generate_canonical uses it for 2^32-scale factors that are exact in double); recorded as an assumption
                if is_sym(a_) or is_sym(b_): raise Unsupported('symbolic long double arithmetic')
                st.events.append(('assume', 'x86_fp80 arithmetic on concrete values evaluated in double precision'))
            regs[I.dest] = s.fbin(op, a_, b_, st)
        elif op == 'fneg':
            a = V(I.a, I.ty); regs[I.dest] = -a
        elif op == 'freeze': regs[I.dest] = V(I.a, I.ty)
        elif op in ('add', 'sub', 'mul', 'shl', 'lshr', 'ashr', 'and', 'or', 'xor', 'udiv', 'urem', 'sdiv', 'srem'):
            t = rt(I.ty)
            if not isinstance(t, IntT): raise Unsupported('vector integer op')
            regs[I.dest] = s.ibin(op, V(I.a, I.ty), V(I.b, I.ty), t.w, I, st)
        elif op == 'icmp':
            regs[I.dest] = s.icmp(I.pred, V(I.a, I.ty), V(I.b, I.ty), rt(I.ty))
        elif op == 'fcmp':
            regs[I.dest] = s.fcmp(I.pred, V(I.a, I.ty), V(I.b, I.ty))
        elif op == 'select':
            c = V(I.c); a, b = V(I.a, I.ty), V(I.b, I.ty); t = rt(I.ty)
            if not is_sym(c): regs[I.dest] = a if c else b
            else:
                c = toB(c)
                if s.resolve_selects:
                    # a condition already decided by the path condition selects its operand directly (simpler, structurally comparable terms)
                    if not s.feasible(st.pc, z3.Not(c)): regs[I.dest] = a; return None
                    if not s.feasible(st.pc, c): regs[I.dest] = b; return None
                if isinstance(t, FpT): regs[I.dest] = z3.If(c, toR(a), toR(b))
                elif isinstance(t, IntT) and t.w == 1: regs[I.dest] = z3.If(c, toB(a), toB(b))
                elif isinstance(t, IntT) and (is_sym(a) or is_sym(b) or t.w < 32):
                    regs[I.dest] = z3.If(c, toI(a, t.w), toI(b, t.w))
                else:
                    if not is_sym(a) and not is_sym(b) and a == b: regs[I.dest] = a; return None
                    outs = []
                    for cond, v in ((c, a), (z3.Not(c), b)):
                        if s.feasible(st.pc, cond):
                            st2 = st.fork(); st2.pc.append(cond); r2 = dict(regs); r2[I.dest] = v; outs.append((r2, st2))
                    return ('fork', outs)
        elif op in ('zext', 'sext', 'trunc'):
            a = V(I.a, I.sty); sw = rt(I.sty).w; dw = rt(I.ty).w
            if is_sym(a):
                if is_bool(a):
                    if op == 'trunc': regs[I.dest] = a
                    else: regs[I.dest] = z3.If(a, z3.IntVal(1 if op == 'zext' else -1), z3.IntVal(0))
                elif op == 'trunc':
                    if dw == 1: regs[I.dest] = (a % 2) != 0
                    else: regs[I.dest] = a; st.events.append(('assume', 'trunc of symbolic integer does not change its value'))
                else: regs[I.dest] = a
            elif isinstance(a, (float, tuple, list)): raise Unsupported('int cast of non-int')
            else:
                if op == 'sext' and a >> (sw - 1): a -= 1 << sw
                regs[I.dest] = a & ((1 << dw) - 1)
        elif op in ('bitcast', 'ptrtoint', 'inttoptr', 'addrspacecast'):
            regs[I.dest] = V(I.a, I.sty)
        elif op in ('fpext', 'fptrunc'):
            a = V(I.a, I.sty)
            if op == 'fptrunc' and not is_sym(a):
                import struct as _st
                a = _st.unpack('<f', _st.pack('<f', a))[0]
            elif op == 'fptrunc': raise Unsupported('fptrunc of symbolic value')
            if rt(I.ty).k not in ('double', 'float', 'x86_fp80') or (rt(I.ty).k == 'x86_fp80' and is_sym(a) and op != 'fpext'): raise Unsupported('long double arithmetic')     # widening a symbolic double is exact; arithmetic on it stays unsupported
            regs[I.dest] = a
        elif op in ('sitofp', 'uitofp'):
            a = V(I.a, I.sty)
            if rt(I.ty).k not in ('double', 'float', 'x86_fp80') or (rt(I.ty).k == 'x86_fp80' and is_sym(a)): raise Unsupported('long double arithmetic')
            if is_sym(a):
                if is_bool(a): regs[I.dest] = z3.If(a, z3.RealVal(-1 if op == 'sitofp' else 1), z3.RealVal(0))    # i1 true is -1 as a signed value
                else: regs[I.dest] = toR(a)
            else:
                w = rt(I.sty).w
                if op == 'sitofp' and a >> (w - 1): a -= 1 << w
                regs[I.dest] = float(a)
        elif op in ('fptosi', 'fptoui'):
            a = V(I.a, I.sty); w = rt(I.ty).w
            if is_sym(a):
                regs[I.dest] = z3.If(a >= 0, z3.ToInt(a), -z3.ToInt(-a))
            else:
                if a != a or abs(a) >= 2.0 ** (w - (op == 'fptosi')): raise Unsupported('fptosi out of range (poison)')
                regs[I.dest] = int(a) & ((1 << w) - 1)
        elif op == 'alloca':
            n = V(I.n)
            if is_sym(n): raise Unsupported('symbolic alloca')
            regs[I.dest] = st.alloc(sizeof(I.ty) * n, 'stack')
        elif op == 'getelementptr':
            regs[I.dest] = s.gep(I.bty, V(I.a), I.idx, regs)
        elif op == 'load':
            a = V(I.a); t = rt(I.ty)
            if isinstance(a, tuple): raise Unsupported('load through function pointer')
            if is_sym(a): raise Unsupported('symbolic address')
            if isinstance(t, (StructT, ArrT)): raise Unsupported('aggregate load')
            v = st.load(a, sizeof(t), isinstance(t, FpT))
            if isinstance(t, FpT) and isinstance(v, int):
                import struct as _st
                v = _st.unpack('<d', v.to_bytes(8, 'little'))[0] if sizeof(t) == 8 else _st.unpack('<f', v.to_bytes(4, 'little'))[0]
            regs[I.dest] = v
        elif op == 'store':
            a = V(I.a)
            if isinstance(a, tuple) or is_sym(a): raise Unsupported('store through odd pointer')
            t = rt(I.ty)
            if isinstance(t, (StructT, ArrT)): raise Unsupported('aggregate store')
            st.store(a, sizeof(t), V(I.v, I.ty))
        elif op == 'br':
            if I.cond is None: return ('goto', [(I.t, regs, st)])
            c = V(I.cond)
            if not is_sym(c): return ('goto', [(I.t if c else I.f, regs, st)])
            c = toB(c); outs = []
            ft = s.feasible(st.pc, c); ff = s.feasible(st.pc, z3.Not(c))
            if ft and ff:
                st2 = st.fork(); st2.pc.append(z3.Not(c)); st.pc.append(c)
                return ('goto', [(I.f, dict(regs), st2), (I.t, regs, st)])
            if ft: st.pc.append(c); return ('goto', [(I.t, regs, st)])
            if ff: st.pc.append(z3.Not(c)); return ('goto', [(I.f, regs, st)])
            return ('goto', [])
        elif op == 'switch':
            a = V(I.a, I.ty)
            if is_sym(a): raise Unsupported('symbolic switch')
            for cv, lab in I.cases:
                if cv & ((1 << rt(I.ty).w) - 1) == a: return ('goto', [(lab, regs, st)])
            return ('goto', [(I.default, regs, st)])
        elif op == 'ret':
            return ('ret', None if I.a is None else V(I.a, I.ty))
        elif op == 'unreachable': raise PathEnd('unreachable', f.name)
        elif op in ('call', 'invoke'):
            cal = V(I.callee)
            if not (isinstance(cal, tuple) and cal[0] == 'fn'):
                if cal == 0: raise PathEnd('oob', 'call through null function pointer')
                raise Unsupported('indirect call through non-function value')
            name = cal[1]
            args = [V(v, t) for t, v in I.args]
            res = s.call(name, args, I, st, depth)
            outs = []
            for st2, rv in res:
                r2 = regs if len(res) == 1 else dict(regs)
                if I.dest: r2[I.dest] = rv
                outs.append((r2, st2))
            if op == 'invoke': return ('goto', [(I.normal, r2, st2) for r2, st2 in outs])
            if len(outs) == 1 and outs[0][1] is st: return None
            return ('fork', outs)
        elif op == 'extractvalue':
            a = V(I.a, I.ty)
            for k in I.path: a = a[k]
            regs[I.dest] = a
        elif op == 'insertvalue':
            import copy
            a = copy.deepcopy(V(I.a, I.ty)) if not is_sym(V(I.a, I.ty)) else V(I.a, I.ty)
            v = V(I.v, I.vty); cur = a
            for k in I.path[:-1]: cur = cur[k]
            cur[I.path[-1]] = v; regs[I.dest] = a
        elif op in ('landingpad', 'resume', 'cleanupret'): raise PathEnd('throw', 'exception path reached')
        elif op == 'fence': pass
        else: raise Unsupported('instruction ' + op)
        return None
    # ------------------------------------------------------------ arithmetic
    def fbin(s, op, a, b, st):
        if isinstance(a, float) and isinstance(b, float):
            try:
                if op == 'fadd': return a + b
                if op == 'fsub': return a - b
                if op == 'fmul': return a * b
                if op == 'fdiv':
                    if b == 0.0:
                        if a == 0.0 or a != a: return float('nan')
                        return math.copysign(float('inf'), a) * math.copysign(1.0, b)
                    return a / b
                if op == 'frem': return math.fmod(a, b)
            except OverflowError:
                return float('inf') if (a > 0) == (b > 0) or op in ('fadd',) and a > 0 else float('-inf')
        if isinstance(a, (int, tuple, list)) or isinstance(b, (int, tuple, list)): raise Unsupported('fp op on non-fp value')
        if op == 'frem': raise Unsupported('symbolic frem')
        a = toR(a); b = toR(b)
        if op == 'fadd': return a + b
        if op == 'fsub': return a - b
        if op == 'fmul': return a * b
        st.events.append(('div', b, len(st.pc), a))
        return a / b
    def ibin(s, op, a, b, w, I, st):
        M = (1 << w) - 1
        if isinstance(a, (tuple, list, float)) or isinstance(b, (tuple, list, float)): raise Unsupported('int op on non-int')
        if is_sym(a) or is_sym(b):
            if w == 1:
                a = toB(a); b = toB(b)
                if op == 'and': return z3.And(a, b)
                if op == 'or': return z3.Or(a, b)
                if op == 'xor': return z3.Xor(a, b)
                if op in ('add', 'sub'): return z3.Xor(a, b)
                raise Unsupported('i1 op ' + op)
            if op in ('and', 'or', 'xor'):
                ba, bb = as_bool01(a), as_bool01(b)
                if ba is not None and bb is not None:
                    r = z3.And(ba, bb) if op == 'and' else z3.Or(ba, bb) if op == 'or' else z3.Xor(ba, bb)
                    return z3.If(r, z3.IntVal(1), z3.IntVal(0))
            a = toI(a, w); b = toI(b, w)
            if op in ('add', 'sub', 'mul'): st.events.append(('assume', 'symbolic integer %s does not wrap' % op))
            if op == 'add': return a + b
            if op == 'sub': return a - b
            if op == 'mul': return a * b
            if op == 'shl' and z3.is_int_value(b) and 0 <= b.as_long() < w:
                st.events.append(('assume', 'symbolic integer shl does not wrap')); return a * (1 << b.as_long())
            if op == 'or' and z3.is_int_value(b) and b.as_long() >= 0 and z3.is_app_of(a, z3.Z3_OP_MUL) and any(z3.is_int_value(c) and c.as_long() % (1 << max(1, b.as_long().bit_length())) == 0 for c in a.children()):
                return a + b          # (x * 2^k) | c with c < 2^k: the bits are disjoint
            if op == 'xor' and z3.is_int_value(b) and b.as_long() == -1: return -a - 1
            if op == 'xor' and z3.is_int_value(a) and a.as_long() == -1: return -b - 1
            if op in ('sdiv',) and z3.is_int_value(b) and b.as_long() > 0:
                return z3.If(a >= 0, a / b, -((-a) / b))
            raise Unsupported('symbolic integer op ' + op)
        if op == 'add': r = a + b
        elif op == 'sub': r = a - b
        elif op == 'mul': r = a * b
        elif op == 'shl': r = a << b if b < w else 0
        elif op == 'lshr': r = a >> b if b < w else 0
        elif op == 'ashr': r = sgn(a, w) >> min(b, w - 1)
        elif op == 'and': r = a & b
        elif op == 'or': r = a | b
        elif op == 'xor': r = a ^ b
        elif op in ('udiv', 'urem', 'sdiv', 'srem'):
            if b == 0: raise PathEnd('trap', 'integer division by zero')
            if op == 'udiv': r = a // b
            elif op == 'urem': r = a % b
            else:
                x, y = sgn(a, w), sgn(b, w); q = abs(x) // abs(y) * (1 if (x >= 0) == (y >= 0) else -1)
                r = q if op == 'sdiv' else x - q * y
        if op in ('add', 'sub', 'mul') and 'nsw' in I.flags:
            x, y = sgn(a, w), sgn(b, w); rr = {'add': x + y, 'sub': x - y, 'mul': x * y}[op]
            if not (-(1 << (w - 1)) <= rr < (1 << (w - 1))): st.events.append(('ub', 'signed overflow (nsw) in ' + I.text))
        return r & M
    def icmp(s, pred, a, b, t):
        if isinstance(a, tuple) or isinstance(b, tuple):
            if pred == 'eq': return int(a == b)
            if pred == 'ne': return int(a != b)
            raise Unsupported('ordering of function pointers')
        w = t.w if isinstance(t, IntT) else 64
        if is_sym(a) or is_sym(b):
            if w == 1:
                a = toB(a); b = toB(b)
                if pred == 'eq': return a == b
                if pred == 'ne': return z3.Xor(a, b)
                raise Unsupported('i1 ordering')
            a = toI(a, w); b = toI(b, w)
            if pred in ('ult', 'ugt', 'ule', 'uge'):
                # symbolic integers are mathematical values in the signed range of their width: the unsigned reading adds 2^w to negatives
                ua = z3.If(a < 0, a + (1 << w), a) if is_sym(a) else (a if a >= 0 else a + (1 << w)); ub = z3.If(b < 0, b + (1 << w), b) if is_sym(b) else (b if b >= 0 else b + (1 << w))
                return {'ult': lambda: ua < ub, 'ugt': lambda: ua > ub, 'ule': lambda: ua <= ub, 'uge': lambda: ua >= ub}[pred]()
            return {'eq': lambda: a == b, 'ne': lambda: a != b, 'slt': lambda: a < b, 'sgt': lambda: a > b, 'sle': lambda: a <= b, 'sge': lambda: a >= b}[pred]()
        if isinstance(a, float) or isinstance(b, float): raise Unsupported('icmp on double bits')
        x, y = sgn(a, w), sgn(b, w)
        return int({'eq': a == b, 'ne': a != b, 'ult': a < b, 'ugt': a > b, 'ule': a <= b, 'uge': a >= b,
                    'slt': x < y, 'sgt': x > y, 'sle': x <= y, 'sge': x >= y}[pred])
    def fcmp(s, pr, a, b):
        if isinstance(a, float) and isinstance(b, float):
            un = (a != a) or (b != b)
            if pr == 'uno': return int(un)
            if pr == 'ord': return int(not un)
            if pr == 'true': return 1
            if pr == 'false': return 0
            base = {'eq': a == b, 'ne': a != b, 'lt': a < b, 'gt': a > b, 'le': a <= b, 'ge': a >= b}[pr[1:]]
            if pr[0] == 'o': return int((not un) and base)
            return int(un or base)
        if isinstance(a, (int, tuple, list)) or isinstance(b, (int, tuple, list)): raise Unsupported('fcmp on non-fp')
        for x, other_is_a in ((a, False), (b, True)):
            if isinstance(x, float) and (x != x or abs(x) == float('inf')):
                # a symbolic exact real is finite: comparisons with +-inf / NaN constants fold
                if x != x: return int(pr[0] == 'u' and pr not in ('uno',) or pr == 'uno') if pr not in ('ord',) else 0
                base = pr[1:] if pr not in ('ord', 'uno') else pr
                if base == 'ord': return 1
                if base == 'uno': return 0
                pos = x > 0
                # evaluate "finite <op> x" (other_is_a) or "x <op> finite"
                if other_is_a: table = {'eq': 0, 'ne': 1, 'lt': int(pos), 'le': int(pos), 'gt': int(not pos), 'ge': int(not pos)}
                else: table = {'eq': 0, 'ne': 1, 'lt': int(not pos), 'le': int(not pos), 'gt': int(pos), 'ge': int(pos)}
                return table[base]
        if pr == 'uno': return 0
        if pr == 'ord': return 1
        a = toR(a); b = toR(b)
        r = {'eq': a == b, 'ne': a != b, 'lt': a < b, 'gt': a > b, 'le': a <= b, 'ge': a >= b}[pr[1:]]
        r = z3.simplify(r)
        if z3.is_true(r): return 1
        if z3.is_false(r): return 0
        return r
    # ------------------------------------------------------------ math library
    def sqrt(s, a, st):
        if isinstance(a, float): return math.sqrt(a) if a >= 0 else float('nan')
        a = toR(a)
        st.events.append(('sqrt', a, len(st.pc)))
        r = st.new_real('sqrt'); st.pc.append(r >= 0); st.pc.append(r * r == a); st.defs.append(('sqrt', r, a))
        return r
    def fabs(s, a, st=None):
        if isinstance(a, float): return abs(a)
        a = toR(a)
        if s.resolve_selects and st is not None:
            if not s.feasible(st.pc, a < 0): return a
            if not s.feasible(st.pc, a > 0): return -a
        return z3.If(a >= 0, a, -a)
    def pow(s, b, e, st):
        if isinstance(b, float) and isinstance(e, float):
            try: return math.pow(b, e)
            except (OverflowError, ValueError): return float('inf') if b > 0 or e == int(e) else float('nan')
        if isinstance(e, float) and e == int(e) and abs(e) <= 12:
            n = int(abs(e)); b = toR(b); r = z3.RealVal(1)
            for _ in range(n): r = r * b
            if e < 0:
                st.events.append(('div', r, len(st.pc))); r = 1 / r
            return r
        if isinstance(e, float) and e == 0.5: return s.sqrt(b, st)
        return uf('pow', 2)(toR(b), toR(e))
    def math1(s, nm, a, st):
        if isinstance(a, float):
            try: return MATH1[nm](a)
            except (ValueError, OverflowError):
                if nm in ('log', 'log10') and a == 0: return float('-inf')
                if nm in ('exp', 'cosh', 'sinh', 'tgamma', 'lgamma'): return float('inf')
                return float('nan')
        st.events.append(('math', nm, toR(a), len(st.pc)))
        return uf(nm)(toR(a))
    # ------------------------------------------------------------ calls
    def call(s, name, args, I, st, depth):
        if name in s.intercept:
            r = s.intercept[name](s, args, st, depth)
            if r is not NotImplemented: return r
        bare = name[1:]
        if bare.startswith('llvm.'):
            return s.intrinsic(bare, args, st)
        fname = s.mod.aliases.get(name, name)
        if fname in s.mod.funcs:
            w0 = st.writes; n0 = len(st.pc); ne0 = len(s.ended); ev0 = len(st.events)
            res = s.run(fname, args, st, depth + 1)
            if s.merge_pure and not isinstance(rt(I.rty), (PtrT, FnT)) and len(res) > 1 and len(s.ended) == ne0 and all(s2.writes == w0 and len(s2.events) == ev0 and s2.brk == st.brk for s2, _ in res) \
               and all(isinstance(rv, float) or is_sym(rv) or isinstance(rv, int) for _, rv in res):
                isfp = any(isinstance(rv, float) or (is_sym(rv) and z3.is_real(rv)) for _, rv in res)
                acc = None
                for s2, rv in reversed(res):
                    cond = z3.And(*s2.pc[n0:]) if len(s2.pc) > n0 else z3.BoolVal(True)
                    isb = isinstance(rt(I.rty), IntT) and rt(I.rty).w == 1
                    rv = toR(rv) if isfp else toB(rv) if isb else toI(rv, rt(I.rty).w if isinstance(rt(I.rty), IntT) else 64)
                    acc = rv if acc is None else z3.If(cond, rv, acc)
                base = res[0][0]; base.pc = base.pc[:n0]
                return [(base, acc)]
            return res
        return s.external(bare, args, I, st)
    def intrinsic(s, nm, args, st):
        if nm.startswith(('llvm.lifetime', 'llvm.invariant', 'llvm.dbg', 'llvm.experimental.noalias', 'llvm.prefetch')): return [(st, None)]
        if nm.startswith('llvm.assume'): return [(st, None)]
        if nm.startswith('llvm.fabs'): return [(st, s.fabs(args[0], st))]
        if nm.startswith('llvm.sqrt'): return [(st, s.sqrt(args[0], st))]
        if nm.startswith('llvm.pow.'): return [(st, s.pow(args[0], args[1], st))]
        if nm.startswith('llvm.powi'): return [(st, s.pow(args[0], float(sgn(args[1], 32)), st))]
        if nm.startswith('llvm.floor') or nm.startswith('llvm.ceil') or nm.startswith('llvm.trunc') or nm.startswith('llvm.round') or nm.startswith('llvm.rint') or nm.startswith('llvm.nearbyint'):
            k = nm.split('.')[1]; a = args[0]
            if isinstance(a, float):
                if a != a or abs(a) == float('inf'): return [(st, a)]
                return [(st, float({'floor': math.floor, 'ceil': math.ceil, 'trunc': math.trunc, 'round': lambda x: math.floor(abs(x) + 0.5) * (1 if x >= 0 else -1), 'rint': round, 'nearbyint': round}[k](a)))]
            a = toR(a)
            if k == 'floor': return [(st, z3.ToReal(z3.ToInt(a)))]
            if k == 'ceil': return [(st, -z3.ToReal(z3.ToInt(-a)))]
            if k == 'trunc': return [(st, z3.If(a >= 0, z3.ToReal(z3.ToInt(a)), -z3.ToReal(z3.ToInt(-a))))]
            raise Unsupported('symbolic ' + k)
        if nm.startswith(('llvm.minnum', 'llvm.maxnum', 'llvm.minimum', 'llvm.maximum')):
            a, b = args[0], args[1]; mn = 'min' in nm.split('.')[1]
            if isinstance(a, float) and isinstance(b, float):
                if a != a: return [(st, b)]
                if b != b: return [(st, a)]
                return [(st, min(a, b) if mn else max(a, b))]
            a = toR(a); b = toR(b)
            return [(st, z3.If(a < b, a, b) if mn else z3.If(a > b, a, b))]
        if nm.startswith('llvm.copysign'):
            a, b = args
            if isinstance(a, float) and isinstance(b, float): return [(st, math.copysign(a, b))]
            raise Unsupported('symbolic copysign')
        if nm.startswith(('llvm.exp.', 'llvm.log.', 'llvm.log10.', 'llvm.sin.', 'llvm.cos.')):
            return [(st, s.math1(nm.split('.')[1], args[0], st))]
        if nm.startswith('llvm.memset'):
            d, v, n = args[0], args[1], args[2]
            if is_sym(n) or is_sym(v): raise Unsupported('symbolic memset')
            st.memset(d, v, n); return [(st, None)]
        if nm.startswith(('llvm.memcpy', 'llvm.memmove')):
            if is_sym(args[2]): raise Unsupported('symbolic memcpy length')
            st.memcpy(args[0], args[1], args[2]); return [(st, None)]
        if nm.startswith(('llvm.umax', 'llvm.umin', 'llvm.smax', 'llvm.smin')):
            a, b = args; k = nm.split('.')[1]; w = int(nm.split('.i')[-1])
            if is_sym(a) or is_sym(b):
                if k[0] == 'u': raise Unsupported('symbolic ' + k)
                a = toI(a, w); b = toI(b, w); return [(st, z3.If(a < b, a, b) if k == 'smin' else z3.If(a > b, a, b))]
            if k[0] == 's': x, y = sgn(a, w), sgn(b, w)
            else: x, y = a, b
            return [(st, (a if x >= y else b) if k.endswith('max') else (a if x <= y else b))]
        if nm.startswith('llvm.abs'):
            w = int(nm.split('.i')[-1]); a = args[0]
            if is_sym(a): a = toI(a, w); return [(st, z3.If(a >= 0, a, -a))]
            return [(st, abs(sgn(a, w)) & ((1 << w) - 1))]
        if nm.startswith(('llvm.ctlz', 'llvm.cttz', 'llvm.ctpop', 'llvm.bswap', 'llvm.fshl', 'llvm.fshr')):
            w = int(nm.split('.i')[-1]); a = args[0]
            if is_sym(a): raise Unsupported(nm)
            if 'ctlz' in nm: return [(st, w - a.bit_length())]
            if 'cttz' in nm: return [(st, (a & -a).bit_length() - 1 if a else w)]
            if 'ctpop' in nm: return [(st, bin(a).count('1'))]
            raise Unsupported(nm)
        if nm.startswith(('llvm.stacksave',)): return [(st, 0)]
        if nm.startswith(('llvm.stackrestore',)): return [(st, None)]
        if nm.startswith('llvm.trap'): raise PathEnd('trap', 'llvm.trap')
        if nm.startswith(('llvm.uadd.with.overflow', 'llvm.umul.with.overflow', 'llvm.sadd.with.overflow', 'llvm.smul.with.overflow', 'llvm.usub.with.overflow', 'llvm.ssub.with.overflow')):
            w = int(nm.split('.i')[-1]); a, b = args
            if is_sym(a) or is_sym(b): raise Unsupported(nm)
            k = nm.split('.')[1]
            if k[0] == 's': a, b = sgn(a, w), sgn(b, w)
            r = a + b if 'add' in k else a * b if 'mul' in k else a - b
            ov = not (-(1 << (w - 1)) <= r < (1 << (w - 1))) if k[0] == 's' else not (0 <= r < (1 << w))
            return [(st, [r & ((1 << w) - 1), int(ov)])]
        raise Unsupported('intrinsic ' + nm)
    def external(s, nm, args, I, st):
        if nm in ('_Znwm', '_Znam', 'malloc', '_ZnwmSt11align_val_t'):
            if is_sym(args[0]): raise Unsupported('symbolic allocation size')
            if args[0] > (1 << 40): raise PathEnd('throw', 'allocation of %d bytes (bad_alloc / length error)' % args[0])
            return [(st, st.alloc(args[0]))]
        if nm in ('_ZdlPv', 'free', '_ZdaPv', '_ZdlPvm', '_ZdaPvm'):
            st.free(args[0]); return [(st, None)]
        if nm in ('memcpy', 'memmove'):
            if is_sym(args[2]): raise Unsupported('symbolic memcpy length')
            st.memcpy(args[0], args[1], args[2]); return [(st, args[0])]
        if nm == 'memset':
            st.memset(args[0], args[1], args[2]); return [(st, args[0])]
        if nm in ('memcmp', 'bcmp'):
            n = args[2]
            for j in range(n):
                x = st.load(args[0] + j, 1); y = st.load(args[1] + j, 1)
                if is_sym(x) or is_sym(y): raise Unsupported('symbolic memcmp')
                if x != y: return [(st, (x - y) & 0xffffffff)]
            return [(st, 0)]
        if nm == 'strlen':
            n = 0
            while st.load(args[0] + n, 1) != 0: n += 1
            return [(st, n)]
        if nm == 'exit' or nm == '_exit' or nm == 'quick_exit':
            st.events.append(('exit', args[0])); raise PathEnd('exit', 'exit(%s)' % (args[0],))
        if nm == 'abort' or nm == '_ZSt9terminatev':
            st.events.append(('abort',)); raise PathEnd('abort', nm)
        if nm.startswith(('_ZSt20__throw_', '_ZSt19__throw_', '_ZSt17__throw_', '_ZSt16__throw_', '_ZSt21__throw_', '_ZSt24__throw_', '_ZSt25__throw_', '_ZSt28__throw_')) or nm in ('__cxa_throw', '__cxa_rethrow', '__cxa_bad_cast', '__cxa_pure_virtual', '__cxa_throw_bad_array_new_length'):
            st.events.append(('throw', nm)); raise PathEnd('throw', nm)
        if nm in ('__cxa_allocate_exception',): return [(st, st.alloc(args[0] if not is_sym(args[0]) else 64))]
        if nm in ('__cxa_atexit', '__cxa_guard_release', '__cxa_guard_abort', '__cxa_end_catch', '__cxa_free_exception'): return [(st, 0)]
        if nm == '__cxa_guard_acquire':
            g = st.load(args[0], 1)
            if g: return [(st, 0)]
            st.store(args[0], 1, 1); return [(st, 1)]
        if nm in ('printf', 'puts', 'putchar', 'fprintf', 'fputs', 'fputc', 'fflush', 'fwrite', 'perror'):
            st.events.append(('diag', nm)); return [(st, 0)]
        if s.is_ostream_op(nm):
            st.events.append(('diag', nm[:40])); return [(st, args[0] if args else None)]
        if nm in ('_ZNSt8ios_base4InitC1Ev', '_ZNSt8ios_base4InitD1Ev'): return [(st, None)]
        if nm == 'sqrt' : return [(st, s.sqrt(args[0], st))]
        if nm == 'fabs': return [(st, s.fabs(args[0], st))]
        if nm == 'pow': return [(st, s.pow(args[0], args[1], st))]
        if nm in ('floor', 'ceil', 'trunc', 'round'): return s.intrinsic('llvm.%s.f64' % nm, args, st)
        if nm in ('fmin', 'fmax'): return s.intrinsic('llvm.%snum.f64' % nm[1:], args, st)
        if nm in MATH1: return [(st, s.math1(nm, args[0], st))]
        if nm == 'atan2':
            if all(isinstance(a, float) for a in args): return [(st, math.atan2(*args))]
            return [(st, uf('atan2', 2)(toR(args[0]), toR(args[1])))]
        if nm == 'fmod':
            if all(isinstance(a, float) for a in args): return [(st, math.fmod(*args))]
            raise Unsupported('symbolic fmod')
        if nm == 'ldexp':
            if isinstance(args[0], float) and not is_sym(args[1]): return [(st, math.ldexp(args[0], sgn(args[1], 32)))]
            raise Unsupported('symbolic ldexp')
        if nm.startswith('_ZNSt13random_device'):
            # std::random_device: _M_init/_M_fini no-ops, _M_getval returns an arbitrary seed (0): every draw the checks care about goes through the intercepted Sample_Uniform
            st.events.append(('random_device', nm))
            return [(st, 0 if 'getval' in nm else None)]
        r = s.libstdcxx(nm, args, st)
        if r is not None: return r
        st.events.append(('unmodelled', nm))
        raise PathEnd('unmodelled', nm)
    # ---- the few libstdc++ out-of-line members that -O1 code of libphysica calls (std::string with the SSO layout {ptr,len,{buf[16]|cap}})
    def _str(s, st, p):
        d = st.load(p, 8); n = st.load(p + 8, 8); return d, n
    def _str_bytes(s, st, p):
        d, n = s._str(st, p); return bytes(st.load(d + i, 1) for i in range(n))
    def _cstr(s, st, p):
        out = bytearray()
        while True:
            b = st.load(p + len(out), 1)
            if b == 0: return bytes(out)
            out.append(b)
    def _str_set(s, st, p, data):
        d, n = s._str(st, p); local = p + 16
        cap = 15 if d == local else st.load(p + 16, 8)
        if len(data) > cap:
            nd = st.alloc(len(data) + 1)
            if d != local: st.free(d)
            d = nd; st.store(p, 8, d); st.store(p + 16, 8, len(data))
        for i, b in enumerate(data): st.store(d + i, 1, b)
        st.store(d + len(data), 1, 0); st.store(p + 8, 8, len(data))
    def libstdcxx(s, nm, args, st):
        S = '_ZNSt7__cxx1112basic_stringIcSt11char_traitsIcESaIcEE'; SK = '_ZNKSt7__cxx1112basic_stringIcSt11char_traitsIcESaIcEE'
        if nm == S + '9_M_createERmm':
            cap = st.load(args[1], 8); return [(st, st.alloc(cap + 1))]
        if nm == S + '10_M_disposeEv':
            d, n = s._str(st, args[0])
            if d != args[0] + 16: st.free(d)
            return [(st, None)]
        if nm in (S + '9_M_appendEPKcm', S + '6appendEPKcm'):
            add = bytes(st.load(args[1] + i, 1) for i in range(args[2])); s._str_set(st, args[0], s._str_bytes(st, args[0]) + add); return [(st, args[0])]
        if nm == S + '6appendEPKc':
            s._str_set(st, args[0], s._str_bytes(st, args[0]) + s._cstr(st, args[1])); return [(st, args[0])]
        if nm in (S + '9_M_assignERKS4_', S + '6assignERKS4_'):
            s._str_set(st, args[0], s._str_bytes(st, args[1])); return [(st, args[0])]
        if nm == S + '10_M_replaceEmmPKcm':
            cur = s._str_bytes(st, args[0]); new = bytes(st.load(args[3] + i, 1) for i in range(args[4]))
            s._str_set(st, args[0], cur[:args[1]] + new + cur[args[1] + args[2]:]); return [(st, args[0])]
        if nm == S + '14_M_replace_auxEmmmc':
            cur = s._str_bytes(st, args[0]); s._str_set(st, args[0], cur[:args[1]] + bytes([args[4] & 255]) * args[3] + cur[args[1] + args[2]:]); return [(st, args[0])]
        if nm == SK + '7compareEPKc':
            a = s._str_bytes(st, args[0]); b = s._cstr(st, args[1]); return [(st, ((a > b) - (a < b)) & 0xffffffff)]
        if nm == SK + '7compareERKS4_':
            a = s._str_bytes(st, args[0]); b = s._str_bytes(st, args[1]); return [(st, ((a > b) - (a < b)) & 0xffffffff)]
        if nm in (S + 'C2EPKcRKS3_', S + 'C1EPKcRKS3_'):
            st.store(args[0], 8, args[0] + 16); st.store(args[0] + 8, 8, 0); st.store(args[0] + 16, 1, 0)
            s._str_set(st, args[0], s._cstr(st, args[1])); return [(st, None)]
        if nm in (S + 'C2ERKS4_', S + 'C1ERKS4_'):
            st.store(args[0], 8, args[0] + 16); st.store(args[0] + 8, 8, 0); st.store(args[0] + 16, 1, 0)
            s._str_set(st, args[0], s._str_bytes(st, args[1])); return [(st, None)]
        if nm in (S + 'D2Ev', S + 'D1Ev'):
            d, n = s._str(st, args[0])
            if d != args[0] + 16: st.free(d)
            return [(st, None)]
        if nm in (S + '7reserveEm', S + '13shrink_to_fitEv', S + '7reserveEv'): return [(st, None)]
        return None
    @staticmethod
    def is_ostream_op(nm):
        return nm.startswith(('_ZNSo', '_ZStlsISt11char_traitsIcEERSt13basic_ostream', '_ZSt16__ostream_insert', '_ZSt4endlIcSt11char_traits', '_ZSt5flushIcSt11char_traits',
                              '_ZStlsIcSt11char_traitsIcESaIcEERSt13basic_ostream', '_ZStlsIcSt11char_traitsIcEERSt13basic_ostream', '_ZNSt9basic_iosIcSt11char_traitsIcEE5clear', '_ZNKSt5ctypeIcE13_M_widen_initEv',
                              '_ZStlsIdcSt11char_traitsIcEERSt13basic_ostream', '_ZStlsIcSt11char_traitsIcEERSt13basic_ostreamIT_T0_ES6_St5_Setw', '_ZStlsIcSt11char_traitsIcEERSt13basic_ostreamIT_T0_ES6_St13_Setprecision'))

def _formatted_string(it, args, st, depth):
    # libphysica::Formatted_String(result, str, color, bold, underlined, background): formatting is not the subject of any check -> returns str unchanged
    st.store(args[0], 8, args[0] + 16); st.store(args[0] + 8, 8, 0); st.store(args[0] + 16, 1, 0)
    it._str_set(st, args[0], it._str_bytes(st, args[1])); st.events.append(('diag', 'Formatted_String'))
    return [(st, None)]
DEFAULT_INTERCEPTS = {'@_ZN10libphysica16Formatted_StringENSt7__cxx1112basic_stringIcSt11char_traitsIcESaIcEEES5_bbS5_': _formatted_string}

class _SymIndex(Exception):
    def __init__(s, term): s.term = term

# ------------------------------------------------------------ helpers for checks
def std_vector_double(st, mod, addr, vals):
    """writes a std::vector<double> {begin,end,cap} at addr pointing at a fresh buffer with vals"""
    buf = st.put_doubles(vals) if vals else 0
    st.store(addr, 8, buf); st.store(addr + 8, 8, buf + 8 * len(vals)); st.store(addr + 16, 8, buf + 8 * len(vals))
    return buf
def read_vector_double(st, addr):
    b = st.load(addr, 8); e = st.load(addr + 8, 8)
    return [st.load(b + 8 * i, 8, True) for i in range((e - b) // 8)]
