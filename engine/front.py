"""Front end: /repo's C++ (current working tree) -> LLVM IR (clang++-14), linked and trimmed;
   plus native shared objects of the same sources+harness for replay / translator validation."""
import hashlib, os, subprocess, sys, time, shutil, glob

VERIF = os.path.dirname(os.path.dirname(os.path.abspath(__file__)))
REPO = os.environ.get('VERIF_REPO', '/repo')
WORK = os.path.join(VERIF, '.work')
CACHE = os.path.join(WORK, 'cache')
GUARD = 'LIBPHYSICA_VERIF'

VERSION_HPP = '''#ifndef VERSION_HPP
#define VERSION_HPP
#define AUTHOR "x"
#define YEAR "x"
#define PROJECT_NAME "libphysica"
#define PROJECT_VERSION "verif"
#define PROJECT_DIR "/repo/"
#define PROJECT_VERSION_MAJOR "0"
#define PROJECT_VERSION_MINOR "0"
#define PROJECT_VERSION_PATCH "0"
#define GIT_BRANCH "verif"
#define GIT_COMMIT_HASH "verif"
#define TOP_LEVEL_PROJECT_NAME "libphysica"
#define TOP_LEVEL_PROJECT_VERSION "verif"
#define TOP_LEVEL_DIR "/repo/"
#define TOP_LEVEL_PROJECT_VERSION_MAJOR "0"
#define TOP_LEVEL_PROJECT_VERSION_MINOR "0"
#define TOP_LEVEL_PROJECT_VERSION_PATCH "0"
#define TOP_LEVEL_GIT_BRANCH "verif"
#define TOP_LEVEL_GIT_COMMIT_HASH "verif"
#endif
'''

def _sh(cmd, **kw):
    r = subprocess.run(cmd, stdout=subprocess.PIPE, stderr=subprocess.STDOUT, text=True, **kw)
    if r.returncode != 0:
        sys.stderr.write('COMMAND FAILED: %s\n%s\n' % (' '.join(cmd), r.stdout[-4000:]))
        raise RuntimeError('front end command failed: ' + cmd[0])
    return r.stdout

def gen_dir():
    d = os.path.join(WORK, 'generated')
    os.makedirs(d, exist_ok=True)
    p = os.path.join(d, 'version.hpp')
    if not os.path.exists(p) or open(p).read() != VERSION_HPP:
        open(p, 'w').write(VERSION_HPP)
    return d

_tree_hash = None
def tree_hash(fresh=False):
    """hash of every file under /repo/src and /repo/include (the inputs of every lowering); fresh=True re-reads the tree (used around every build so that a tree that changes during a run can never be cached under the wrong key)"""
    global _tree_hash
    if _tree_hash is None or fresh:
        h = hashlib.sha256()
        for root in ('src', 'include'):
            for dp, dn, fn in sorted(os.walk(os.path.join(REPO, root))):
                dn.sort()
                for f in sorted(fn):
                    p = os.path.join(dp, f)
                    h.update(p.encode()); h.update(open(p, 'rb').read())
        _tree_hash = h.hexdigest()
    return _tree_hash

def _key(*parts):
    h = hashlib.sha256()
    for p in parts:
        h.update(repr(p).encode())
    return h.hexdigest()[:24]

CLANG_FLAGS = ['-std=c++14', '-fno-vectorize', '-fno-slp-vectorize', '-fno-unroll-loops', '-ffp-contract=off',
               '-fno-discard-value-names', '-fno-access-control', '-fno-math-errno', '-w']   # hooks (-DLIBPHYSICA_VERIF) are observation-only and compiled into the native replay build only

# Statistics.cpp: keep Sample_Uniform / Sample_Gauss as calls (the checks replace them by the symbolic random stream); -O1 would inline them into their callers in the same TU
PER_FILE_FLAGS = {'Statistics.cpp': ['-fno-inline-functions']}

def _prune_cache(maxfiles=400):
    fs = sorted(glob.glob(os.path.join(CACHE, '*')), key=os.path.getmtime)
    for f in fs[:-maxfiles]:
        try: os.remove(f)
        except OSError: pass

def lower(srcs, harness, keep, opt='-O1', extra=(), exceptions=False):
    """srcs: list of basenames in /repo/src ; harness: path of harness .cpp (or None); keep: wrapper symbols.
       returns (path_to_trimmed_ll, info)"""
    os.makedirs(CACHE, exist_ok=True)
    gd = gen_dir()
    hsrc = open(harness).read() if harness else ''
    th = tree_hash(fresh=True)
    key = _key('lower', th, srcs, hsrc, keep, opt, extra, exceptions, CLANG_FLAGS, PER_FILE_FLAGS)
    out = os.path.join(CACHE, key + '.ll')
    info = {'clang': 'clang++-14 ' + opt + ' ' + ' '.join(CLANG_FLAGS), 'sources': list(srcs), 'harness': harness and os.path.basename(harness),
            'tree_hash': tree_hash()[:16], 'cached': os.path.exists(out)}
    if os.path.exists(out):
        os.utime(out)
        return out, info
    t0 = time.time()
    tmp = os.path.join(WORK, 'tmp.' + key)
    os.makedirs(tmp, exist_ok=True)
    try:
        lls = []
        procs = []
        for s in list(srcs) + ([harness] if harness else []):
            path = s if os.path.isabs(s) else os.path.join(REPO, 'src', s)
            o = os.path.join(tmp, os.path.basename(path) + '.ll')
            fl = list(CLANG_FLAGS) + list(extra) + PER_FILE_FLAGS.get(os.path.basename(path), [])
            # Utilities.cpp uses try/catch; everything else is lowered without exception tables
            if not (exceptions or os.path.basename(path) == 'Utilities.cpp'):
                fl.append('-fno-exceptions')
            cmd = ['clang++-14', opt] + fl + ['-I' + os.path.join(REPO, 'include'), '-I' + gd, '-I' + os.path.join(VERIF, 'harness'), '-I' + os.path.join(REPO, 'src'), '-S', '-emit-llvm', path, '-o', o]
            procs.append((cmd, subprocess.Popen(cmd, stdout=subprocess.PIPE, stderr=subprocess.STDOUT, text=True)))
            lls.append(o)
        for cmd, p in procs:
            so, _ = p.communicate()
            if p.returncode != 0:
                sys.stderr.write('COMMAND FAILED: %s\n%s\n' % (' '.join(cmd), so[-6000:]))
                raise RuntimeError('clang lowering failed')
        linked = os.path.join(tmp, 'linked.bc')
        _sh(['llvm-link-14'] + lls + ['-o', linked])
        _sh(['opt-14', '-passes=internalize,globaldce', '-internalize-public-api-list=' + ','.join(keep), linked, '-S', '-o', out + '.tmp'])
        if tree_hash(fresh=True) != th: raise RuntimeError('the source tree changed while it was being lowered: nothing cached, run again')
        os.rename(out + '.tmp', out)
    finally:
        shutil.rmtree(tmp, ignore_errors=True)
    info['lower_s'] = round(time.time() - t0, 2)
    _prune_cache()
    return out, info

def native_so(srcs, harness, extra=()):
    """g++ -O2 shared object of the real sources + harness (VERIF_NATIVE), for replay and translator validation"""
    os.makedirs(CACHE, exist_ok=True)
    gd = gen_dir()
    hsrc = open(harness).read()
    th = tree_hash(fresh=True)
    key = _key('native', th, srcs, hsrc, extra)
    out = os.path.join(CACHE, key + '.so')
    if os.path.exists(out):
        os.utime(out)
        return out
    tmp = os.path.join(WORK, 'tmpn.' + key)
    os.makedirs(tmp, exist_ok=True)
    try:
        objs = []; procs = []
        for s in list(srcs) + [harness]:
            path = s if os.path.isabs(s) else os.path.join(REPO, 'src', s)
            o = os.path.join(tmp, os.path.basename(path) + '.o')
            cmd = ['g++', '-std=c++14', '-O2', '-fPIC', '-fno-access-control', '-w', '-DVERIF_NATIVE', '-D' + GUARD] + list(extra) + \
                  ['-I' + os.path.join(REPO, 'include'), '-I' + gd, '-I' + os.path.join(VERIF, 'harness'), '-I' + os.path.join(REPO, 'src'), '-c', path, '-o', o]
            procs.append((cmd, subprocess.Popen(cmd, stdout=subprocess.PIPE, stderr=subprocess.STDOUT, text=True)))
            objs.append(o)
        for cmd, p in procs:
            so, _ = p.communicate()
            if p.returncode != 0:
                sys.stderr.write('COMMAND FAILED: %s\n%s\n' % (' '.join(cmd), so[-6000:]))
                raise RuntimeError('native build failed')
        _sh(['g++', '-shared', '-o', out + '.tmp'] + objs + ['-lconfig++'])
        if tree_hash(fresh=True) != th: raise RuntimeError('the source tree changed while the native replay library was being built: nothing cached, run again')
        os.rename(out + '.tmp', out)
    finally:
        shutil.rmtree(tmp, ignore_errors=True)
    _prune_cache()
    return out
