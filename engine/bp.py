"""BP back end, step 2: generated C + harness file -> CBMC; verdict per harness, vacuity witness, counterexample inputs from the trace"""
import os, re, subprocess, time, struct, hashlib, resource
import front, ll2c
from check import ob

VERIF = front.VERIF
CBMC_FLAGS = ['--unwinding-assertions', '--signed-overflow-check', '--undefined-shift-check', '--drop-unused-functions', '--trace', '--verbosity', '4']

def harness_path(cfile): return os.path.join(VERIF, 'harness', cfile)

def harnesses(cfile, tier='thorough'):
    """// HARNESS name=<fn> unwind=<n> [exit_ok=1] [timeout=<s>] [key=<finding key>] [solver=cadical|kissat]"""
    out = []
    for ln in open(harness_path(cfile)):
        m = re.match(r'\s*//\s*HARNESS\s+(.*)', ln)
        if m:
            d = dict(kv.split('=', 1) for kv in m.group(1).split())
            if d.get('tier', 'quick') == 'thorough' and tier != 'thorough': continue
            out.append(d)
    return out

def gen_c(mod, roots, tag):
    d = os.path.join(front.WORK, 'bp', tag); os.makedirs(d, exist_ok=True)
    txt = ll2c.translate(mod, roots)
    p = os.path.join(d, 'gen.c')
    if not os.path.exists(p) or open(p).read() != txt: open(p, 'w').write(txt)
    return d, p

def parse_trace(txt):
    """values of the harness inputs (globals/locals named in_*) from a cbmc --trace: last assignment wins; doubles decoded from the bit pattern"""
    vals = {}
    for m in re.finditer(r'^\s*(in_\w+(?:\[\d+l?\])?)=([^\s]+)(?: \(([01 ]+)\))?', txt, re.M):
        name, v, bits = m.group(1), m.group(2), m.group(3)
        name = re.sub(r'\[(\d+)l?\]', r'[\1]', name)
        if bits:
            b = bits.replace(' ', '')
            if len(b) == 64 and re.search(r'[.eE]|nan|inf|NaN|INFINITY', v, re.I) or (len(b) == 64 and ('.' in v or 'e' in v)):
                vals[name] = struct.unpack('>d', int(b, 2).to_bytes(8, 'big'))[0]; continue
            try: vals[name] = int(v.rstrip('ul'))
            except ValueError: vals[name] = v
        else:
            try: vals[name] = float(v) if re.search(r'[.eE]|nan|inf', v, re.I) else int(v.rstrip('ul'))
            except ValueError: vals[name] = v
    return vals

def cbmc(cfile, gendir, h, witness=False, extra=()):
    cmd = ['cbmc', harness_path(cfile), '-I', gendir, '-I', os.path.join(VERIF, 'harness'), '--function', h['name'], '--unwind', h.get('unwind', '3')] + CBMC_FLAGS
    if h.get('exit_ok') == '1': cmd += ['-DVERIF_EXIT_OK=1']
    if witness: cmd += ['-DWITNESS']
    if h.get('solver') == 'cadical': cmd += ['--sat-solver', 'cadical']
    if h.get('solver') == 'kissat': cmd += ['--external-sat-solver', 'kissat']
    if h.get('flags'): cmd += h['flags'].split(',')
    cmd += list(extra)
    t0 = time.time()
    try:
        def lim(): resource.setrlimit(resource.RLIMIT_AS, (12 << 30, 12 << 30))
        r = subprocess.run(cmd, stdout=subprocess.PIPE, stderr=subprocess.STDOUT, text=True, timeout=int(h.get('timeout', '300')), preexec_fn=lim)
        out = r.stdout; rc = r.returncode
    except subprocess.TimeoutExpired as e:
        out = (e.stdout or b'').decode() if isinstance(e.stdout, bytes) else (e.stdout or ''); rc = -9
    dt = time.time() - t0
    if 'VERIFICATION SUCCESSFUL' in out: verdict = 'SUCCESS'
    elif 'VERIFICATION FAILED' in out: verdict = 'FAILED'
    elif rc == -9: verdict = 'TIMEOUT'
    else: verdict = 'ERROR'
    return verdict, out, dt, ' '.join(cmd[:1] + ['<harness>'] + cmd[2:])

def failed_props(out):
    return [m.group(1).strip() for m in re.finditer(r'^\[.*?\]\s+(.*?): FAILURE$', out, re.M)]

def run_harness(pid, cfile, h, mod, roots, tag=None):
    """one CBMC run of the harness plus its -DWITNESS twin (whose final assert(0) must FAIL: the harness reaches its end)"""
    res = []; name = 'bp/' + h['name']; key = h.get('key', pid + '/bp/' + h['name'])
    gendir, genp = gen_c(mod, roots, tag or pid)
    v, out, dt, cmd = cbmc(cfile, gendir, h)
    smp = {'obligation': name, 'cbmc': cmd, 'unwind': h.get('unwind', '3'), 'result': v}
    if v == 'SUCCESS':
        res.append(ob(name, 'discharged', backend='BP', solver_s=dt, key=key, detail='cbmc: VERIFICATION SUCCESSFUL (unwind %s, unwinding assertions on)' % h.get('unwind', '3'), sample=smp, solver='cbmc'))
    elif v == 'FAILED':
        fp = failed_props(out); unw = [f for f in fp if 'unwinding assertion' in f]
        if unw and len(unw) == len(fp):
            res.append(ob(name, 'undecided', backend='BP', solver_s=dt, key=key, detail='unwinding bound %s too small: %s' % (h.get('unwind'), unw[:2]), solver='cbmc'))
        else:
            model = parse_trace(out); model['failed'] = [f for f in fp if 'unwinding' not in f][:4]; model['harness'] = h['name']
            res.append(ob(name, 'candidate', backend='BP', solver_s=dt, key=key, model=model, detail='cbmc: ' + '; '.join(model['failed'])[:300], sample=smp, solver='cbmc'))
    else:
        res.append(ob(name, 'undecided' if v == 'TIMEOUT' else 'broken', backend='BP', solver_s=dt, key=key, detail='cbmc %s: %s' % (v, out[-600:].replace('\n', ' | ')), solver='cbmc'))
    if v in ('SUCCESS', 'FAILED'):
        wv, wout, wdt, _ = cbmc(cfile, gendir, h, witness=True)
        wf = failed_props(wout)
        ok = (wv == 'FAILED' and any('witness' in f for f in wf))
        res.append(ob('witness/' + name, 'discharged' if ok else ('undecided' if wv == 'TIMEOUT' else 'broken'), backend='BP', solver_s=wdt, key=key + '/witness',
                      detail='-DWITNESS twin: %s (the end of the harness is reachable)' % wv if ok else 'VACUOUS or unreachable harness end: witness run gave %s %s' % (wv, wf[:3]), solver='cbmc'))
    return res

def build_tv_so(mod, roots, tag):
    """gcc build of the generated C (real libm, settable callbacks) for translator validation against the native g++ build"""
    gendir, genp = gen_c(mod, roots, tag)
    key = hashlib.sha256(open(genp, 'rb').read() + open(os.path.join(VERIF, 'harness', 'bp_env.h'), 'rb').read()).hexdigest()[:20]
    so = os.path.join(front.CACHE, 'tv_' + key + '.so')
    if not os.path.exists(so):
        os.makedirs(front.CACHE, exist_ok=True)
        r = subprocess.run(['gcc', '-O0', '-w', '-shared', '-fPIC', '-I', os.path.join(VERIF, 'harness'), genp, '-o', so + '.tmp', '-lm'], stdout=subprocess.PIPE, stderr=subprocess.STDOUT, text=True)
        if r.returncode != 0: raise RuntimeError('gcc on generated C failed: ' + r.stdout[-2000:])
        os.rename(so + '.tmp', so)
    return so
