#!/bin/sh
# development: like try_seed.sh but on a scratch worktree (VERIF_REPO), /repo is not touched:  tools/try_seed2.sh <patch> <check> [args]
P="$1"; C="$2"; shift 2
S=/var/tmp/repo-scratch
[ -d $S ] || git -C /repo worktree add --detach $S HEAD >/dev/null 2>&1
git -C $S checkout -q -- . ; git -C $S apply "$P" || { echo "PATCH DOES NOT APPLY"; exit 3; }
cd /verif
OUT=$(VERIF_REPO=$S ./check "$C" "$@" 2>&1); RC=$?
git -C $S checkout -q -- .
echo "== $C rc=$RC: $(echo "$OUT" | grep -c '^VIOLATION') violation keys; $(echo "$OUT" | grep -m1 "^$C tier")"
echo "$OUT" | grep "^  violated\|BROKEN\|UNDECIDED" | cut -c1-300 | head -6
