HOOKS = {'guard': 'LIBPHYSICA_VERIF', 'enable': 'observation-only hooks; the native replay build (g++ -O2 -DLIBPHYSICA_VERIF -DVERIF_NATIVE, engine/front.py native_so) compiles them in, the symbolic encoding (clang++-14 IR) is generated with the guard off; private state is otherwise reached with -fno-access-control in the harness TUs',
         'baseline_off_cmd': 'cmake -G Ninja -B /repo/_build -S /repo >/dev/null && cmake --build /repo/_build >/dev/null && ctest --test-dir /repo/_build -j8 --timeout 900',
         'source_commits': ['cdcc148'], 'add_only': True}
NOTES = 'Every verdict is bounded (sizes, unrollings, iteration counts stated in evidence/<id>.json coverage.bounds); EA = exact real arithmetic, says nothing about rounding. See DESIGN.md.'
EA = 'symbolic execution of clang-14 LLVM IR of the real functions (own interpreter, doubles as exact reals) + z3 SMT queries per obligation; counterexamples replayed on the native g++ build'
CHECKS = {
 'C01': {'text': 'Bounded symbolic proof on the real code: the real Interpolation constructor establishes the representation invariant I (knot values, value and C1 continuity, Steffen limiter facts) for all real tables with N in the bound; '
                 'the real Interpolate/Derivative, from every cache state, return the located segment cubic and its formal derivatives, stay between the tabulated values and are monotone under I; line and parabola data are reproduced; '
                 'Interpolation_2D returns node values, stays within the four corners, is continuous across edges and reproduces bilinear functions. Holds for all real inputs inside the bounds; rounding is not covered.',
         'note': 'Trusted: clang++-14 -O1 lowering, own IR interpreter (validated each run against the native g++ -O2 build on concrete tables), z3; doubles modelled as exact reals; N<=5 (quick) / N<=7 (thorough), grids up to 3x4 / 4x4.',
         'technique': EA},
}
CHECKS['C09'] = {'text': 'One inductive step over the cache: the real Interpolation::Locate (Hunt and Bisection inlined) is executed symbolically from every cache state (jLast, correlated_calls) with symbolic abscissae and query point; '
   'every returning path yields a bracket-correct index, equal to the fresh-object result off the knots (neighbouring segment at a knot), and leaves a valid cache, so histories of any length are covered by induction. '
   'Interpolate/Derivative/Integrate/Local_Minimum/Local_Maximum and the 2D Interpolate yield structurally identical result terms from every cache state and from the fresh state (hence bit-identical doubles); '
   'Set_Prefactor/Multiply write only the prefactor, copy-assignment copies every field.',
   'note': 'Bounds: N<=12 (quick) / N<=32 (thorough) for Locate, N<=5 / N<=7 for the queries, 3x3 / 4x4 grids. Exact real arithmetic (comparisons are exact in IEEE too; the tolerance product 1e-2*h is the only rounded operation). Trusted: clang lowering, interpreter (validated vs native on all cache states of two tables each run), z3.',
   'technique': EA}
CHECKS['C08'] = {'text': 'Bounded symbolic proof on the real Interpolation::Integrate, Local_Minimum/Maximum, Global_Minimum/Maximum and Interpolation_2D::Global_*: on an object with free symbolic tables, coefficients and prefactor, '
   'every returning path of Integrate equals the exact integral of the located segment cubics (checker-built antiderivative), its formal derivative in the upper limit is the interpolant, it vanishes for equal limits and is antisymmetric; '
   'the extremum functions return exactly the min/max over the curve values at the limits and prefactor*knot values inside, for a prefactor of either sign (set by Set_Prefactor and Multiply).',
   'note': 'N in {3,4} quick, <=6 thorough; 3x3 (quick) to 4x4 grids; exact real arithmetic. That the min/max over limits and interior knots is the extremum of the curve rests on C01 (monotone between knots). Two genuine defects found by this check were repaired in /repo (fix: commits ce707d1, 1135743).',
   'technique': EA}
CHECKS['C04'] = {'text': 'Every public Vector/Matrix operation is executed symbolically through its real member function, operator and free-operator spelling for every shape tuple up to the bound with symbolic entries: '
   'it returns exactly when the shapes conform (otherwise the process exits after a diagnostic, with no out-of-bounds access on the way), each result entry equals its definition, compound assignment equals the binary form, '
   '(AB)^T = B^T A^T (bit-identical up to commutativity), (A^T)^T = A (identical symbols), A*I = I*A = A, matrix-vector/vector-matrix/outer/dot/cross products, scalar product/division, Trace, Norm, predicates, Sub_Matrix, Return_/Delete_ Row/Column, brackets, diagonal and block constructors.',
   'note': 'All shapes with dimensions 1..3 (quick) / 1..4 (thorough), block constructor with 2x2 blocks of shapes <=2; entries are exact reals. Two genuine defects found by this check were repaired in /repo (fix: commits 07a8a28, d8c04f6).',
   'technique': EA}
CHECKS['C05'] = {'text': 'Real Matrix::Determinant (cofactor recursion through Sub_Matrix/Delete_Row/Delete_Column) is executed on symbolic entries and proved equal to the Leibniz polynomial (n<=4 quick, 5 thorough), with transpose invariance, row-swap sign, triangular and multiplicative corollaries through the real code (n<=3); '
   'Invertible <=> det != 0; on every returning path of the real Gauss-Jordan Inverse (all pivot-order paths), X*M = I entrywise (n<=3) and M*X = I (n<=2 quick, n=3 thorough) as rational identities, every divisor non-zero, and every exit path implies det = 0 (totality: no invertible matrix is rejected); non-square input exits after a diagnostic.',
   'note': 'Exact real arithmetic: the kappa*n*eps accuracy clause is not decided. Identity obligations use the minimal sound hypotheses (executed divisors non-zero), z3 nlsat. The totality obligation found a genuine defect (no pivoting), repaired in /repo by a fix: commit.',
   'technique': EA}
CHECKS['C16'] = {'text': 'Real Rotation_Matrix(alpha,2), Rotation_Matrix(alpha,3,axis) and both Spherical_Coordinates overloads executed with sin/cos replaced by arbitrary pairs (s,c), s^2+c^2=1, and a symbolic non-zero axis of any length (norm through a square-root witness): '
   'R^T R = I, det R = 1, R n = n, R v = c v + s (n^ x v) for v perpendicular to n, R(a)R(b) = R(a+b) through the real matrix product (addition formulas supplied for the third angle), wrong dim / axis size rejected; '
   'spherical vector = (r sin cos, r sin sin, r cos), with axis: norm r, polar angle theta from the axis, d/dphi = n^ x u (right-handed), for axes generic, parallel and antiparallel to z; every divisor non-zero and every sqrt argument non-negative for every non-zero axis.',
   'note': 'Exact reals; theta in [0,pi] enters as sin(theta) >= 0; accuracy near the poles (cancellation) is not decided. The division-by-zero obligation found the antiparallel-axis NaN, repaired in /repo by a fix: commit.',
   'technique': EA}
CHECKS['C15'] = {'text': 'Real QR_Decomposition (Householder_Matrix, block-matrix constructor, Sub_Matrix, matrix products) executed on a symbolic non-singular matrix, every sign path: Q^T Q = I, Q R = M, R upper triangular as algebraic identities with square roots as witnesses, all divisors non-zero '
   '(n<=2 quick, n=3 thorough under a cap). Reachability query: for a symmetric (diagonal) matrix and an exact eigenvalue the exit() inside the inverse iteration is reachable - reported as the known finding below and replayed through Eigensystem.',
   'note': 'Convergence/termination of the QR iteration and of the inverse iteration, and therefore the spectrum clauses of Eigenvalues/Eigensystem, are NOT decided (data-dependent iteration counts; DESIGN.md 1.8). One known finding (not a small fix) is listed in known_findings.json.',
   'technique': EA}
BOTH = 'symbolic execution of clang-14 LLVM IR of the real functions: own interpreter with exact reals + z3 (EA) and IR->C translation checked by CBMC on IEEE doubles with unwinding assertions (BP); counterexamples replayed on the native g++ build'
CHECKS['C02'] = {'text': 'Real Find_Root with the user function uninterpreted, all paths up to K Ridder iterations from entry (K=2 quick, 3 thorough): the process exits only when F(lo)*F(hi) > 0 and after a diagnostic; every evaluation point and the returned value lie in the closed bracket; a zero bracket end is returned as is; '
   'both orders of the ends give identical result terms; linear functions return -nu/mu exactly within 4 evaluations; every divisor and sqrt argument is valid. CBMC on the IR-derived C decides the entry logic for ALL double pairs of end values: NaN end => exit after diagnostic, same strict sign => exit, zero end returned, opposite strict signs => the Ridder branch is entered.',
   'note': 'The accuracy clause (sign change within xAccuracy of the result) is NOT decided (z3 unknown; DESIGN.md C02.7), nor behaviour beyond K iterations. The BP obligation found the underflow defect, repaired in /repo by a fix: commit.',
   'technique': BOTH}
NOT_APPLICABLE = {}
