#!/usr/bin/env python3
"""regenerates MANIFEST.json from tools/manifest_src.py (kept as code so that it stays valid and consistent)"""
import json, os, sys
HERE = os.path.dirname(os.path.abspath(__file__)); VERIF = os.path.dirname(HERE)
sys.path.insert(0, HERE)
import manifest_src as M
props = [json.loads(l)['id'] for l in open(os.path.join(VERIF, 'properties.jsonl'))]
checks = []
for pid in props:
    if pid not in M.CHECKS: continue
    c = M.CHECKS[pid]
    checks.append({
        'property_id': pid, 'quick_cmd': './check %s --tier quick' % pid, 'thorough_cmd': './check %s --tier thorough' % pid,
        'evidence_file': 'evidence/%s.json' % pid, 'replay_cmd_template': './check %s --replay {path}' % pid, 'engine': 'libphysica-symex',
        'level_claimed': {'category': 'other', 'text': c['text'], 'design_ref': c.get('ref', 'DESIGN.md section 2/' + pid)},
        'level_note': c['note'], 'technique': c['technique']})
na = [{'property_id': pid, 'reason': M.NOT_APPLICABLE.get(pid, 'check not built yet in this session; see DESIGN.md')} for pid in props if pid not in M.CHECKS]
man = {'version': 1, 'setup_cmd': './setup.sh', 'hooks': M.HOOKS,
       'engines': [{'name': 'libphysica-symex', 'path': 'engine/', 'serves_properties': [c['property_id'] for c in checks],
                    'kind_free_text': 'clang++-14 LLVM IR of /repo regenerated per run -> own symbolic interpreter (exact reals, z3) and IR->C->CBMC (bit-precise); solver verdict per obligation; native replay of counterexamples'}],
       'checks': checks, 'not_applicable': na, 'notes': M.NOTES}
json.dump(man, open(os.path.join(VERIF, 'MANIFEST.json'), 'w'), indent=1)
print('MANIFEST.json: %d checks, %d not_applicable' % (len(checks), len(na)))
