#!/usr/bin/env python3
"""development: apply every seeded change to /repo in turn (git apply ... / git checkout -- .), run the checks expected to flag it (the property's own check when none is expected),
   and write seeded/SWEEP.json + seeded/SWEEP.md.  /repo is restored after every change, also on interruption."""
import glob, json, os, re, signal, subprocess, sys, time
only = sys.argv[1:]
def restore(*a):
    subprocess.call(['git', '-C', '/repo', 'checkout', '--', '.']); subprocess.call(['git', '-C', '/repo', 'reset', '-q'])
    if a: sys.exit(3)
signal.signal(signal.SIGINT, restore); signal.signal(signal.SIGTERM, restore)
if subprocess.call(['git', '-C', '/repo', 'diff', '--quiet']): sys.exit('/repo has local changes')
out = json.load(open('/verif/seeded/SWEEP.json')) if os.path.exists('/verif/seeded/SWEEP.json') else {}
for d in sorted(glob.glob('/verif/seeded/C*-*')):
    m = json.load(open(d + '/meta.json')); sid = m['id']
    if only and sid not in only: continue
    checks = m['expected_flagged_by'] or [m['property']]
    if subprocess.call(['git', '-C', '/repo', 'apply', d + '/patch.diff']): out[sid] = {'error': 'patch does not apply'}; continue
    rows = []
    try:
        for c in checks:
            t0 = time.time()
            try: p = subprocess.run(['/verif/check', c], capture_output=True, text=True, timeout=1800); txt = p.stdout + p.stderr; rc = p.returncode
            except subprocess.TimeoutExpired: txt = ''; rc = 'timeout'
            keys = sorted(set(re.findall(r'violated: key=(\S+)', txt)))
            rows.append({'check': c, 'rc': rc, 'violation_lines': txt.count('\nVIOLATION ') + txt.startswith('VIOLATION '), 'keys': keys, 'wall_s': round(time.time() - t0)})
            print(sid, c, 'rc=%s' % rc, keys, '%ds' % (time.time() - t0), flush=True)
    finally: restore()
    out[sid] = {'property': m['property'], 'expected': m['expected_flagged_by'], 'runs': rows, 'flagged': any(r['rc'] == 1 and r['violation_lines'] for r in rows)}
    json.dump(out, open('/verif/seeded/SWEEP.json', 'w'), indent=1)
with open('/verif/seeded/SWEEP.md', 'w') as f:
    f.write('| change | property | run | exit | violated keys | s |\n|---|---|---|---|---|---|\n')
    for sid in sorted(out):
        for r in out[sid].get('runs', []): f.write('| %s | %s | ./check %s | %s | %s | %s |\n' % (sid, out[sid]['property'], r['check'], r['rc'], ', '.join(r['keys']) or '-', r['wall_s']))
print('flagged %d of %d' % (sum(1 for v in out.values() if v.get('flagged')), len(out)))
