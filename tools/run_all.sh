#!/bin/sh
# development: run every registered check (quick tier unless $1 = thorough) on the current /repo tree, one line per check
cd "$(dirname "$0")/.."
T=${1:-quick}
for c in $(python3 -c "import json;print(' '.join(x['property_id'] for x in json.load(open('MANIFEST.json'))['checks']))"); do
  s=$(date +%s); OUT=$(./check $c --tier $T 2>&1); RC=$?
  echo "$c rc=$RC $(( $(date +%s)-s ))s $(echo "$OUT" | grep -m1 "^$c tier" | cut -d' ' -f3-) $(echo "$OUT" | grep -c '^VIOLATION\|^BROKEN') alarms"
  echo "$OUT" | grep "^KNOWN-FINDING\|^VIOLATION\|^BROKEN" | cut -c1-200 | head -3
done
