#!/bin/sh
# development tool: tools/try_seed.sh <patch.diff> <check-id> [extra check args...]   applies a seeded change to /repo, runs the check, ALWAYS restores /repo
P="$1"; C="$2"; shift 2
cd /repo || exit 2
git diff --quiet || { echo "/repo has local changes"; exit 2; }
restore() { git -C /repo checkout -- . ; git -C /repo reset -q; }
trap restore EXIT INT TERM
git apply "$P" 2>/dev/null || git apply --3way "$P" 2>/dev/null || { echo "PATCH DOES NOT APPLY: $P"; exit 3; }
cd /verif
OUT=$(./check "$C" "$@" 2>&1); RC=$?
echo "== $C rc=$RC: $(echo "$OUT" | grep -c '^VIOLATION') violation keys; $(echo "$OUT" | grep -m1 "^$C tier")"
echo "$OUT" | grep "^  violated\|BROKEN" | cut -c1-300 | head -5
