#!/bin/sh
# development tool: tools/try_seed.sh <patch.diff> <check-id>...   applies a seeded change to /repo, runs the checks, restores /repo
P="$1"; shift
cd /repo || exit 2
git diff --quiet || { echo "/repo has local changes"; exit 2; }
git apply "$P" 2>/dev/null || git apply --3way "$P" 2>/dev/null || { echo "PATCH DOES NOT APPLY: $P"; git checkout -- . ; exit 3; }
cd /verif
for c in "$@"; do
  OUT=$(./check "$c" 2>&1); RC=$?
  echo "== $c rc=$RC: $(echo "$OUT" | grep -c '^VIOLATION') violation keys; $(echo "$OUT" | grep -m1 "^$c tier")"
  echo "$OUT" | grep "^  violated" | cut -c1-260 | head -4
done
git -C /repo checkout -- . ; git -C /repo reset -q
