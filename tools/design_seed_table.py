#!/usr/bin/env python3
"""development: regenerate the seeded-change table of DESIGN.md (between the SEEDTABLE markers) from seeded/*/meta.json and seeded/SWEEP.json"""
import glob, json, os, re
rows = ['| change | what it needs to manifest | flagged by (last sweep: exit code, violated keys) | remark |', '|---|---|---|---|']
sw = json.load(open('/verif/seeded/SWEEP.json')) if os.path.exists('/verif/seeded/SWEEP.json') else {}
nf = 0; own = 0; n = 0
for d in sorted(glob.glob('/verif/seeded/C*-*')):
    m = json.load(open(d + '/meta.json')); n += 1
    need = m['needs_to_manifest'].replace('|', '/').replace('\n', ' ')
    if len(need) > 170: need = need[:167] + '...'
    r = sw.get(m['id'], {}); runs = r.get('runs', [])
    fl = '; '.join('%s: exit %s%s' % (x['check'], x['rc'], (' (' + ', '.join(x['keys'][:3]) + ')') if x['keys'] else '') for x in runs) or ', '.join(m['expected_flagged_by']) or '-'
    flagged = r.get('flagged', bool(m['expected_flagged_by']))
    if flagged: nf += 1; own += any(x['check'] == m['property'] and x['rc'] == 1 for x in runs) if runs else (m['property'] in m['expected_flagged_by'])
    else: fl = '**not flagged** (' + fl + ')'
    rows.append('| %s | %s | %s | %s |' % (m['id'], need, fl, m['note'].replace('|', '/')))
txt = '\n'.join(rows) + '\n\n%d of %d are flagged (%d by the check of the property itself). Changes that the first version of the checks missed were closed by adding the missing *obligation* (never by special-casing the input), as listed in the remark column. The ones that remain unflagged are outside what this technique decides here, for the reasons given; they are clauses that section 2 lists as not decided (convergence of transcendental iterations, iostream text I/O).\n' % (nf, n, own)
p = '/verif/DESIGN.md'; s = open(p).read()
s = re.sub(r'<!-- SEEDTABLE-BEGIN -->.*<!-- SEEDTABLE-END -->', lambda _: '<!-- SEEDTABLE-BEGIN -->\n' + txt + '<!-- SEEDTABLE-END -->', s, flags=re.S)
open(p, 'w').write(s); print('%d of %d flagged' % (nf, n))
