#!/bin/bash
# usage: confirm.sh <slot> <id/k> [<id/k> ...]
# Confirms seeded changes in a scratch worktree /var/tmp/wt-<slot> of /repo HEAD:
#   baseline demo PASS, patch applies, builds, full ctest passes, demo FAILs with the change.
SLOT=$1; shift
WT=/var/tmp/wt-$SLOT
OUT=/var/tmp/seeds/confirm
mkdir -p $OUT
git -C /repo worktree remove --force $WT 2>/dev/null
git -C /repo worktree add --detach $WT HEAD >/dev/null 2>&1 || exit 2
CM="cmake -G Ninja -B $WT/_build -S $WT -DFETCHCONTENT_SOURCE_DIR_GOOGLETEST=/usr/src/googletest -DFETCHCONTENT_FULLY_DISCONNECTED=ON -DCMAKE_BUILD_TYPE=RelWithDebInfo -DCMAKE_CXX_FLAGS=-Wno-error"
$CM >/dev/null 2>&1; cmake --build $WT/_build -j4 >/dev/null 2>&1 || { echo "baseline build failed"; exit 2; }
demo() { # demo.cpp -> exit status
  g++ -std=c++14 -O2 -I$WT/include -I$WT/_build/generated "$1" $WT/_build/src/libphysica.a -lconfig++ -o $WT/_build/demo_bin 2>$WT/_build/demo_build.log || { echo BUILD-ERR; return; }
  ( cd $WT/_build && timeout 600 ./demo_bin >/dev/null 2>&1; echo $? )
}
for S in "$@"; do
  D=/var/tmp/seeds/$S; TAG=$(echo $S | tr / _)
  R="seed=$S"
  git -C $WT checkout -q -- . ; git -C $WT reset -q
  cmake --build $WT/_build -j4 >/dev/null 2>&1
  R="$R demo_without=$(demo $D/demo.cpp)"
  if git -C $WT apply $D/patch.diff 2>/dev/null; then R="$R apply=clean"; elif git -C $WT apply --3way $D/patch.diff >/dev/null 2>&1; then R="$R apply=3way"; else echo "$R apply=FAILED" | tee $OUT/$TAG.txt; continue; fi
  git -C $WT reset -q
  git -C $WT diff > $OUT/$TAG.patch
  if cmake --build $WT/_build -j4 >$WT/_build/b.log 2>&1; then R="$R build=ok"; else echo "$R build=FAILED" | tee $OUT/$TAG.txt; continue; fi
  T=$(ctest --test-dir $WT/_build -j4 --timeout 900 2>&1 | grep -E "tests passed|tests failed" | head -1)
  if ! echo "$T" | grep -q "100% tests passed"; then T2=$(ctest --test-dir $WT/_build -j4 --timeout 900 2>&1 | grep -E "tests passed" | head -1); T="$T // rerun: $T2"; fi
  R="$R tests=[$T] demo_with=$(demo $D/demo.cpp)"
  echo "$R" | tee $OUT/$TAG.txt
done
git -C /repo worktree remove --force $WT
