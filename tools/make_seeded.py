#!/usr/bin/env python3
"""development: assemble /verif/seeded/<id>/ from the confirmed seeded changes (patch.diff, demo.cpp, meta.json).
   Source: the sub-agents' output stashed outside /verif plus my own confirmation log (tools/confirm_seed.sh)."""
import json, os, shutil, subprocess, sys
SRC = sys.argv[1] if len(sys.argv) > 1 else '/var/tmp/seeds'
HEAD = subprocess.check_output(['git', '-C', '/repo', 'rev-parse', '--short', 'HEAD'], text=True).strip()
# which registered checks are expected to flag the change (first = the property's own check), and what had to be strengthened for that
EXPECT = {
 'C01/1': (['C01'], ''), 'C01/2': (['C09'], 'needs a table of 9-12 knots: beyond the N <= 5 of C01, inside the N <= 12 of the Locate step in C09'),
 'C02/1': (['C02'], ''), 'C02/2': (['C02'], 'missed at first: the accuracy clause was not decided; added the per-run IVT characterisation (key C02/accuracy/first-iterate)'),
 'C03/1': (['C03'], ''), 'C03/2': (['C03'], ''), 'C04/1': (['C04'], ''), 'C04/2': (['C04'], ''),
 'C05/1': (['C05'], 'missed at first: added the multiplier-bound obligation (|multiplier| <= 1 with partial pivoting) and the native hook libphysica_verif_inverse_max_multiplier'), 'C05/2': (['C05'], ''),
 'C06/1': ([], 'NOT CAUGHT: Halley iteration of Inv_GammaP (12 steps through exp/log/lnGamma) - convergence of an iterative transcendental method is outside what the encoding decides'),
 'C06/2': (['C06'], 'missed at first: added the history-independence job (global-store trace, symbolic two-call comparison)'),
 'C07/1': (['C07'], ''), 'C07/2': (['C07', 'C06'], 'missed at first (needs more than 40 series iterations): added the inductive loop step (arbitrary loop state at the header) - the loop may leave only with a converged state'),
 'C08/1': (['C08'], ''), 'C08/2': (['C08'], 'missed at first: added the extrema-after-history job'),
 'C09/1': (['C09'], 'missed at first: added history jobs on real-constructor objects'), 'C09/2': (['C09'], 'missed at first: same'),
 'C10/1': (['C10'], 'missed at first: added the units-constructor job (x_dim symbolic)'), 'C10/2': (['C10', 'C04'], 'missed by C10 at first (square shapes only): added non-square index sweeps'),
 'C11/1': (['C11'], ''), 'C11/2': (['C11'], ''), 'C12/1': (['C12'], ''), 'C12/2': (['C12'], ''),
 'C13/1': (['C13'], 'missed at first: added the all-axes reversal obligation'), 'C13/2': (['C12'], 'flagged by C12 (the Gauss-Legendre rule it corrupts), not by C13 whose obligations take the rule as given'),
 'C14/1': (['C14'], 'symbolic candidate found from the start, native replay did not reproduce until it used the call shapes of the symbolic run'), 'C14/2': (['C14'], 'missed at first: added Vegas on an arbitrary valid grid'),
 'C15/1': (['C15'], ''), 'C15/2': (['C15'], 'missed at first: added the inductive step over the sweep loop of Eigenvalues (returns only when nearly triangular)'),
 'C16/1': (['C16'], ''), 'C16/2': (['C16'], 'symbolic candidate from the start; replay extended to the handedness of the frame'),
 'C17/1': (['C17'], 'missed at first: added the summation-of-the-tables job'), 'C17/2': (['C17'], ''),
 'C18/1': (['C18'], ''), 'C18/2': (['C18'], ''), 'C19/1': (['C19'], ''), 'C19/2': (['C19'], 'missed at first: added arbitrary positive weights'),
 'C20/1': (['C20'], 'missed at first (text import was declared not encodable): added an environment model of std::ifstream on an abstract file (lines / numbers) and the import-logic jobs'), 'C20/2': (['C20'], ''),
}
# third round (one more change per property, made against the repaired head by fresh sub-agents that were told the titles of the first two): filled in after the checks were run against them
EXPECT3 = {}
try: EXPECT3 = json.load(open(os.path.join(os.path.dirname(os.path.abspath(__file__)), 'seeded_round3.json')))
except Exception: pass
for k3, v3 in EXPECT3.items(): EXPECT[k3] = (v3[0], v3[1])
for key, (checks, note) in sorted(EXPECT.items()):
    if not os.path.exists(os.path.join(SRC, key, 'meta.json')): continue
    src = os.path.join(SRC, key); dst = os.path.join('/verif/seeded', key.replace('/', '-')); os.makedirs(dst, exist_ok=True)
    m = json.load(open(os.path.join(src, 'meta.json')))
    conf = open(os.path.join(SRC, 'confirm', key.replace('/', '_') + '.txt')).read().strip()
    pf = os.path.join(SRC, 'confirm', key.replace('/', '_') + '.patch')
    shutil.copy(pf if os.path.exists(pf) and os.path.getsize(pf) else os.path.join(src, 'patch.diff'), os.path.join(dst, 'patch.diff'))
    shutil.copy(os.path.join(src, 'demo.cpp'), os.path.join(dst, 'demo.cpp'))
    meta = {'id': key.replace('/', '-'), 'property': m['property'], 'title': m.get('title', ''), 'what_it_breaks': m.get('what_it_breaks', ''), 'needs_to_manifest': m.get('needs_to_manifest', ''), 'files': m.get('files', []),
            'applies_to': 'git -C /repo apply seeded/%s/patch.diff   (patch is the diff against /repo HEAD %s, the tree with all fix: commits)' % (key.replace('/', '-'), HEAD),
            'author': 'sub-agent with only the property text and a scratch worktree; its own commands: ' + str(m.get('commands_run', ''))[:1200],
            'confirmed_by_me': {'how': 'tools/confirm_seed.sh in a scratch git worktree of /repo HEAD under /var/tmp (removed afterwards): demo built and run against the unchanged library, patch applied, library and tests rebuilt (RelWithDebInfo), full ctest run (re-run once when the baseline-flaky test_Integration/TestIntegrate2DMC failed), demo built and run against the changed library',
                                'result': conf, 'meaning': 'demo_without=0: demonstration passes on the unchanged tree; tests=[100% ...]: the pinned suite passes with the change; demo_with=1: demonstration fails with the change'},
            'expected_flagged_by': checks, 'note': note}
    if key == 'C09/1': meta['confirmed_by_me']['result'] += '  // the only failing test in both runs was the baseline-flaky test_Integration (TestIntegrate2DMC, listed as flaky in BASELINE.json); six further ctest runs: 5 x 8/8, 1 x the same flaky failure; the change touches only Interpolation'
    json.dump(meta, open(os.path.join(dst, 'meta.json'), 'w'), indent=1)
print('seeded changes:', len(EXPECT))
