"""C17 - Scalar special functions and vector spherical harmonics (DESIGN.md section 2/C17)"""
from sf_common import *
import bp

EXPLANATION = ('C17: real Sign/StepFunction/Relative_Difference/Floats_Equal: consistency, symmetry and reflexivity with every divisor non-zero (EA) and, bit-precisely over all doubles, Sign/StepFunction consistency (CBMC); '
               'Round: odd, Round(0)=0, more than 7 digits rejected, and - with E = floor(log10|x|), T = 10^E as an abstract decade (axioms T > 0, 10^-E = 1/T, T <= |x| < 10 T) - within half a unit of the last digit, digit structure T*c*floor(10^(d-1) x/T + 1/2), monotone within a decade, for d = 1..7; Dawson_Integral: odd on both branches, and the polynomial branch (wherever the code takes it in 0 < x < 1) within 2e-7 of the alternating-series enclosure of the Dawson integral, and Erfi on that branch = exp(x^2) times a polynomial within 1e-6 (relative) of 2/sqrt(pi) times the enclosure; VSH coefficient tables with symbolic integer (l,m): selection structure (non-zero only for l_hat = l+-1 and the stated m_hat) and the sum rules sum |coef|^2 = 1 (Y) and = l(l+1) (Psi); component outside {0,1,2} rejected; summation of the tables in Vector_Spherical_Harmonics_Y/Psi with the scalar harmonics as symbols.')
BOUNDS = {'quick': {'vsh_lmax': 4}, 'thorough': {'vsh_lmax': 12}}
NOT_DECIDED = ['accuracy of the exp-sum branch of Dawson_Integral and Erfi, and of Inv_Erf (transcendental references; decided: the polynomial branch of Dawson_Integral, and Erfi on it, against the alternating-series enclosure, exp(x*x) exact)', "Round: idempotence, monotonicity ACROSS decades, and the effect of rounding in log10/pow near powers of ten (decided: half-unit accuracy, digit structure and monotonicity within a decade, with E = floor(log10|x|), 10^E as an abstract decade)", 'conjugation, tangentiality and gradient identities of the vector harmonics as identities of functions (need the scalar harmonics from boost; decided here: coefficient tables, selection and sum rules, and that the summation loops add exactly the table entries with |m_hat| <= l_hat for l <= vsh_lmax) and the sign conventions of the tables']
ASSUMPTIONS = ['EA: doubles exact reals, exp/log10/pow uninterpreted', 'VSH: l, m symbolic integers with l >= 1, |m| <= l; square roots via witnesses']

X, Y, T = z3.Real('x'), z3.Real('y'), z3.Real('tol')

def job_simple():
    res = []
    # Sign(x) and StepFunction
    _, ps = sf(1, X)
    for pi, p in enumerate(ps):
        if p.end is not None: res.append(prove('sign/returns[%d]' % pi, p.st.pc, z3.BoolVal(False), 10000, {'x': X, 'op': 1}, key='C17/sign', detail=str(p.end))); continue
        v = toR(p.ret); res.append(prove('sign/consistent[%d]' % pi, p.st.pc, z3.And(z3.Implies(X > 0, v == 1), z3.Implies(X == 0, v == 0), z3.Implies(X < 0, v == -1)), 10000, {'x': X, 'op': 1}, key='C17/sign'))
    _, ps = sf(2, X, Y)
    for pi, p in enumerate(ps):
        if p.end is not None: continue
        v = toR(p.ret); same = z3.Or(z3.And(X > 0, Y > 0), z3.And(X < 0, Y < 0), z3.And(X == 0, Y == 0))
        res.append(prove('sign2/value[%d]' % pi, p.st.pc, v == z3.If(same, X, -X), 10000, {'x': X, 'y': Y, 'op': 2}, key='C17/sign2'))
    _, ps = sf(3, X)
    for pi, p in enumerate(ps):
        if p.end is not None: continue
        res.append(prove('step/value[%d]' % pi, p.st.pc, toR(p.ret) == z3.If(X >= 0, 1, 0), 10000, {'x': X, 'op': 3}, key='C17/step'))
    # Relative_Difference: symmetric, non-negative, divisor non-zero unless both arguments vanish ... and then the property still asks Floats_Equal to be reflexive
    _, A = sf(5, X, Y); _, B = sf(5, Y, X)
    for pi, p in enumerate(A):
        for qi, q in enumerate(B):
            if p.end is not None or q.end is not None: continue
            so = z3.Solver(); so.add(*(p.st.pc + q.st.pc))
            if so.check() == z3.unsat: continue
            res.append(prove('relative-difference/symmetric[%d,%d]' % (pi, qi), p.st.pc + q.st.pc + [z3.Or(X != 0, Y != 0)], toR(p.ret) == toR(q.ret), 20000, {'x': X, 'y': Y, 'op': 5}, key='C17/relative-difference/symmetric'))
    # Floats_Equal: symmetric and reflexive for every finite a, with every division well defined
    for nm, args, mvx in (('reflexive', (X, X, T), {'x': X, 'y': X, 'tol': T, 'op': 6}),):
        _, ps = sf(6, *args, pre=[T > 0])
        for pi, p in enumerate(ps):
            mv = mvx
            if p.end is not None: res.append(prove('floats-equal/%s/returns[%d]' % (nm, pi), p.st.pc, z3.BoolVal(False), 10000, mv, key='C17/floats-equal/reflexive', detail=str(p.end))); continue
            res += divisor_obligations('floats-equal/%s[%d]' % (nm, pi), p.st, model_vars=mv, key='C17/floats-equal/reflexive')
            res.append(prove('floats-equal/%s/true[%d]' % (nm, pi), p.st.pc, toR(p.ret) == 1, 10000, mv, key='C17/floats-equal/reflexive'))
    _, A = sf(6, X, Y, T, pre=[T > 0]); _, B = sf(6, Y, X, T, pre=[T > 0])
    for pi, p in enumerate(A):
        for qi, q in enumerate(B):
            if p.end is not None or q.end is not None: continue
            so = z3.Solver(); so.add(*(p.st.pc + q.st.pc + [z3.Or(X != 0, Y != 0)]))
            if so.check() == z3.unsat: continue
            res.append(prove('floats-equal/symmetric[%d,%d]' % (pi, qi), p.st.pc + q.st.pc + [z3.Or(X != 0, Y != 0)], toR(p.ret) == toR(q.ret), 20000, {'x': X, 'y': Y, 'tol': T, 'op': 6}, key='C17/floats-equal/symmetric'))
            res.append(prove('floats-equal/definition[%d,%d]' % (pi, qi), p.st.pc + [z3.Or(X != 0, Y != 0)], (toR(p.ret) == 1) == (Abs(X - Y) < T * Max(Abs(X), Abs(Y))), 20000, {'x': X, 'y': Y, 'tol': T, 'op': 6}, key='C17/floats-equal/definition'))
    return res

def job_round():
    res = []
    for d in (1, 3, 7):
        _, P = sf(4, X, i=d, pre=[X > 0], resolve_selects=True); _, Q = sf(4, -X, i=d, pre=[X > 0], resolve_selects=True)
        for pi, p in enumerate(P):
            for qi, q in enumerate(Q):
                if p.end is not None or q.end is not None:
                    res.append(ob('round/digits%d/returns[%d,%d]' % (d, pi, qi), 'undecided', detail='%s / %s' % (p.end, q.end))); continue
                res.append(prove('round/digits%d/odd[%d,%d]' % (d, pi, qi), p.st.pc + q.st.pc, toR(q.ret) == -toR(p.ret), 20000, {'x': X, 'digits': d, 'op': 4}, key='C17/round/odd', sample=(d == 3)))
    # half-unit accuracy, digit structure and monotonicity within a decade: log10 / pow(10, .) enter only through E = floor(log10 |x|) and T = 10^E; with the exact-arithmetic facts
    # T > 0, 10^-E = 1/T, T <= |x| < 10 T as axioms the returned term is decided for every x of the decade and every decade at once
    from fractions import Fraction
    T, U, Yq = z3.Real('T'), z3.Real('invT'), z3.Real('y')
    def decade_term(t):
        subs = []; seen = set(); stack = [t]
        while stack:
            u_ = stack.pop()
            if u_.get_id() in seen: continue
            seen.add(u_.get_id()); stack.extend(u_.children())
            if z3.is_app(u_) and u_.decl().name() == 'pow' and u_.num_args() == 2 and z3.is_rational_value(u_.arg(0)) and u_.arg(0).numerator_as_long() == 10 and u_.arg(0).denominator_as_long() == 1 and 'log10' in str(u_.arg(1)):
                neg = str(z3.simplify(u_.arg(1))).lstrip().startswith(('-', '(-', '-1*')) or u_.arg(1).decl().kind() == z3.Z3_OP_UMINUS
                subs.append((u_, U if neg else T))
        return z3.substitute(t, *subs) if subs else t, len(subs)
    for d in range(1, 8):
        _, P = sf(4, X, i=d, pre=[X > 0], resolve_selects=True)
        live = [p for p in P if p.end is None]
        if len(live) != 1: res.append(ob('round/digits%d/decade-form' % d, 'undecided', detail='%d returning paths' % len(live))); continue
        r, nsub = decade_term(toR(live[0].ret)); c = Fraction(10.0 ** (-d + 1)); sc = 10 ** (d - 1)
        if nsub < 2 or 'log10' in str(r) or 'pow' in str(r): res.append(ob('round/digits%d/decade-form' % d, 'undecided', detail='result is not a term over 10^E and 10^-E: %s' % str(r)[:200])); continue
        ax = [T > 0, U * T == 1, T <= X, X < 10 * T]; slack = abs(c * sc - 1) * 10 + Fraction(1, 10 ** 15); half = (Fraction(1, 2 * sc) + slack)
        mvr = {'x': X, 'T': T, 'digits': d, 'op': 4, 'round_decade': 1}
        res.append(prove('round/digits%d/within-half-a-unit-of-the-last-digit' % d, ax, z3.And(r - X <= RV(half) * T, X - r <= RV(half) * T), 30000, mvr, key='C17/round/half-unit', sample=(d == 3)))
        res.append(prove('round/digits%d/stays-in-the-decade' % d, ax, z3.And(r >= T * RV(1 - slack), r <= 10 * T * RV(1 + slack)), 30000, mvr, key='C17/round/decade'))
        r2 = z3.substitute(r, (X, Yq))
        # x <= y implies x/T <= y/T (proved as its own obligation), handed to the monotonicity query as a lemma: with it the query is linear in the two scaled arguments
        res.append(prove('round/digits%d/scaling-is-monotone' % d, ax + [X <= Yq], X * U <= Yq * U, 30000, dict(mvr, y=Yq), key='C17/round/monotone', tactic='nra'))
        # monotone within a decade, in three small steps: (1) scaling is monotone (above); (2) the returned term is T * c * floor(10^(d-1) * (x/T) + 1/2), c > 0 the double 10^-(d-1); (3) floor(s p + 1/2) is monotone in p
        Pq, Qq = z3.Real('p'), z3.Real('q'); kx = z3.ToReal(z3.ToInt(sc * (X * U) + RV(0.5)))
        res.append(prove('round/digits%d/digit-structure' % d, ax, r == T * RV(c) * kx, 30000, mvr, key='C17/round/structure'))
        res.append(prove('round/digits%d/floor-step-is-monotone' % d, [Pq <= Qq], z3.ToInt(sc * Pq + RV(0.5)) <= z3.ToInt(sc * Qq + RV(0.5)), 30000, {'digits': d}, key='C17/round/monotone', detail='with the two obligations before: x <= y in one decade implies Round(x) <= Round(y)'))
    _, ps = sf(4, 0.0, i=3)
    ok = len(ps) == 1 and ps[0].end is None and ps[0].ret == 0.0
    res.append(ob('round/zero', 'discharged' if ok else 'candidate', key='C17/round/zero', model=None if ok else {'x': [0, 1], 'digits': 3, 'op': 4}, detail='Round(0) = %s' % (ps[0].ret if ps else None)))
    for d in (8, 9, 100):
        _, ps = sf(4, X, i=d, pre=[X != 0])
        ok = bool(ps) and all(p.end is not None and p.end.kind == 'exit' and any(e[0] == 'diag' for e in p.st.events) for p in ps)
        res.append(ob('round/digits%d-rejected' % d, 'discharged' if ok else 'candidate', key='C17/round/digits-rejected', model=None if ok else {'x': [3, 2], 'digits': d, 'op': 4}, detail=str([str(p.end) for p in ps])))
    for d in (1, 7):
        _, ps = sf(4, X, i=d, pre=[X != 0])
        ok = bool(ps) and all(p.end is None for p in ps)
        res.append(ob('round/digits%d-accepted' % d, 'discharged' if ok else 'candidate', key='C17/round/digits-accepted', model=None if ok else {'x': [3, 2], 'digits': d, 'op': 4}, detail=str([str(p.end) for p in ps])))
    return res

def job_dawson():
    res = []
    for region, pre in (('small', [X > 0, X < RV(0.2)]), ('large', [X >= RV(0.2), X < 2]), ('larger', [X >= 2, X < 4])):
        lim = Limits(max_paths=200, feas_ms=2000)
        _, P = sf(30, X, pre=pre, limits=lim, resolve_selects=True); _, Q = sf(30, -X, pre=pre, limits=lim, resolve_selects=True)
        n = 0
        for pi, p in enumerate(P):
            for qi, q in enumerate(Q):
                if p.end is not None or q.end is not None: continue
                so = z3.Solver(); so.set('timeout', 3000); so.add(*(p.st.pc + q.st.pc))
                if so.check() == z3.unsat: continue
                n += 1
                expax = [uf('exp')(e[2]) > 0 for s_ in (p.st, q.st) for e in s_.events if e[0] == 'math' and e[1] == 'exp']      # axiom: exp > 0 for the argument terms that occur
                res.append(prove('dawson/%s/odd[%d,%d]' % (region, pi, qi), p.st.pc + q.st.pc + expax, toR(q.ret) == -toR(p.ret), 60000, {'x': X, 'op': 30}, key='C17/dawson/odd'))
        if n == 0: res.append(ob('dawson/%s/pairs' % region, 'undecided', detail='no returning path pair: %s' % [str(p.end) for p in P + Q][:3]))
    # accuracy of the polynomial (Maclaurin) branch, wherever the code takes it in 0 < x < 1: the Maclaurin series of Dawson's integral
    # sum (-2)^k x^(2k+1)/(2k+1)!! alternates with decreasing terms for 0 < x < 1, hence S4 + t9 - t11 <= F(x) <= S4 + t9 with S4 the
    # exact four-term sum, t9 = 16 x^9/945, t11 = 32 x^11/10395.  Claim: on every returning path without a transcendental call the
    # returned polynomial stays within 2e-7 of that enclosure (the branch with exp() is not decided here).
    lim = Limits(max_paths=200, feas_ms=2000)
    _, P = sf(30, X, pre=[X > 0, X < 1], limits=lim, resolve_selects=True); n = 0
    S4 = X - RV(2) / 3 * X ** 3 + RV(4) / 15 * X ** 5 - RV(8) / 105 * X ** 7; t9 = RV(16) / 945 * X ** 9; t11 = RV(32) / 10395 * X ** 11; tol = z3.RealVal('2/10000000')
    for pi, p in enumerate(P):
        if p.end is not None or any(e[0] == 'math' for e in p.st.events): continue
        so = z3.Solver(); so.set('timeout', 3000); so.add(*p.st.pc)
        if so.check() == z3.unsat: continue
        n += 1; r = toR(p.ret)
        res.append(prove('dawson/series-accuracy[%d]' % pi, p.st.pc, z3.And(r - (S4 + t9) >= -tol, r - (S4 + t9 - t11) <= tol), 60000, {'x': X, 'op': 30}, key='C17/dawson/series-accuracy', tactic='nra'))
    if n == 0: res.append(ob('dawson/series-accuracy/paths', 'undecided', detail='no polynomial path in 0 < x < 1: %s' % [str(p.end) for p in P][:3]))
    # Erfi(x) = 2/sqrt(pi) exp(x^2) F(x): on every returning path whose only transcendental call is exp(x*x) the return must be E*g(x), linear in E = exp(x*x)
    # (E an uninterpreted positive term), and g within 1e-6 (relative) of c*F for every c in a 1e-25 enclosure of 2/sqrt(pi) and F in the alternating-series enclosure
    _, P = sf(31, X, pre=[X > 0, X < 1], limits=lim, resolve_selects=True); n = 0
    clo = z3.RealVal('11283791670955125738961589/10000000000000000000000000'); chi = z3.RealVal('11283791670955125738961590/10000000000000000000000000'); rel = z3.RealVal('1/1000000')
    Flo, Fhi = S4 + t9 - t11, S4 + t9
    for pi, p in enumerate(P):
        evs = [e for e in p.st.events if e[0] == 'math']
        if p.end is not None or len(evs) != 1 or evs[0][1] != 'exp': continue
        so = z3.Solver(); so.set('timeout', 3000); so.add(*p.st.pc)
        if so.check() == z3.unsat: continue
        n += 1; r = toR(p.ret); E = uf('exp')(evs[0][2]); g = z3.substitute(r, (E, z3.RealVal(1)))
        res.append(prove('erfi/series/linear-in-exp[%d]' % pi, p.st.pc, r == E * g, 20000, {'x': X, 'op': 31}, key='C17/erfi/series-accuracy'))
        res.append(prove('erfi/series-accuracy[%d]' % pi, p.st.pc + [evs[0][2] == X * X], z3.And(Flo > 0, g - chi * Fhi >= -rel * clo * Flo, g - clo * Flo <= rel * clo * Flo), 60000, {'x': X, 'op': 31}, key='C17/erfi/series-accuracy', tactic='nra'))
    if n == 0: res.append(ob('erfi/series-accuracy/paths', 'undecided', detail='no path with exp(x*x) as only transcendental call in 0 < x < 1: %s' % [str(p.end) for p in P][:3]))
    return res

L, M = z3.Int('l'), z3.Int('m')
LR, MR = z3.Real('lr'), z3.Real('mr')
def vsh(which, comp, dl, dm):
    outp = {}
    def out(st): outp['a'] = st.alloc(16); return outp['a']
    pre = [L >= 1, M <= L, M >= -L]
    _, ps = run('@verif_vsh', [which, comp, L, M, L + dl, M + dm, out], pre=pre, limits=Limits(feas_ms=3000))
    return ps, outp
def to_real_syms(t):
    return z3.substitute(t, (z3.ToReal(L), LR), (z3.ToReal(M), MR))
def job_vsh(which):
    res = []; nm = 'Y' if which == 0 else 'Psi'; total = z3.RealVal(0); hyp = [LR >= 1, MR <= LR, MR >= -LR]; okall = True
    for comp in (0, 1, 2):
        for dl in (-2, -1, 0, 1, 2):
            for dm in (-2, -1, 0, 1, 2):
                ps, outp = vsh(which, comp, dl, dm)
                live = [p for p in ps if p.end is None]
                nonzero_expected = dl in (-1, 1) and (dm in (-1, 1) if comp < 2 else dm == 0)
                for pi, p in enumerate(ps):
                    tag = 'vsh-%s/comp%d/dl%+d/dm%+d[%d]' % (nm, comp, dl, dm, pi)
                    if p.end is not None:
                        res.append(prove(tag + '/returns', p.st.pc, z3.BoolVal(False), 10000, {'which': which, 'comp': comp, 'dl': dl, 'dm': dm}, key='C17/vsh/returns', detail=str(p.end))); okall = False; continue
                    re_, im_ = p.st.load(outp['a'], 8, True), p.st.load(outp['a'] + 8, 8, True)
                    if not nonzero_expected:
                        ok = (not is_sym(re_)) and (not is_sym(im_)) and re_ == 0.0 and im_ == 0.0
                        res.append(ob(tag + '/zero', 'discharged' if ok else 'candidate', key='C17/vsh/selection', model=None if ok else {'which': which, 'comp': comp, 'dl': dl, 'dm': dm}, detail='coefficient (%s,%s) outside the selection rule' % (re_, im_)))
                    else:
                        # |coef|^2 with the square-root witnesses replaced by their radicands
                        sq = toR(re_) * toR(re_) + toR(im_) * toR(im_)
                        for d in p.st.defs:
                            if d[0] == 'sqrt': hyp += [to_real_syms(d[1]) >= 0, to_real_syms(d[1]) * to_real_syms(d[1]) == to_real_syms(d[2])]
                        total = total + to_real_syms(sq)
                        # the (l-1) terms vanish identically when |m_hat| > l_hat: nothing to exclude, the radicand has the factor
                if len(live) != 1 and nonzero_expected: okall = False
    want = z3.RealVal(1) if which == 0 else LR * (LR + 1)
    if okall: res.append(prove('vsh-%s/sum-rule' % nm, hyp, total == want, 120000, {'which': which}, key='C17/vsh/sum-rule', tactic='nra', sample=True))
    else: res.append(ob('vsh-%s/sum-rule' % nm, 'undecided', detail='some coefficient call did not return on a single path'))
    # component index out of range is rejected
    for comp in (3, -1):
        _, ps = run('@verif_vsh', [which, comp & 0xffffffff, 2, 1, 3, 2, lambda st: st.alloc(16)])
        ok = bool(ps) and all(p.end is not None and p.end.kind == 'exit' for p in ps)
        res.append(ob('vsh-%s/component%d-rejected' % (nm, comp), 'discharged' if ok else 'candidate', key='C17/vsh/component-rejected', model=None if ok else {'which': which, 'comp': comp}, detail=str([str(p.end) for p in ps])))
    return res

TH, PH = z3.Real('theta'), z3.Real('phi')
def ylm_intercept():
    """the scalar harmonic Y_{l,m}(theta,phi) (boost) as one pair of symbols per (l,m): the assembly loops are decided for every value the scalar harmonics can take"""
    def f(it, args, st, depth):
        l, m = args[0], args[1]
        if is_sym(l) or is_sym(m): raise Unsupported('symbolic degree in Spherical_Harmonics')
        l = l - (1 << 32) if l >> 31 else l; m = m - (1 << 32) if m >> 31 else m
        return [(st, [z3.Real('Yre_%d_%d' % (l, m)), z3.Real('Yim_%d_%d' % (l, m))])]
    d = {'@_ZN10libphysica19Spherical_HarmonicsEiidd': f}
    for name in list(G['m'].funcs) + list(G['m'].decls):
        if name.startswith('@_ZN5boost4math6detail18spherical_harmonicI'): d[name] = f      # Spherical_Harmonics is inlined at -O1: its boost kernel is the call that remains
    return d
def job_vsh_sum(which, lmax):
    """summation of the coefficient tables: for every (l,m), l <= lmax, each Cartesian component of the real Vector_Spherical_Harmonics_Y/Psi is the sum over ALL (l_hat,m_hat) with |m_hat| <= l_hat of coefficient x Y_{l_hat,m_hat}"""
    res = []; nm = 'Y' if which == 0 else 'Psi'
    for l in range(0, lmax + 1):
        for m in range(-l, l + 1):
            tag = 'vsh-%s/assembly/l%d/m%+d' % (nm, l, m); outp = {}
            def out(st): outp['a'] = st.alloc(48); return outp['a']
            _, ps = run('@verif_vsh_vec', [which, l & 0xffffffff, m & 0xffffffff, TH, PH, out], intercept=ylm_intercept(), limits=Limits(feas_ms=2000, max_seconds=60))
            if len(ps) != 1 or ps[0].end is not None:
                res.append(ob(tag + '/returns', 'undecided', key='C17/vsh/assembly', detail=str([str(p.end) for p in ps][:3]))); continue
            st = ps[0].st; mv = {'which': which, 'l': l, 'm': m}
            for comp in range(3):
                wre, wim = z3.RealVal(0), z3.RealVal(0)
                for lh in (l - 1, l + 1):
                    for mh in (m - 1, m, m + 1):
                        if lh < 0 or abs(mh) > lh: continue
                        co = {}
                        def cout(st2): co['a'] = st2.alloc(16); return co['a']
                        _, cp = run('@verif_vsh', [which, comp, l & 0xffffffff, m & 0xffffffff, lh & 0xffffffff, mh & 0xffffffff, cout])
                        if len(cp) != 1 or cp[0].end is not None: raise Unsupported('coefficient call did not return')
                        cr, ci = cp[0].st.load(co['a'], 8, True), cp[0].st.load(co['a'] + 8, 8, True)
                        yr, yi = z3.Real('Yre_%d_%d' % (lh, mh)), z3.Real('Yim_%d_%d' % (lh, mh))
                        wre = wre + toR(cr) * yr - toR(ci) * yi; wim = wim + toR(cr) * yi + toR(ci) * yr
                gre, gim = st.load(outp['a'] + 16 * comp, 8, True), st.load(outp['a'] + 16 * comp + 8, 8, True)
                res.append(prove('%s/component%d' % (tag, comp), st.pc, z3.And(toR(gre) == wre, toR(gim) == wim), 10000, dict(mv, comp=comp), key='C17/vsh/assembly', sample=(l == 1 and m == 1 and comp == 0)))
    return res

def job_bp(h): return bp.run_harness('C17', 'C17.c', h, G['m'], ['verif_sf'])

def jobs(ctx):
    module(ctx)
    J = [(job_simple, ()), (job_round, ()), (job_dawson, ()), (job_vsh, (0,)), (job_vsh, (1,)), (job_vsh_sum, (0, BOUNDS[ctx.tier]['vsh_lmax'])), (job_vsh_sum, (1, BOUNDS[ctx.tier]['vsh_lmax']))]
    for h in bp.harnesses('C17.c', ctx.tier): J.append((job_bp, (h,)))
    return J

def validate(ctx):
    module(ctx); bad = []; n = 0
    for op, a, b, c, i in ((1, -2.5, 0, 0, 0), (2, 3.0, -1.0, 0, 0), (4, 123.456, 0, 0, 3), (4, -0.00098765, 0, 0, 2), (5, 1.0, 1.5, 0, 0), (6, 1.0, 1.0 + 1e-12, 1e-10, 0), (30, 0.1, 0, 0, 0), (30, 1.7, 0, 0, 0), (30, -3.3, 0, 0, 0), (31, 0.8, 0, 0, 0), (12, 4.5, 0, 0, 0), (16, 5.0, 2.0, 0, 0), (16, 1.0, 2.0, 0, 0)):
        _, ps = sf(op, float(a), float(b), float(c), i=i); r = nsf(ctx, op, a, b, c, i); n += 1
        if len(ps) != 1 or ps[0].end is not None or r['status'] != 'ok' or not (ps[0].ret == r['ret'] or abs(ps[0].ret - r['ret']) <= 1e-13 * abs(r['ret'])): bad.append('op %d(%r,%r): interp %s native %s' % (op, a, b, ps[0].ret if ps and ps[0].end is None else [str(p.end) for p in ps], r.get('ret', r['status'])))
    if bad: return [ob('translator-validation', 'broken', detail='; '.join(bad[:3]))]
    return [ob('translator-validation', 'discharged', backend='TV', detail='%d concrete special-function calls: interpreter == native' % n)]

def replay(ctx, o):
    m = o['model'] or {}; key = o['key']
    if o['backend'] == 'BP':
        if 'in_x' not in m: return False, 'no inputs in trace'
        x = m['in_x']; s1 = nsf(ctx, 1, x)['ret']; st = nsf(ctx, 3, x)['ret']
        want = 1.0 if x > 0 else (0.0 if x == 0 else -1.0)
        bad = (x == x) and (s1 != want or st != (1.0 if x >= 0 else 0.0))
        return bad, 'native Sign(%r)=%r StepFunction(%r)=%r' % (x, s1, x, st)
    if key.startswith('C17/vsh'):
        so = native(ctx); comp = m.get('comp', 0); which = m.get('which', 0)
        if key == 'C17/vsh/component-rejected':
            r = nat.call(so, 'verif_vsh', [('i32', which), ('i32', comp), ('i32', 2), ('i32', 1), ('i32', 3), ('i32', 2), ('dbl[]', [0.0, 0.0])], restype='void'); return r['status'] != 'exit', 'native: ' + r['status']
        if key == 'C17/vsh/assembly':
            # the assembled vector at a generic direction against scipy's scalar harmonics: Y = r_hat Y_lm; Psi = theta_hat dY/dtheta + phi_hat (i m / sin theta) Y (tangential)
            import cmath
            try:
                from scipy.special import sph_harm_y
                sph = lambda mm_, l_, az, pol: sph_harm_y(l_, mm_, pol, az)
            except ImportError:
                from scipy.special import sph_harm as sph
            l, mm = m['l'], m['m']; th, ph = 0.7, 0.3
            r = nat.call(so, 'verif_vsh_vec', [('i32', which), ('i32', l), ('i32', mm), th, ph, ('dbl[]', [0.0] * 6)], restype='void')
            if r['status'] != 'ok': return True, 'native Vector_Spherical_Harmonics(%d,%d): %s' % (l, mm, r['status'])
            v = [complex(r['arrays'][0][2 * i], r['arrays'][0][2 * i + 1]) for i in range(3)]
            Y = lambda t: complex(sph(mm, l, ph, t))
            rh = (math.sin(th) * math.cos(ph), math.sin(th) * math.sin(ph), math.cos(th)); tht = (math.cos(th) * math.cos(ph), math.cos(th) * math.sin(ph), -math.sin(th)); pht = (-math.sin(ph), math.cos(ph), 0.0)
            if which == 0: want = [rh[i] * Y(th) for i in range(3)]
            else:
                dY = (Y(th + 1e-5) - Y(th - 1e-5)) / 2e-5; want = [tht[i] * dY + pht[i] * 1j * mm / math.sin(th) * Y(th) for i in range(3)]
            err = max(abs(a - b) for a, b in zip(v, want))
            return err > 1e-7, 'native Vector_Spherical_Harmonics_%s(l=%d,m=%d,theta=0.7,phi=0.3) = %s, reference %s (max deviation %.3g)' % ('Y' if which == 0 else 'Psi', l, mm, v, want, err)
        # numeric sum rule / selection over l <= 6
        worst = 0.0; where = ''
        for l in range(1, 7):
            for mm in range(-l, l + 1):
                tot = 0.0
                for c in range(3):
                    for lh in range(l - 2, l + 3):
                        for mh in range(mm - 2, mm + 3):
                            if abs(mh) > lh or lh < 0: continue
                            r = nat.call(so, 'verif_vsh', [('i32', which), ('i32', c), ('i32', l), ('i32', mm), ('i32', lh), ('i32', mh), ('dbl[]', [0.0, 0.0])], restype='void')
                            v = r['arrays'][0]; s2 = v[0] ** 2 + v[1] ** 2; tot += s2
                            if s2 > 0 and not (lh in (l - 1, l + 1) and ((mh in (mm - 1, mm + 1)) if c < 2 else mh == mm)): worst = max(worst, s2); where = 'selection l=%d m=%d c=%d lh=%d mh=%d' % (l, mm, c, lh, mh)
                want = 1.0 if which == 0 else l * (l + 1.0)
                if abs(tot - want) > worst: worst = abs(tot - want); where = 'sum rule l=%d m=%d: %r vs %r' % (l, mm, tot, want)
        return worst > 1e-9, 'native coefficient tables: worst defect %.3g (%s)' % (worst, where)
    op = m.get('op')
    if op is None: return False, 'no model'
    x = fl(m.get('x', [0, 1])); y = fl(m.get('y', [0, 1])); tol = fl(m.get('tol', [1, 10 ** 10]))
    if key == 'C17/floats-equal/reflexive':
        r = nsf(ctx, 6, x, x, tol if tol > 0 else 1e-10); return (r['status'] != 'ok' or r['ret'] != 1.0), 'native Floats_Equal(%r,%r,%r) = %s' % (x, x, tol, r.get('ret', r['status']))
    if key.startswith('C17/round'):
        d = m.get('digits', 3); r1 = nsf(ctx, 4, x, i=d); r2 = nsf(ctx, 4, -x, i=d)
        if key == 'C17/round/digits-rejected': return r1['status'] != 'exit', 'native Round(%r,%d): %s' % (x, d, r1.get('ret', r1['status']))
        if key == 'C17/round/digits-accepted': return r1['status'] != 'ok', 'native Round(%r,%d): %s' % (x, d, r1['status'])
        if key == 'C17/round/zero': return r1.get('ret') != 0.0, 'native Round(0)=%s' % r1.get('ret')
        if key in ('C17/round/half-unit', 'C17/round/decade', 'C17/round/structure', 'C17/round/monotone'):
            # the model lives in one abstract decade (T stands for 10^E): natively the same clauses over mantissas in several decades, away from the powers of ten where rounding of log10 matters
            px = fl(m.get('x', [3, 2])) / (fl(m.get('T', [1, 1])) or 1.0); cands = sorted(set([min(max(px, 1.0001), 9.9998), 1.2345678, 2.5, 4.44445, 7.0000005, 9.49999, 9.96]))
            prev = None; worst = None
            for e in (-7, -1, 0, 3, 12):
                prev = None
                for mant in cands:
                    xx = mant * 10.0 ** e; r = nsf(ctx, 4, xx, i=d)
                    if r['status'] != 'ok': return True, 'native Round(%r,%d): %s' % (xx, d, r['status'])
                    unit = 10.0 ** (e - d + 1); dev = abs(r['ret'] - xx) / unit
                    if dev > 0.5 * (1 + 1e-6) or (prev is not None and r['ret'] < prev * (1 - 1e-15)): return True, 'native Round(%r,%d) = %r: %.6f units of the last digit away%s' % (xx, d, r['ret'], dev, '' if prev is None or r['ret'] >= prev else ', below Round of a smaller argument (%r)' % prev)
                    prev = r['ret']
            return False, 'native Round over %d mantissas x 5 decades, %d digits: within half a unit of the last digit and monotone' % (len(cands), d)
        return (r1.get('ret') != -r2.get('ret', 0)), 'native Round(%r,%d)=%s Round(%r,%d)=%s' % (x, d, r1.get('ret'), -x, d, r2.get('ret'))
    if key == 'C17/dawson/series-accuracy':
        from scipy.special import dawsn
        # the model is one point of the failing path; natively the neighbourhood up to the next power-of-two fraction is scanned too (the enclosure is tight, the worst point of the path lies at its upper end)
        worst = (0.0, x)
        for xx in [x] + [x + (1.0 - x) * k / 64.0 for k in range(1, 64)]:
            r = nsf(ctx, 30, xx)
            if r['status'] != 'ok': return True, 'native Dawson(%r): %s' % (xx, r['status'])
            if abs(xx) < 1 and abs(r['ret'] - float(dawsn(xx))) > worst[0]: worst = (abs(r['ret'] - float(dawsn(xx))), xx)
        r = nsf(ctx, 30, x); e0 = abs(r['ret'] - float(dawsn(x)))
        return e0 > 2e-7, 'native Dawson_Integral(%r) = %r, reference %r (error %.3g; worst on [x,1): %.3g at %r)' % (x, r['ret'], float(dawsn(x)), e0, worst[0], worst[1])
    if key == 'C17/erfi/series-accuracy':
        from scipy.special import erfi
        r = nsf(ctx, 31, x)
        if r['status'] != 'ok': return True, 'native Erfi(%r): %s' % (x, r['status'])
        ref = float(erfi(x)); e0 = abs(r['ret'] - ref) / abs(ref) if ref != 0 else abs(r['ret'])
        return e0 > 1e-6, 'native Erfi(%r) = %r, reference %r (relative error %.3g)' % (x, r['ret'], ref, e0)
    if key == 'C17/dawson/odd':
        r1 = nsf(ctx, 30, x); r2 = nsf(ctx, 30, -x); return r1.get('ret') != -r2.get('ret', 0), 'native Dawson(%r)=%s Dawson(%r)=%s' % (x, r1.get('ret'), -x, r2.get('ret'))
    r = nsf(ctx, op, x, y, tol); r2 = nsf(ctx, op, y, x, tol)
    if 'symmetric' in key: return r.get('ret') != r2.get('ret'), 'native op %d (%r,%r)=%s, swapped %s' % (op, x, y, r.get('ret'), r2.get('ret'))
    if key == 'C17/sign': return r.get('ret') != (1.0 if x > 0 else 0.0 if x == 0 else -1.0), 'native Sign(%r)=%s' % (x, r.get('ret'))
    if key == 'C17/sign2':
        same = (x > 0 and y > 0) or (x < 0 and y < 0) or (x == 0 and y == 0); return r.get('ret') != (x if same else -x), 'native Sign(%r,%r)=%s' % (x, y, r.get('ret'))
    if key == 'C17/step': return r.get('ret') != (1.0 if x >= 0 else 0.0), 'native StepFunction(%r)=%s' % (x, r.get('ret'))
    if key == 'C17/floats-equal/definition':
        want = 1.0 if abs(x - y) < tol * max(abs(x), abs(y)) else 0.0; return r.get('ret') != want, 'native Floats_Equal(%r,%r,%r)=%s, definition %r' % (x, y, tol, r.get('ret'), want)
    return False, 'no replay rule for ' + key

def fl(q): return q2f(q) if isinstance(q, list) else float(q)
