"""C12 - Gauss-Legendre rules are valid quadrature rules (DESIGN.md section 2/C12)"""
from num_common import *
from interp_common import ddx

EXPLANATION = ('C12: real Compute_Gauss_Legendre_Roots_and_Weights with cos() intercepted: the i-th initial guess is a symbol z_i constrained to be the i-th positive root of P_n (checker-built Legendre polynomial), so the Newton loop leaves after one pass ("assume converged"). '
               'Proved for each n in the bound: node/weight formulas (weight uses the formal derivative P_n\'), nodes increasing, inside (a,b), symmetric; weights positive, symmetric, sum b-a; exactness for degree <= 2n-1; reversed limits mirror the nodes and negate the weights; '
               'the three Integrate_Gauss_Legendre overloads agree; two successive calls with different limits do not influence each other; mismatched lengths exit.')
BOUNDS = {'quick': {'n': [1, 2, 3]}, 'thorough': {'n': [1, 2, 3, 4]}}
NOT_DECIDED = ['quality of the initial guess cos(pi(i+0.75)/(n+0.5)), Newton convergence and the 1e-14 stopping rule', 'orders beyond the bound', 'rounding']
ASSUMPTIONS = ['doubles exact reals', 'cos(.) of the i-th guess argument is replaced by the exact i-th positive root of P_n (0 for the middle node of odd n)', 'a != b symbolic']

A, B = z3.Real('a'), z3.Real('b')

def legendre(n, x):
    p0, p1 = z3.RealVal(1), x
    if n == 0: return p0
    for k in range(1, n): p0, p1 = p1, ((2 * k + 1) * x * p1 - k * p0) / (k + 1)
    return p1

def root_syms(n):
    m = (n + 1) // 2; zs = [z3.Real('glroot%d' % i) for i in range(m)]; cons = []
    for i, z in enumerate(zs):
        if n % 2 == 1 and i == m - 1: cons.append(z == 0)
        else: cons += [z3.simplify(legendre(n, z), som=True) == 0, z > 0, z < 1]
    for i in range(m - 1): cons.append(zs[i] > zs[i + 1])
    return zs, cons

def cos_intercept(n, zs):
    """k-th distinct argument of cos (descending guesses) -> z_k"""
    args = [math.pi * (i + 0.75) / (n + 0.5) for i in range(len(zs))]
    def h(it, a, st, depth):
        x = a[0]
        for k, t in enumerate(args):
            if isinstance(x, float) and abs(x - t) < 1e-9: return [(st, zs[k])]
        raise Unsupported('cos of unexpected argument %r' % (x,))
    return {'@cos': h, '@llvm.cos.f64': h}

def rule(n, a, b, extra_pre=()):
    zs, cons = root_syms(n)
    def mk(st): return st.alloc(8 * max(n, 1))
    outs = {}
    def r(st): outs['r'] = st.alloc(8 * n); return outs['r']
    def w(st): outs['w'] = st.alloc(8 * n); return outs['w']
    def sz(st): outs['s'] = st.alloc(4); return outs['s']
    it, paths = run('@verif_c12_rw', [n, a, b, r, w, sz], cos_intercept(n, zs), pre=cons + list(extra_pre), limits=Limits(max_paths=400, feas_ms=3000, max_seconds=200))
    live = [p for p in paths if p.end is None]
    res = []
    for p in live:
        roots = [toR(p.st.load(outs['r'] + 8 * i, 8, True)) for i in range(n)]; wts = [toR(p.st.load(outs['w'] + 8 * i, 8, True)) for i in range(n)]
        res.append((p, roots, wts))
    return zs, cons, paths, res

def job_newton_step(n):
    """inductive step over the Newton loop of the node computation: at its header the iterate z is replaced by an ARBITRARY value (z^2 != 1); one real iteration (Legendre recurrence, derivative, update) is executed.
       The back edge carries z - P_n(z)/P_n'(z) (closed-form Legendre polynomials as oracle); the loop is left only when that correction is at most 1e-13 in magnitude - the certificate behind 'exact to rounding'."""
    res = []; tag = 'newton-step/n%d' % n; Z0 = z3.Real('h_z'); info = {}
    fns = [k for k in G['m'].funcs if 'Compute_Gauss_Legendre_Roots_and_Weights' in k]
    if len(fns) != 1: return [ob(tag + '/function', 'broken', detail=str(fns))]
    f = G['m'].funcs[fns[0]]; heads = [b for b in loop_headers(f) if any(I.op == 'phi' and I.dest.lstrip('%').split('.')[0] == 'z' for I in f.blocks[b])]
    if len(heads) != 1: return [ob(tag + '/loop-state', 'undecided', key='C12/newton-step', detail='no unique loop header carrying z: %s' % heads)]
    def handler(it, f_, blk, regs, st):
        for I in f_.blocks[blk]:
            if I.op == 'phi' and I.dest.lstrip('%').split('.')[0] == 'z': regs[I.dest] = Z0; info['z'] = I.dest
        st.pc += [Z0 * Z0 != 1]
    zs = [z3.Real('glroot%d' % i) for i in range((n + 1) // 2)]
    _, paths = run('@verif_c12_rw', [n, A, B, lambda st: st.alloc(8 * n), lambda st: st.alloc(8 * n), lambda st: st.alloc(4)], cos_intercept(n, zs), pre=[A < B], limits=Limits(max_paths=400, feas_ms=3000, max_seconds=200), havoc={(fns[0], heads[0]): handler})
    Pn = legendre(n, Z0); Pm = legendre(n - 1, Z0); num = Pn * (Z0 * Z0 - 1); den = n * (Z0 * Pn - Pm)            # P_n / P_n' = num / den
    small = Abs(num) <= RV(1e-13) * Abs(den); mv = {'a': A, 'b': B, 'n': n, 'h_z': Z0, 'loop_step': 1}; nleave = nback = 0
    for pi, p in enumerate(paths):
        hyp = p.st.pc + alg_assumptions(p.st)
        be = [e for e in p.st.events if e[0] == 'backedge']
        if p.end is not None and p.end.kind == 'backedge' and not any(is_sym(be[-1][2][info['z']]) and be[-1][2][info['z']].eq(zz) for zz in zs):
            nback += 1; zn = toR(be[-1][2][info['z']])
            res.append(prove('%s/back-edge-is-the-newton-update[%d]' % (tag, pi), hyp + [den != 0], zn * den == Z0 * den - num, 60000, mv, key='C12/newton-step/update', tactic='nra', sample=(nback == 1)))
        elif p.end is None or p.end.kind == 'backedge':
            nleave += 1
            res.append(prove('%s/leaves-only-with-a-correction-below-1e-13[%d]' % (tag, pi), hyp + [den != 0], small, 60000, mv, key='C12/newton-step/exit', tactic='nra'))
        elif p.end.kind != 'cutoff':
            res.append(prove('%s/no-%s[%d]' % (tag, p.end.kind, pi), hyp, z3.BoolVal(False), 20000, mv, key='C12/newton-step/' + p.end.kind, detail=str(p.end)))
    res.append(ob(tag + '/coverage', 'discharged' if nleave and nback else 'broken', key='C12/coverage', detail='%d leaving, %d back-edge paths from the arbitrary iterate' % (nleave, nback)))
    return res
def Abs(x): return z3.If(x >= 0, x, -x)

def job_rule(n, orient):
    T1 = 60000 if n <= 3 else 20000; T2 = 120000 if n <= 3 else 30000      # n = 4 is attempted with short budgets: most of its queries are beyond nlsat within minutes and end undecided
    res = []; tag = 'rule/n%d/%s' % (n, orient)
    pre = [A < B] if orient == 'fwd' else [A > B]
    zs, cons, paths, rs = rule(n, A, B, pre)
    mv = {'a': A, 'b': B, 'n': n, 'z': zs}
    ended = [p for p in paths if p.end is not None]
    for pi, p in enumerate(ended[:3]):
        res.append(prove('%s/returns[%d]' % (tag, pi), p.st.pc, z3.BoolVal(False), 30000, mv, key='C12/rule/returns', detail=str(p.end), tactic='nra'))
    if not rs: return res + [ob(tag + '/reach', 'broken', detail='no returning path (%d paths)' % len(paths))]
    mid = (A + B) / 2; hw = (B - A) / 2; m = (n + 1) // 2
    for pi, (p, roots, wts) in enumerate(rs):
        hyp = cons + pre + alg_assumptions(p.st)
        res += divisor_obligations('%s/p%d' % (tag, pi), p.st, model_vars=mv, key='C12/rule/division-by-zero', timeout_ms=30000, tactic='nra')
        for i in range(m):
            z = zs[i]; dP = z3.simplify(ddx(z3.simplify(legendre(n, z), som=True), z), som=True)
            res.append(prove('%s/node[%d,%d]' % (tag, pi, i), hyp, z3.And(roots[i] == mid - hw * z, roots[n - 1 - i] == mid + hw * z), 30000, mv, key='C12/rule/node-formula', tactic='nra'))
            res.append(prove('%s/weight[%d,%d]' % (tag, pi, i), hyp, z3.And(wts[i] * ((1 - z * z) * dP * dP) == 2 * hw, wts[n - 1 - i] == wts[i]), T1, mv, key='C12/rule/weight-formula', tactic='nra', sample=(i == 0 and n == 2 and orient == 'fwd')))
        sgn_ = 1 if orient == 'fwd' else -1
        for i in range(n - 1):
            res.append(prove('%s/nodes-ordered[%d,%d]' % (tag, pi, i), hyp, (roots[i] < roots[i + 1]) if orient == 'fwd' else (roots[i] > roots[i + 1]), T1, mv, key='C12/rule/nodes-ordered', tactic='nra'))
        for i in range(n):
            lo, hi = (A, B) if orient == 'fwd' else (B, A)
            res.append(prove('%s/node-inside[%d,%d]' % (tag, pi, i), hyp, z3.And(lo < roots[i], roots[i] < hi), T1, mv, key='C12/rule/node-inside', tactic='nra'))
            res.append(prove('%s/weight-sign[%d,%d]' % (tag, pi, i), hyp, wts[i] * sgn_ > 0, T1, mv, key='C12/rule/weight-sign', tactic='nra'))
            res.append(prove('%s/symmetric[%d,%d]' % (tag, pi, i), hyp, z3.And(roots[i] + roots[n - 1 - i] == A + B, wts[i] == wts[n - 1 - i]), T1, mv, key='C12/rule/symmetric', tactic='nra'))
        for d in range(0, 2 * n):
            lhs = sum((wts[i] * roots[i] ** d if d else wts[i]) for i in range(n)); ex = (B ** (d + 1) - A ** (d + 1)) / (d + 1)
            res.append(prove('%s/exact-degree-%d[%d]' % (tag, d, pi), hyp, lhs == ex, T2, mv, key='C12/rule/exactness', tactic='nra'))
    return res

def job_mirror(n):
    """reversed limits: the rule is the mirror image with all weights negated"""
    res = []; tag = 'mirror/n%d' % n
    zs, cons, _, f = rule(n, A, B, [A < B]); _, _, _, g = rule(n, B, A, [A < B])
    if len(f) != 1 or len(g) != 1: return [ob(tag + '/paths', 'undecided', detail='%d / %d returning paths' % (len(f), len(g)))]
    hyp = cons + [A < B] + alg_assumptions(f[0][0].st) + alg_assumptions(g[0][0].st); mv = {'a': A, 'b': B, 'n': n, 'z': zs}
    for i in range(n):
        res.append(prove('%s/node[%d]' % (tag, i), hyp, g[0][1][i] == f[0][1][n - 1 - i], 60000, mv, key='C12/mirror', tactic='nra'))
        res.append(prove('%s/weight[%d]' % (tag, i), hyp, g[0][2][i] == -f[0][2][n - 1 - i], 60000, mv, key='C12/mirror', tactic='nra'))
    return res

def job_overloads(n):
    """Integrate_Gauss_Legendre(f,a,b,n) == sum w_i f(x_i) of the computed rule == the (f, rule) and (values, rule) overloads; a second call with other limits is unaffected by the first"""
    res = []; tag = 'overloads/n%d' % n
    zs, cons = root_syms(n); inter = dict(cos_intercept(n, zs)); inter.update(user_f())
    _, _, _, rs = rule(n, A, B, [A < B])
    if len(rs) != 1: return [ob(tag + '/rule', 'undecided', detail='%d rule paths' % len(rs))]
    p0, roots, wts = rs[0]; hyp = cons + [A < B] + alg_assumptions(p0.st); mv = {'a': A, 'b': B, 'n': n, 'z': zs}
    want = sum(F1(roots[i]) * wts[i] for i in range(n))
    _, ps = run('@verif_c12_gl_fab', [A, B, n], inter, pre=cons + [A < B], limits=Limits(max_paths=400, feas_ms=3000))
    live = [p for p in ps if p.end is None]
    for pi, p in enumerate(live): res.append(prove('%s/f-a-b-n[%d]' % (tag, pi), hyp + alg_assumptions(p.st), toR(p.ret) == want, 60000, mv, key='C12/overloads-agree', tactic=None))
    if not live: res.append(ob(tag + '/fab-reach', 'broken', detail=str([str(p.end) for p in ps][:3])))
    R = [z3.Real('r%d' % i) for i in range(n)]; W = [z3.Real('w%d' % i) for i in range(n)]; V = [z3.Real('v%d' % i) for i in range(n)]
    _, ps = run('@verif_c12_gl_frw', [n, lambda st: st.put_doubles(R), lambda st: st.put_doubles(W)], user_f())
    for pi, p in enumerate(ps):
        if p.end is not None: res.append(prove('%s/f-rule-returns[%d]' % (tag, pi), p.st.pc, z3.BoolVal(False), 10000, mv, key='C12/overloads-agree', detail=str(p.end))); continue
        res.append(prove('%s/f-rule[%d]' % (tag, pi), p.st.pc, toR(p.ret) == sum(F1(R[i]) * W[i] for i in range(n)), 30000, mv, key='C12/overloads-agree'))
        cs = [c[1][0] for c in calls(p.st)]
        ok = len(cs) == n and all(is_sym(c) and c.eq(R[i]) for i, c in enumerate(cs))
        res.append(ob('%s/f-rule-evaluates-at-nodes[%d]' % (tag, pi), 'discharged' if ok else 'candidate', key='C12/overloads-agree', model=None if ok else mv, detail='evaluation points %s' % cs))
    for nv in (n, n + 1, max(n - 1, 0)):
        vals = [z3.Real('v%d' % i) for i in range(nv)]
        _, ps = run('@verif_c12_gl_vrw', [nv, lambda st: st.put_doubles(vals) if vals else st.alloc(8), n, lambda st: st.put_doubles(R), lambda st: st.put_doubles(W)], {})
        for pi, p in enumerate(ps):
            if nv == n:
                if p.end is not None: res.append(prove('%s/values-rule-returns[%d]' % (tag, pi), p.st.pc, z3.BoolVal(False), 10000, mv, key='C12/overloads-agree', detail=str(p.end))); continue
                res.append(prove('%s/values-rule[%d]' % (tag, pi), p.st.pc, toR(p.ret) == sum(vals[i] * W[i] for i in range(n)), 30000, mv, key='C12/overloads-agree'))
            else:
                ok = p.end is not None and p.end.kind == 'exit' and any(e[0] == 'diag' for e in p.st.events)
                res.append(ob('%s/length-mismatch-%d-vs-%d-rejected[%d]' % (tag, nv, n, pi), 'discharged' if ok else 'candidate', key='C12/length-mismatch-rejected', model=None if ok else {'nv': nv, 'n': n}, detail=str(p.end)))
    # history: a first call with other limits leaves the second call unchanged
    A2, B2 = z3.Real('a2'), z3.Real('b2')
    it = Interp(G['m'], intercept=inter, limits=Limits(max_paths=400, feas_ms=3000)); st = it.new_state(); st.pc += cons + [A < B, A2 < B2]
    first = it.execute('@verif_c12_gl_fab', [A2, B2, n], st)
    for fi, fp in enumerate([q for q in first if q.end is None][:4]):
        it2 = Interp(G['m'], intercept=inter, limits=Limits(max_paths=400, feas_ms=3000)); it2.gaddr = it.gaddr
        second = it2.execute('@verif_c12_gl_fab', [A, B, n], fp.st.fork())
        for si, sp in enumerate(second):
            if sp.end is not None: res.append(prove('%s/history-returns[%d,%d]' % (tag, fi, si), sp.st.pc, z3.BoolVal(False), 20000, mv, key='C12/history', detail=str(sp.end))); continue
            res.append(prove('%s/history-independent[%d,%d]' % (tag, fi, si), hyp + sp.st.pc + alg_assumptions(sp.st), toR(sp.ret) == want, 60000, dict(mv, a2=A2, b2=B2), key='C12/history'))
    return res

def jobs(ctx):
    module(ctx); J = []
    for n in BOUNDS[ctx.tier]['n']:
        J += [(job_rule, (n, 'fwd')), (job_rule, (n, 'rev')), (job_mirror, (n,)), (job_overloads, (n,))]
        if n >= 2: J.append((job_newton_step, (n,)))
    J.sort(key=lambda j: -j[1][0])
    return J

def validate(ctx):
    module(ctx); so = native(ctx); bad = []; cnt = 0
    for n, a, b in ((4, -1.0, 1.0), (5, 0.0, 2.5), (3, 2.0, -1.0), (1, 0.0, 1.0), (8, -3.0, 0.5)):
        def r(st): r.a = st.alloc(8 * n); return r.a
        def w(st): w.a = st.alloc(8 * n); return w.a
        _, ps = run('@verif_c12_rw', [n, a, b, r, w, lambda st: st.alloc(4)], {})
        nr = nat.call(so, 'verif_c12_rw', [('u32', n), a, b, ('dbl[]', [0.0] * n), ('dbl[]', [0.0] * n), ('u32[]', [0])], restype='void'); cnt += 1
        if len(ps) != 1 or ps[0].end is not None or nr['status'] != 'ok': bad.append('rw n=%d: %s / %s' % (n, [str(p.end) for p in ps], nr['status'])); continue
        mine = [ps[0].st.load(r.a + 8 * i, 8, True) for i in range(n)] + [ps[0].st.load(w.a + 8 * i, 8, True) for i in range(n)]; theirs = nr['arrays'][0] + nr['arrays'][1]
        if any(abs(x - y) > 1e-13 * max(abs(x), abs(y), 1e-300) and abs(x - y) > 1e-15 for x, y in zip(mine, theirs)): bad.append('rw n=%d [%r,%r]: %s vs %s' % (n, a, b, mine, theirs))
    if bad: return [ob('translator-validation', 'broken', detail='; '.join(bad[:3]))]
    return [ob('translator-validation', 'discharged', backend='TV', detail='%d concrete rules (n up to 8, with the real cos and Newton loop): interpreter == native' % cnt)]

def replay(ctx, o):
    so = native(ctx); m = o['model'] or {}; key = o['key']
    n = m.get('n')
    if key == 'C12/length-mismatch-rejected':
        r = nat.call(so, 'verif_c12_gl_vrw', [('u32', m['nv']), ('dbl[]', [1.0] * max(m['nv'], 1)), ('u32', m['n']), ('dbl[]', [0.5] * m['n']), ('dbl[]', [1.0] * m['n'])])
        return r['status'] != 'exit', 'native Integrate_Gauss_Legendre(values[%d], rule[%d]): %s' % (m['nv'], m['n'], r.get('ret', r['status']))
    if m.get('loop_step'):
        # the model is an arbitrary Newton iterate, not an input: native confirmation = the computed nodes and weights on [-1,1] against numpy's Gauss-Legendre rule for several orders
        import numpy as np
        worst = (0.0, None)
        for k in (2, 3, 4, 5, 8, 16, 33):
            nr = nat.call(so, 'verif_c12_rw', [('u32', k), -1.0, 1.0, ('dbl[]', [0.0] * k), ('dbl[]', [0.0] * k), ('u32[]', [0])], restype='void')
            if nr['status'] != 'ok': return True, 'native rule computation (n=%d) ended: %s' % (k, nr['status'])
            xr, wr = np.polynomial.legendre.leggauss(k); e = max(max(abs(u - v) for u, v in zip(sorted(nr['arrays'][0]), xr)), max(abs(u - v) for u, v in zip(nr['arrays'][1], wr[np.argsort(np.argsort(nr['arrays'][0]))])))
            if e > worst[0]: worst = (e, k)
        return worst[0] > 1e-11, 'native Gauss-Legendre nodes/weights on [-1,1] against numpy: worst deviation %.3g (n = %s)' % (worst[0], worst[1])
    if n is None or 'a' not in m: return False, 'no model'
    a, b = q2f(m['a']), q2f(m['b'])
    if a == b: return False, 'degenerate interval in model'
    nr = nat.call(so, 'verif_c12_rw', [('u32', n), a, b, ('dbl[]', [0.0] * n), ('dbl[]', [0.0] * n), ('u32[]', [0])], restype='void')
    if nr['status'] != 'ok': return True, 'native rule computation ended: ' + nr['status']
    x, w = nr['arrays'][0], nr['arrays'][1]; sc = abs(b - a)
    if key == 'C12/history':
        f = lambda t: math.exp(0.3 * t) + t * t; a2, b2 = q2f(m['a2']), q2f(m['b2'])
        def pre(lib):
            import ctypes
            lib.verif_c12_gl_fab.restype = ctypes.c_double; lib.verif_c12_gl_fab(ctypes.c_double(a2), ctypes.c_double(b2), ctypes.c_uint(n))
        r1 = nat.call(so, 'verif_c12_gl_fab', [a, b, ('u32', n)], fcb=f, pre=pre); r0 = nat.call(so, 'verif_c12_gl_fab', [a, b, ('u32', n)], fcb=f)
        return r1.get('ret') != r0.get('ret'), 'native Integrate_Gauss_Legendre(f,%r,%r,%d) = %r after a call on [%r,%r]; fresh process: %r' % (a, b, n, r1.get('ret', r1['status']), a2, b2, r0.get('ret', r0['status']))
    worst = 0.0; what = ''
    def note(v, wh):
        nonlocal worst, what
        if v > worst: worst, what = v, wh
    note(abs(sum(w) - (b - a)) / sc, 'sum of weights %r vs b-a %r' % (sum(w), b - a))
    for d in range(2 * n):
        ex = (b ** (d + 1) - a ** (d + 1)) / (d + 1); got = sum(wi * xi ** d for wi, xi in zip(w, x)); s2 = max(abs(ex), sc * max(abs(a), abs(b), 1e-300) ** d, 1e-300)
        note(abs(got - ex) / s2, 'degree %d: %r vs %r' % (d, got, ex))
    for i in range(n):
        note(abs(x[i] + x[n - 1 - i] - (a + b)) / sc, 'nodes %d/%d not symmetric' % (i, n - 1 - i)); note(abs(w[i] - w[n - 1 - i]) / sc, 'weights not symmetric')
        if not (min(a, b) < x[i] < max(a, b)): note(1.0, 'node %r outside (a,b)' % x[i])
        if w[i] * (b - a) <= 0: note(1.0, 'weight %r has the wrong sign' % w[i])
    for i in range(n - 1):
        if (x[i + 1] - x[i]) * (b - a) <= 0: note(1.0, 'nodes not monotone')
    if 'overloads' in o['name']:
        f = lambda t: math.exp(0.3 * t) + t * t
        r1 = nat.call(so, 'verif_c12_gl_fab', [a, b, ('u32', n)], fcb=f); want = sum(wi * f(xi) for wi, xi in zip(w, x))
        if r1['status'] == 'ok': note(abs(r1['ret'] - want) / max(abs(want), 1e-300), 'Integrate_Gauss_Legendre(f,a,b,n)=%r vs rule sum %r' % (r1['ret'], want))
    return worst > 1e-9, 'native rule n=%d on [%r,%r]: worst relative defect %.3g (%s)' % (n, a, b, worst, what)
