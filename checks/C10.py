"""C10 - Meaningless requests stop the program with a diagnostic; valid ones never do (DESIGN.md section 2/C10)"""
import z3
from llsym import *
from check import *
import native as nat
import bp
import la_common, interp_common, C02, C04, C05, C06, C07, C12, C13, C17, C19, num_common, sf_common

EXPLANATION = ('C10: for each guarded entry point the request is taken on both sides of its guard and executed symbolically on the real code (interpreter with a concrete object memory that reports every load/store outside a live object): '
               'a meaningless request must end in exit() after a diagnostic on every path with no out-of-bounds access before; a meaningful one must return on every path. '
               'Own sweeps: vector / matrix indices (size-1, size, size+1, UINT_MAX, 0-row matrices), shapes equal / transposed / off by one, square-only operations, Cross, Interpolation constructors (lengths 0..4, non-increasing abscissae, ragged tables, 2D), '
               'plus the guard obligations of C02 (incl. the CBMC entry-logic harnesses), C04, C05, C06, C07, C12, C13, C17, C19 and the missing-file guard of the text import (C20: Import_List / Import_Table on a file that cannot be opened) re-run under this property; CBMC harness: Vector::operator[] with an arbitrary unsigned index (bounds and pointer checks of the generated C).')
BOUNDS = {'quick': {'max_dim': 2}, 'thorough': {'max_dim': 3}}
NOT_DECIDED = ['file-system guards (Import_* on a missing file, Configuration): I/O is not encoded', 'sanitizer runs as such: the interpreter memory model and CBMC pointer checks stand in for ASan/UBSan within the bounds', 'column index of Matrix::operator[][j] (std::vector::operator[] is unchecked by design; the property names the row index)']
ASSUMPTIONS = ['doubles exact reals in the EA sweeps; CBMC bit-precise', 'operator new never fails', 'sizes up to the bound; indices include 0xffffffff']

def outcome(tag, paths, meaningful, mv, key, ended=lambda p: p.end, pc=lambda p: p.st.pc, events=lambda p: p.st.events):
    res = []; bad = 0
    for pi, p in enumerate(paths):
        e = ended(p)
        if meaningful:
            if e is None: continue
            res.append(prove('%s/valid-request-returns[%d]' % (tag, pi), pc(p), z3.BoolVal(False), 10000, mv, key=key + '/valid-returns', detail='meaningful request but: ' + str(e))); bad += 1
        else:
            if e is not None and e.kind == 'exit' and any(ev[0] == 'diag' for ev in events(p)): continue
            res.append(prove('%s/meaningless-request-exits[%d]' % (tag, pi), pc(p), z3.BoolVal(False), 10000, mv, key=key + '/rejects', detail='meaningless request but: ' + ('returned normally' if e is None else str(e)))); bad += 1
    if not bad: res.append(ob(tag, 'discharged', key=key + ('/valid-returns' if meaningful else '/rejects'), detail='%d paths: %s' % (len(paths), 'all return' if meaningful else 'all exit after a diagnostic, no out-of-bounds access')))
    if not paths: res.append(ob(tag + '/reach', 'broken', detail='no path'))
    return res

def la(op, **kw): return la_common.run_la(op, **kw)[1]
def la_out(tag, rs, meaningful, mv, key): return outcome(tag, rs, meaningful, mv, key, ended=lambda r: r.end, pc=lambda r: r.pc, events=lambda r: r.events)

def job_indices(n):
    res = []; v = [z3.Real('v%d' % i) for i in range(n)]; UM = 0xffffffff
    for i in sorted(set([0, max(n - 1, 0), n, n + 1, UM])):
        res += la_out('vector-index/n%d/i%s' % (n, 'UINT_MAX' if i == UM else i), la(53, A=v, vecA=True, i=i), i < n, {'op': 53, 'n': n, 'i': i}, 'C10/vector-index')
    for r in range(0, n + 1):
        for c in range(1, 3):
            A = la_common.syms('a', r, c) if r else None
            for i in sorted(set([0, max(r - 1, 0), r, r + 1, UM])):
                res += la_out('matrix-row-index/%dx%d/i%s' % (r, c, 'UINT_MAX' if i == UM else i), la(34, A=A, shapeA=(r, c), i=i, j=0), i < r, {'op': 34, 'rows': r, 'cols': c, 'i': i}, 'C10/matrix-row-index')
    if n >= 2:
        A = la_common.syms('a', n, n)
        for (op, nm, args, ok) in ((26, 'Return_Row', {'i': n}, False), (26, 'Return_Row', {'i': n - 1}, True), (27, 'Return_Column', {'j': n}, False), (28, 'Delete_Row', {'i': UM}, False), (29, 'Delete_Column', {'j': n + 1}, False), (29, 'Delete_Column', {'j': 0}, True),
                                   (25, 'Sub_Matrix', {'i': n, 'j': 0}, False), (25, 'Sub_Matrix', {'i': 0, 'j': n}, False), (25, 'Sub_Matrix', {'i': n - 1, 'j': n - 1}, True)):
            res += la_out('%s/%dx%d/%s' % (nm, n, n, args), la(op, A=A, **args), ok, dict({'op': op, 'rows': n, 'cols': n}, **args), 'C10/' + nm)
        # non-square shapes: the row index is judged against the rows and the column index against the columns (every index between min and max of the two sizes separates them)
        for (r, c) in ((n - 1, n + 1), (n + 1, n - 1)):
            A2 = la_common.syms('a', r, c)
            for i in sorted(set([0, r - 1, r, c - 1, c, max(r, c), UM])):
                res += la_out('Return_Row/%dx%d/i%s' % (r, c, i), la(26, A=A2, i=i), i < r, {'op': 26, 'rows': r, 'cols': c, 'i': i}, 'C10/Return_Row')
                res += la_out('Delete_Row/%dx%d/i%s' % (r, c, i), la(28, A=A2, i=i), i < r, {'op': 28, 'rows': r, 'cols': c, 'i': i}, 'C10/Delete_Row')
                res += la_out('Return_Column/%dx%d/j%s' % (r, c, i), la(27, A=A2, j=i), i < c, {'op': 27, 'rows': r, 'cols': c, 'j': i}, 'C10/Return_Column')
                res += la_out('Delete_Column/%dx%d/j%s' % (r, c, i), la(29, A=A2, j=i), i < c, {'op': 29, 'rows': r, 'cols': c, 'j': i}, 'C10/Delete_Column')
    return res

def job_shapes(r1, c1, r2, c2):
    res = []; A = la_common.syms('a', r1, c1); B = la_common.syms('b', r2, c2); mv = {'shapeA': [r1, c1], 'shapeB': [r2, c2]}
    for op, nm in ((1, 'Plus'), (2, 'Minus'), (3, 'operator+'), (4, 'operator-'), (5, 'operator+='), (6, 'operator-=')):
        res += la_out('%s/%dx%d,%dx%d' % (nm, r1, c1, r2, c2), la(op, A=A, B=B), (r1, c1) == (r2, c2), dict(mv, op=op), 'C10/sum-' + nm)
    for op, nm in ((7, 'Product'), (8, 'operator*')):
        res += la_out('%s/%dx%d,%dx%d' % (nm, r1, c1, r2, c2), la(op, A=A, B=B), c1 == r2, dict(mv, op=op), 'C10/product-' + nm)
    v = [z3.Real('v%d' % i) for i in range(r2)]
    res += la_out('M*v/%dx%d,%d' % (r1, c1, r2), la(15, A=A, B=v, vecB=True), r2 == c1, dict(mv, op=15), 'C10/matvec')
    res += la_out('v*M/%dx%d,%d' % (r1, c1, r2), la(17, A=A, B=v, vecB=True), r2 == r1, dict(mv, op=17), 'C10/vecmat')
    for op, nm in ((19, 'Trace'), (60, 'Determinant'), (62, 'Inverse')):
        if op == 62 and r1 == c1: continue      # invertibility is C05's subject
        res += la_out('%s/%dx%d' % (nm, r1, c1), la(op, A=A), r1 == c1, dict(mv, op=op), 'C10/' + nm)
    return res

def job_vectors(n1, n2):
    res = []; a = [z3.Real('u%d' % i) for i in range(n1)]; b = [z3.Real('w%d' % i) for i in range(n2)]; mv = {'n1': n1, 'n2': n2}
    for op, nm in ((40, 'Dot'), (41, 'operator*'), (43, 'operator+'), (44, 'operator-'), (45, 'operator+='), (46, 'operator-=')):
        res += la_out('vector-%s/%d,%d' % (nm, n1, n2), la(op, A=a, B=b, vecA=True, vecB=True), n1 == n2, dict(mv, op=op), 'C10/vector-' + nm)
    res += la_out('Cross/%d,%d' % (n1, n2), la(42, A=a, B=b, vecA=True, vecB=True), n1 == 3 and n2 == 3, dict(mv, op=42), 'C10/Cross')
    return res

def job_interp_ctor():
    res = []; mod = interp_common.GMOD['m']
    def ctor(mode, xs, ys_or_cols, ny=None, probe=None):
        it = Interp(mod, limits=Limits(max_paths=300)); st = it.new_state()
        syms_ = [t for t in xs if is_sym(t)]
        nx = len(xs) if mode == 0 else len(xs) // ny
        a = st.put_doubles(xs) if xs else st.alloc(8)
        if mode == 0: b = st.put_doubles(ys_or_cols) if ys_or_cols else st.alloc(8); n2 = len(ys_or_cols)
        else: b = st.alloc(8); n2 = ny
        return it.execute('@verif_c10_ctor', [mode, nx, a, n2, b, probe if probe is not None else (xs[0] if xs else 0.0), st.alloc(8)], st)
    X = [z3.Real('x%d' % i) for i in range(5)]; Y = [z3.Real('y%d' % i) for i in range(5)]
    for N in range(0, 5):
        xs = [float(i) for i in range(N)]; ys = [0.5 * i for i in range(N)]
        res += outcome('interpolation-ctor/length%d' % N, ctor(0, xs, ys), N >= 3, {'N': N, 'case': 'length'}, 'C10/interpolation-ctor/length')
    for N in (3, 4):
        it = Interp(mod, limits=Limits(max_paths=300)); st = it.new_state(); st.pc += [X[i] < X[i + 1] for i in range(N - 1)]
        ps = it.execute('@verif_c10_ctor', [0, N, st.put_doubles(X[:N]), N, st.put_doubles(Y[:N]), X[0], st.alloc(8)], st)
        res += outcome('interpolation-ctor/increasing-symbolic/N%d' % N, ps, True, {'N': N, 'case': 'increasing'}, 'C10/interpolation-ctor/valid')
        for k in range(N - 1):
            it = Interp(mod, limits=Limits(max_paths=300)); st = it.new_state(); st.pc += [X[i] < X[i + 1] for i in range(N - 1) if i != k] + [X[k] >= X[k + 1]]
            ps = it.execute('@verif_c10_ctor', [0, N, st.put_doubles(X[:N]), N, st.put_doubles(Y[:N]), X[0], st.alloc(8)], st)
            res += outcome('interpolation-ctor/not-increasing-at-%d/N%d' % (k, N), ps, False, {'N': N, 'case': 'not-increasing', 'k': k}, 'C10/interpolation-ctor/not-increasing')
    res += outcome('interpolation-ctor/length-mismatch-3-4', ctor(0, [0.0, 1.0, 2.0], [0.0, 1.0, 2.0, 3.0]), False, {'case': 'mismatch', 'nx': 3, 'ny': 4}, 'C10/interpolation-ctor/length-mismatch')
    res += outcome('interpolation-ctor/length-mismatch-4-3', ctor(0, [0.0, 1.0, 2.0, 3.0], [0.0, 1.0, 2.0]), False, {'case': 'mismatch', 'nx': 4, 'ny': 3}, 'C10/interpolation-ctor/length-mismatch')
    res += outcome('interpolation-table/3-rows-of-2', ctor(1, [0.0, 1.0, 1.0, 2.0, 2.0, 5.0], None, ny=2, probe=0.5), True, {'case': 'table', 'rows': 3, 'cols': 2}, 'C10/interpolation-table/valid')
    res += outcome('interpolation-table/3-rows-of-3', ctor(1, [0.0, 1.0, 7.0, 1.0, 2.0, 7.0, 2.0, 5.0, 7.0], None, ny=3, probe=0.5), False, {'case': 'table', 'rows': 3, 'cols': 3}, 'C10/interpolation-table/ragged')
    res += outcome('interpolation-table/3-rows-of-1', ctor(1, [0.0, 1.0, 2.0], None, ny=1, probe=0.5), False, {'case': 'table', 'rows': 3, 'cols': 1}, 'C10/interpolation-table/ragged')
    # 2D
    def ctor2d(nx, ny, ragged):
        it = Interp(mod, limits=Limits(max_paths=300, max_steps=8000000)); st = it.new_state()
        return it.execute('@verif_c10_ctor2d', [nx, ny, st.put_doubles([float(i) for i in range(nx)]), st.put_doubles([float(i) for i in range(ny)]), st.put_doubles([float(i) for i in range(nx * ny)]), ragged, 0.5, 0.5], st)
    res += outcome('interpolation2d/3x3', ctor2d(3, 3, 0), True, {'case': '2d', 'nx': 3, 'ny': 3, 'ragged': 0}, 'C10/interpolation2d/valid')
    res += outcome('interpolation2d/3x3-last-row-short', ctor2d(3, 3, 1), False, {'case': '2d', 'nx': 3, 'ny': 3, 'ragged': 1}, 'C10/interpolation2d/ragged')
    res += outcome('interpolation2d/3x3-row-missing', ctor2d(3, 3, 2), False, {'case': '2d', 'nx': 3, 'ny': 3, 'ragged': 2}, 'C10/interpolation2d/ragged')
    res += outcome('interpolation2d/2x3-too-short', ctor2d(2, 3, 0), False, {'case': '2d', 'nx': 2, 'ny': 3, 'ragged': 0}, 'C10/interpolation2d/too-short')
    return res

def job_interp_units(N):
    """table constructed with a unit for the abscissae (x_dim > 0, symbolic): a query is accepted exactly within the scaled domain plus one percent of the scaled edge intervals"""
    res = []; mod = interp_common.GMOD['m']; X = [z3.Real('x%d' % i) for i in range(N)]; Y = [z3.Real('y%d' % i) for i in range(N)]; XD, P = z3.Real('x_dim'), z3.Real('probe')
    it = Interp(mod, limits=Limits(max_paths=600, feas_ms=2000)); st = it.new_state(); st.pc += [X[i] < X[i + 1] for i in range(N - 1)] + [XD > 0]
    ps = it.execute('@verif_c10_ctor_units', [N, st.put_doubles(X), st.put_doubles(Y), XD, -1.0, P], st)
    lo, hi = X[0] * XD, X[N - 1] * XD; tl, tr = RV(1e-2) * (X[1] - X[0]) * XD, RV(1e-2) * (X[N - 1] - X[N - 2]) * XD
    mv = {'case': 'units', 'x': X, 'y': Y, 'x_dim': XD, 'probe': P, 'N': N}; nret = nexit = 0
    for pi, p in enumerate(ps):
        tag = 'interpolation-units/N%d[%d]' % (N, pi)
        if p.end is None:
            nret += 1; res.append(prove(tag + '/accepted-only-within-one-percent', p.st.pc, z3.And(P >= lo - tl, P <= hi + tr), 30000, mv, key='C10/interpolation-units/rejects', tactic='nra'))
        elif p.end.kind == 'exit':
            nexit += 1; res.append(prove(tag + '/exits-only-beyond-one-percent', p.st.pc, z3.Or(P <= lo - tl, P >= hi + tr), 30000, mv, key='C10/interpolation-units/valid-returns', tactic='nra'))
            if not any(ev[0] == 'diag' for ev in p.st.events): res.append(ob(tag + '/diagnostic', 'candidate', key='C10/interpolation-units/diagnostic', model=None))
        elif p.end.kind != 'cutoff': res.append(prove(tag + '/no-' + p.end.kind, p.st.pc, z3.BoolVal(False), 20000, mv, key='C10/interpolation-units/' + p.end.kind, detail=str(p.end)))
    res.append(ob('interpolation-units/N%d/coverage' % N, 'discharged' if nret and nexit else 'broken', key='C10/coverage', detail='%d returning, %d exiting paths' % (nret, nexit)))
    return res

def job_borrowed(which):
    """guard obligations owned by other properties, re-run under C10 (same code, same keys)"""
    if which == 'C02-entry': return [o for o in C02.job_entry('lt', 1) + C02.job_entry('gt', 1) if not str(o.get('key') or '').startswith('C02/accuracy')]      # the accuracy clause belongs to C02 only
    if which == 'C06-guards': return C06.job_guards()
    if which == 'C07-guards': return [o for o in C07.job_exponential() + C07.job_binomial(2) + C07.job_poisson_likelihood(1, 2) if 'guard' in o['name'] or 'mismatch' in o['name']]
    if which == 'C12-length': return [o for o in C12.job_overloads(1) if 'length-mismatch' in o['name']]
    if which == 'C13-method': return C13.job_unknown_method()
    if which == 'C17-guards': return [o for o in C17.job_round() if 'rejected' in o['name'] or 'accepted' in o['name']] + [o for o in C17.job_vsh(0) if 'rejected' in o['name']]
    if which == 'C19-lists': return [o for o in C19.job_lists(2, 1) + C19.job_lists(2, 2) + C19.job_closest(3) if 'ragged' in o['name'] or 'sub-list' in o['name'] or 'unsorted' in o['name']]
    if which == 'C20-missing-file':
        import C20
        return C20.job_missing_file()
    if which == 'C09-domain':
        import C09
        return [o for o in C09.job_locate(3, 0, 0) + C09.job_locate(4, 2, 1) if 'exit-only-outside' in o['name'] or 'bracket' in o['name']]
    return []

def job_bp(h):
    if h['name'].startswith('c02_'): return bp.run_harness('C10', 'C02.c', h, num_common.G['m'], ['verif_c02_root'], tag='C02')
    return bp.run_harness('C10', 'C10.c', h, la_common.G['m'], ['verif_la'])

def jobs(ctx):
    la_common.module(ctx); interp_common.GMOD['L'] = interp_common.layout(interp_common.module(ctx)); num_common.module(ctx); sf_common.module(ctx); C19.module(ctx)
    import C09
    d = BOUNDS[ctx.tier]['max_dim']; J = [(job_indices, (n,)) for n in range(1, d + 2)]
    R = range(1, d + 1)
    for r1 in R:
        for c1 in R:
            for r2 in R:
                for c2 in R: J.append((job_shapes, (r1, c1, r2, c2)))
    for n1 in range(1, 5):
        for n2 in range(1, 5):
            if n1 <= 3 or n2 <= 3: J.append((job_vectors, (n1, n2)))
    J.append((job_interp_ctor, ())); J.append((job_interp_units, (3,)))
    for w in ('C02-entry', 'C06-guards', 'C07-guards', 'C12-length', 'C13-method', 'C17-guards', 'C19-lists', 'C09-domain', 'C20-missing-file'): J.append((job_borrowed, (w,)))
    for h in bp.harnesses('C10.c', ctx.tier) + bp.harnesses('C02.c', ctx.tier): J.append((job_bp, (h,)))
    return J

def replay(ctx, o):
    key = o['key']; m = o['model'] or {}
    for pre, modl in (('C02/', C02), ('C04/', C04), ('C05/', C05), ('C06/', C06), ('C07/', C07), ('C12/', C12), ('C13/', C13), ('C17/', C17), ('C19/', C19)):
        if key.startswith(pre): return modl.replay(ctx, o)
    if key.startswith('C09/'):
        import C09
        return C09.replay(ctx, o)
    if key.startswith('C20/'):
        import C20
        return C20.replay(ctx, o)
    if o['backend'] == 'BP':
        if 'in_i' in m:
            r = la_common.native_la(ctx, 53, [1.0, 2.0, 3.0], i=m['in_i'] & 0xffffffff, vecA=True)
            ok = (r['status'] == 'ok') == ((m['in_i'] & 0xffffffff) < 3)
            return not ok, 'native Vector(3)[%d]: %s' % (m['in_i'] & 0xffffffff, r.get('out', [r['status']])[:1])
        return False, 'no inputs in the trace'
    if key.startswith('C10/interpolation'):
        so = interp_common.native(ctx); c = m.get('case')
        def call(mode, xs, nx, ys, ny, probe):
            return nat.call(so, 'verif_c10_ctor', [('i32', mode), ('u32', nx), ('dbl[]', xs or [0.0]), ('u32', ny), ('dbl[]', ys or [0.0]), probe, ('dbl[]', [0.0])], restype='uint')
        if c == 'length': N = m['N']; r = call(0, [float(i) for i in range(N)], N, [0.5 * i for i in range(N)], N, 0.0)
        elif c == 'increasing': N = m['N']; r = call(0, [float(i) for i in range(N)], N, [1.0] * N, N, 0.0)
        elif c == 'not-increasing':
            N = m['N']; xs = [float(i) for i in range(N)]; xs[m['k'] + 1] = xs[m['k']]; r = call(0, xs, N, [1.0] * N, N, xs[0])
        elif c == 'mismatch': r = call(0, [float(i) for i in range(m['nx'])], m['nx'], [float(i) for i in range(m['ny'])], m['ny'], 0.0)
        elif c == 'table': r = call(1, [float(i) for i in range(m['rows'] * m['cols'])], m['rows'], None, m['cols'], 0.5)
        elif c == 'units':
            xs = [q2f(q) for q in m['x']]; ys = [q2f(q) for q in m['y']]; xd = q2f(m['x_dim']); pr = q2f(m['probe']); N = m['N']
            r = nat.call(so, 'verif_c10_ctor_units', [('u32', N), ('dbl[]', xs), ('dbl[]', ys), xd, -1.0, pr])
            lo, hi = xs[0] * xd, xs[-1] * xd; tl, tr = 1e-2 * (xs[1] - xs[0]) * xd, 1e-2 * (xs[-1] - xs[-2]) * xd
            inside = lo - tl * (1 - 1e-9) <= pr <= hi + tr * (1 - 1e-9); outside = pr < lo - tl * (1 + 1e-9) or pr > hi + tr * (1 + 1e-9)
            desc = 'native Interpolation(x=%s, x_dim=%r)(%r): %s; scaled domain [%r,%r], one percent of the edge intervals %r / %r' % (xs, xd, pr, r.get('ret', r['status']), lo, hi, tl, tr)
            return (r['status'] == 'ok' and outside) or (r['status'] == 'exit' and inside), desc
        elif c == '2d':
            r = nat.call(so, 'verif_c10_ctor2d', [('u32', m['nx']), ('u32', m['ny']), ('dbl[]', [float(i) for i in range(m['nx'])]), ('dbl[]', [float(i) for i in range(m['ny'])]), ('dbl[]', [float(i) for i in range(m['nx'] * m['ny'])]), ('i32', m['ragged']), 0.5, 0.5])
        else: return False, 'no replay rule'
        valid = key.endswith('/valid-returns')
        if valid: return r['status'] != 'ok', 'native constructor on a valid table: %s' % r['status']
        return r['status'] != 'exit', 'native constructor on a meaningless table (%s): %s (a meaningless request must exit with a failure status; signal = memory fault)' % (m, r['status'] + (' code %s' % r.get('code') if 'code' in r else ''))
    # linear algebra sweeps
    op = m.get('op')
    if op is None: return False, 'no model'
    valid = key.endswith('/valid-returns')
    if op == 53: r = la_common.native_la(ctx, 53, [float(k + 1) for k in range(m['n'])], i=m['i'], vecA=True)
    elif op == 34:
        r_, c_ = m['rows'], m['cols']; A = [[float(i * c_ + j) for j in range(c_)] for i in range(r_)] if r_ else None
        r = la_common.native_la(ctx, 34, A, shapeA=(r_, c_) if not r_ else None, i=m['i'], j=0)
    elif 'shapeA' in m:
        (r1, c1), (r2, c2) = m['shapeA'], m['shapeB']; A = [[1.0 + i + j for j in range(c1)] for i in range(r1)]
        if op in (15, 17): r = la_common.native_la(ctx, op, A, [1.0] * r2, vecB=True)
        else: r = la_common.native_la(ctx, op, A, [[2.0 + i * j for j in range(c2)] for i in range(r2)])
    elif 'n1' in m: r = la_common.native_la(ctx, op, [1.0] * m['n1'], [2.0] * m['n2'], vecA=True, vecB=True)
    else:
        n = m['rows']; nc = m.get('cols', n); r = la_common.native_la(ctx, op, [[1.0 + i * nc + j + (i == j) for j in range(nc)] for i in range(n)], i=m.get('i', 0), j=m.get('j', 0))
    if valid: return r['status'] != 'ok', 'native call on a meaningful request: %s' % r['status']
    return r['status'] != 'exit', 'native call on a meaningless request (%s): %s' % ({k: v for k, v in m.items() if k != 'failed'}, r['status'] if r['status'] != 'ok' else 'returned %s' % r.get('out', [])[:3])
