"""Shared by C02, C03, C11, C12, C13, C14: harness/NUM.cpp on Numerics.cpp / Integration.cpp with uninterpreted user functions"""
import itertools, math
import z3
from llsym import *
from check import *
import native as nat

SRCS = ['Numerics.cpp', 'Integration.cpp', 'Special_Functions.cpp', 'Statistics.cpp', 'Linear_Algebra.cpp', 'Utilities.cpp']
NATIVE_SRCS = ['Numerics.cpp', 'Special_Functions.cpp', 'Utilities.cpp', 'Linear_Algebra.cpp', 'Integration.cpp', 'Statistics.cpp', 'Natural_Units.cpp']
KEEP = ['verif_c02_root', 'verif_c03_integrate', 'verif_c03_integrate_default', 'verif_c03_asi', 'verif_c03_find_epsilon', 'verif_c12_rw', 'verif_c12_gl_fab', 'verif_c12_gl_frw', 'verif_c12_gl_vrw',
        'verif_c13_int1', 'verif_c13_int2', 'verif_c13_int3', 'verif_c13_int3sph', 'verif_c11_findmin', 'verif_c11_findmax', 'verif_c11_nm', 'verif_c14_mc', 'verif_c14_vegas', 'verif_c14_random_point', 'verif_c14_rebin']
G = {}
def module(ctx):
    if 'm' not in G: G['m'] = ctx.lower(SRCS, 'NUM.cpp', KEEP)
    return G['m']
def native(ctx): return ctx.native(NATIVE_SRCS, 'NUM.cpp')

F1 = z3.Function('F', z3.RealSort(), z3.RealSort())
F2 = z3.Function('F2', z3.RealSort(), z3.RealSort(), z3.RealSort())
F3 = z3.Function('F3', z3.RealSort(), z3.RealSort(), z3.RealSort(), z3.RealSort())

class Cutoff(Exception): pass

def user_f(fn=None, maxcalls=None, name='@verif_f', arity=1):
    """intercept for the user callback: value = fn(args) (default: uninterpreted F), every call logged as ('call', args, value); more than maxcalls calls end the path ('cutoff': outside the bound)"""
    def h(it, args, st, depth):
        n = sum(1 for e in st.events if e[0] == 'call')
        if maxcalls is not None and n >= maxcalls: raise PathEnd('cutoff', 'more than %d evaluations of the user function' % maxcalls)
        a = args[:arity]
        if fn is None:
            v = {1: F1, 2: F2, 3: F3}[arity](*[toR(x) for x in a])
        else: v = fn(*a)
        st.events.append(('call', tuple(a), v))
        return [(st, v)]
    return {name: h}

def user_fv(fn, maxcalls=None):
    """intercept for verif_fv(const double* p, unsigned long n): fn receives the list of component values"""
    def h(it, args, st, depth):
        n = sum(1 for e in st.events if e[0] == 'call')
        if maxcalls is not None and n >= maxcalls: raise PathEnd('cutoff', 'more than %d evaluations' % maxcalls)
        comps = [st.load(args[0] + 8 * i, 8, True) for i in range(args[1])]
        v = fn(comps)
        st.events.append(('call', tuple(comps), v))
        return [(st, v)]
    return {'@verif_fv': h}

def calls(st): return [e for e in st.events if e[0] == 'call']

def run(fname, args, intercept, pre=(), limits=None, merge_pure=True, resolve_selects=False, havoc=None):
    it = Interp(G['m'], intercept=intercept, limits=limits, merge_pure=merge_pure, resolve_selects=resolve_selects); st = it.new_state(); st.pc += list(pre)
    if havoc: it.havoc.update(havoc)
    args = [a(st) if callable(a) else a for a in args]
    return it, it.execute(fname, args, st)

def poly_cb(coeffs):
    """python callback evaluating sum c_i x^i (for native replay through ctypes)"""
    def f(x):
        r = 0.0
        for c in reversed(coeffs): r = r * x + c
        return r
    return f
