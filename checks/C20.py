"""C20 - Exported data read back unchanged; units convert consistently in every build (DESIGN.md section 2/C20)"""
import itertools, math
import z3
from llsym import *
from check import *
import native as nat
import C19

EXPLANATION = ('C20: In_Units (all overloads): In_Units(q*u, u) = q for u != 0, container overloads equal the scalar overload element by element, the rounding variant is Round(q/u, digits) - for the scalar and for every container overload -, ragged tables against per-column units exit; '
               'unit constants: Natural_Units.cpp lowered with clang at -O0, -O1 and -O2; the module initialiser is executed from zero-initialised storage with every access to a global recorded: no dynamically initialised constant is read before it has been written (initialisation-order taint), '
               'and after initialisation every derived unit equals its defining product of the stored base constants within 4 ulp (closed query: no free input); '
               'text import on an abstract file (std::ifstream / getline / operator>> / ignore are environment stubs on a file of h header lines and R x C numbers): Count_Lines counts every line whatever its length, Import_Table returns shape R x C with entry = number x unit of its column, Import_List all numbers x unit; '
               'round trip through the abstract file: what the real Export_Table / Export_List write (numbers, tabs, newlines, header of 0..3 lines incl. empty ones) is what the real Import_Table / Import_List read with ignored_initial_lines = header lines written: same shape, every value equal (exact reals).')
BOUNDS = {'quick': {'sizes': 3, 'opt_levels': ['-O0', '-O1', '-O2']}, 'thorough': {'sizes': 4, 'opt_levels': ['-O0', '-O1', '-O2', '-O3', '-Os']}}
NOT_DECIDED = ['the TEXT of the round trip Export_* / Import_* (libstdc++ number formatting and parsing, the writers, the file system): not encodable with the tools in this image - the library-side import logic is decided on an abstract file (see explanation)', 'g++ builds (no IR): only clang configurations are examined',
               '(q*u)/u = q bit-precisely: in exact arithmetic only']
ASSUMPTIONS = ['doubles exact reals for In_Units', 'import jobs: the stream is a stub - getline returns the lines in order and fails after the last, operator>>(double) skips white space, fails on header text and at the end, ignore(n, newline) skips one line; numbers are symbolic reals (their text form is not modelled)', 'unit constants: the encoded semantics are those of the clang-14 IR at the listed optimisation levels']

UNITS = ['GeV', 'gram', 'kg', 'cm', 'meter', 'km', 'sec', 'ms', 'minute', 'hr', 'day', 'year', 'Joule', 'erg', 'cal', 'Hz', 'Newton', 'dyne', 'Watt', 'Pa', 'bar', 'barye', 'Coulomb', 'Volt', 'Ampere', 'Farad', 'Tesla', 'Gauss', 'Weber', 'Ohm', 'Siemens',
         'eV', 'MeV', 'mm', 'fm', 'inch', 'foot', 'mile', 'barn', 'tonne', 'Elementary_Charge', 'mPlanck', 'mPlanck_reduced', 'G_Newton', 'G_Fermi', 'Higgs_VeV', 'deg', 'arcmin', 'arcsec', 'week']
DEFS = {'kg': lambda u: 1e3 * u['gram'], 'meter': lambda u: 1e2 * u['cm'], 'km': lambda u: 1e3 * u['meter'], 'sec': lambda u: 299792458.0 * u['meter'], 'ms': lambda u: 1e-3 * u['sec'], 'minute': lambda u: 60 * u['sec'], 'hr': lambda u: 3600 * u['sec'], 'day': lambda u: 86400 * u['sec'],
        'year': lambda u: 365.25 * u['day'], 'week': lambda u: 7 * u['day'], 'Joule': lambda u: u['kg'] * u['meter'] ** 2 / u['sec'] ** 2, 'erg': lambda u: u['gram'] * u['cm'] ** 2 / u['sec'] ** 2, 'cal': lambda u: 4.184 * u['Joule'], 'Hz': lambda u: 1 / u['sec'],
        'Newton': lambda u: u['kg'] * u['meter'] / u['sec'] ** 2, 'dyne': lambda u: 1e-5 * u['Newton'], 'Watt': lambda u: u['Joule'] / u['sec'], 'Pa': lambda u: u['Newton'] / u['meter'] ** 2, 'bar': lambda u: 1e5 * u['Pa'], 'barye': lambda u: u['dyne'] / u['cm'] ** 2,
        'Volt': lambda u: u['Joule'] / u['Coulomb'], 'Ampere': lambda u: u['Coulomb'] / u['sec'], 'Farad': lambda u: u['Coulomb'] / u['Volt'], 'Tesla': lambda u: u['Newton'] * u['sec'] / (u['Coulomb'] * u['meter']), 'Gauss': lambda u: 1e-4 * u['Tesla'],
        'Weber': lambda u: u['Tesla'] * u['meter'] ** 2, 'Ohm': lambda u: u['Volt'] / u['Ampere'], 'Siemens': lambda u: 1 / u['Ohm'], 'eV': lambda u: 1e-9 * u['GeV'], 'MeV': lambda u: 1e-3 * u['GeV'], 'mm': lambda u: 0.1 * u['cm'], 'fm': lambda u: 1e-15 * u['meter'],
        'inch': lambda u: 2.54 * u['cm'], 'foot': lambda u: 12 * u['inch'], 'mile': lambda u: 1609.344 * u['meter'], 'barn': lambda u: 1e-24 * u['cm'] ** 2, 'tonne': lambda u: 1e3 * u['kg'], 'G_Newton': lambda u: 1 / u['mPlanck'] ** 2,
        'mPlanck_reduced': lambda u: u['mPlanck'] / math.sqrt(8 * math.pi), 'Higgs_VeV': lambda u: (math.sqrt(2) * u['G_Fermi']) ** -0.5, 'arcmin': lambda u: u['deg'] / 60, 'arcsec': lambda u: u['deg'] / 3600, 'deg': lambda u: math.pi / 180}

def job_units(opt, ctxinfo):
    res = []; tag = 'units/' + opt
    path = ctxinfo[opt]; mod = llparse.parse_module(open(path).read())
    it = Interp(mod, limits=Limits(max_steps=2000000)); st = it.new_state(); st.trace = []
    gl = {a: g for g, a in it.gaddr.items() if isinstance(a, int) and isinstance(g, str)}
    st, done = it.run_global_ctors(st, '')
    trace = st.trace; st.trace = None
    # a global that the initialiser writes (dynamic initialisation) must not be read before that write
    first_store = {}; bad = []
    for k, (kind, addr, size) in enumerate(trace):
        if addr in gl and kind == 'store' and addr not in first_store: first_store[addr] = k
    for k, (kind, addr, size) in enumerate(trace):
        if kind == 'load' and addr in gl and 'libphysica' in gl[addr] and addr in first_store and k < first_store[addr]: bad.append(gl[addr])     # library constants only (guard variables of boost's own initialisers are read-then-written by design)
    dyn = sorted(set(gl[a] for a in first_store if 'natural_units' in gl[a]))
    ok = not bad
    res.append(ob(tag + '/no-read-before-initialisation', 'discharged' if ok else 'candidate', key='C20/units/initialisation-order', model=None if ok else {'opt': opt, 'globals': sorted(set(bad))[:6]},
                  detail='%d dynamically initialised unit constants (%s ...), constructors run: %s; read before written: %s' % (len(dyn), ', '.join(d.split('units')[-1][:14] for d in dyn[:6]), len(done), sorted(set(bad))[:4]), sample={'obligation': tag + '/no-read-before-initialisation', 'dynamic_constants': dyn[:12], 'trace_length': len(trace)}))
    out = st.alloc(8 * len(UNITS)); ps = it.execute('@verif_units', [out], st)
    if len(ps) != 1 or ps[0].end is not None: return res + [ob(tag + '/read', 'undecided', detail=str([str(p.end) for p in ps]))]
    u = {n: ps[0].st.load(out + 8 * k, 8, True) for k, n in enumerate(UNITS)}
    for n, f in DEFS.items():
        try: want = f(u); got = u[n]; ok = got == got and abs(got - want) <= 4 * 2.3e-16 * abs(want) and want != 0
        except (ZeroDivisionError, OverflowError, ValueError): ok = False; want = float('nan'); got = u[n]
        res.append(ob('%s/%s-is-its-defining-product' % (tag, n), 'discharged' if ok else 'candidate', key='C20/units/defining-product', model=None if ok else {'opt': opt, 'unit': n, 'value': got, 'product': want}, detail='%s = %r, defining product %r' % (n, got, want)))
    return res

def job_in_units(rows, cols):
    res = []; Q = [[z3.Real('q%d_%d' % (i, j)) for j in range(cols)] for i in range(rows)]; U = z3.Real('u'); flatq = [x for r in Q for x in r]; outp = {}
    def out(st): outp['a'] = st.alloc(8 * 32); return outp['a']
    RND = z3.Function('Round', z3.RealSort(), z3.RealSort(), z3.RealSort())
    def rnd(it, args, st, depth): return [(st, RND(toR(args[0]), toR(args[1]) if is_sym(args[1]) else z3.RealVal(args[1])))]
    inter = {'@_ZN10libphysica5RoundEdj': rnd}
    def call(op, vals, r_, c_, digits=0, ragged=0, unit=U):
        return C19.run('@verif_in_units', [op, r_, c_, lambda st: st.put_doubles(vals), unit, digits, ragged, out], pre=[U != 0], intercept=inter, limits=Limits(max_paths=100))[1]
    mv = {'q': flatq, 'u': U, 'rows': rows, 'cols': cols}; sh = '%dx%d' % (rows, cols)
    if rows == 1:
        for pi, p in enumerate(call(1, [flatq[0] * U], 1, 1)):
            if p.end is None: res.append(prove('in-units/scalar-undoes-multiplication[%d]' % pi, p.st.pc + [U != 0], toR(p.st.load(outp['a'], 8, True)) == flatq[0], 10000, dict(mv, op=1), key='C20/in-units/undo', sample=True))
        for pi, p in enumerate(call(2, [flatq[0]], 1, 1, digits=3)):
            if p.end is None: res.append(prove('in-units/rounded-is-Round-of-quotient[%d]' % pi, p.st.pc + [U != 0], toR(p.st.load(outp['a'], 8, True)) == RND(flatq[0] / U, 3), 10000, dict(mv, op=2), key='C20/in-units/rounded'))
        for op, nm in ((3, 'std::vector'), (5, 'Vector')):
            for pi, p in enumerate(call(op, flatq, 1, cols)):
                if p.end is not None: res.append(prove('in-units/%s/%s/returns[%d]' % (nm, sh, pi), p.st.pc, z3.BoolVal(False), 10000, dict(mv, op=op), key='C20/in-units/returns', detail=str(p.end))); continue
                vals = [p.st.load(outp['a'] + 8 * k, 8, True) for k in range(cols)]
                okc = p.ret == cols
                res.append(ob('in-units/%s/%s/count[%d]' % (nm, sh, pi), 'discharged' if okc else 'candidate', key='C20/in-units/shape', model=None if okc else dict(mv, op=op), detail='%s values' % p.ret))
                if okc: res.append(prove('in-units/%s/%s/element-wise[%d]' % (nm, sh, pi), p.st.pc + [U != 0], z3.And(*[toR(v) == q / U for v, q in zip(vals, flatq)]), 10000, dict(mv, op=op), key='C20/in-units/element-wise'))
    for op, nm in ((4, 'table'), (6, 'Matrix'), (7, 'table-per-column-units')):
        for pi, p in enumerate(call(op, flatq, rows, cols)):
            if p.end is not None: res.append(prove('in-units/%s/%s/returns[%d]' % (nm, sh, pi), p.st.pc, z3.BoolVal(False), 10000, dict(mv, op=op), key='C20/in-units/returns', detail=str(p.end))); continue
            okc = p.ret == rows * cols
            res.append(ob('in-units/%s/%s/count[%d]' % (nm, sh, pi), 'discharged' if okc else 'candidate', key='C20/in-units/shape', model=None if okc else dict(mv, op=op), detail='%s values' % p.ret))
            if okc:
                vals = [p.st.load(outp['a'] + 8 * k, 8, True) for k in range(rows * cols)]
                want = [Q[i][j] / (U if op != 7 else (j + 1) * U) for i in range(rows) for j in range(cols)]
                res.append(prove('in-units/%s/%s/element-wise[%d]' % (nm, sh, pi), p.st.pc + [U != 0], z3.And(*[toR(v) == w for v, w in zip(vals, want)]), 10000, dict(mv, op=op), key='C20/in-units/element-wise'))
    # the same overloads with round = true: every element is Round(q / unit, digits) (Round itself is C17's subject and stays uninterpreted here)
    for op, nm in ((13, 'std::vector'), (15, 'Vector'), (14, 'table'), (16, 'Matrix'), (17, 'table-per-column-units')):
        if op in (13, 15) and rows != 1: continue
        for pi, p in enumerate(call(op, flatq, rows, cols, digits=3)):
            if p.end is not None: res.append(prove('in-units/rounded/%s/%s/returns[%d]' % (nm, sh, pi), p.st.pc, z3.BoolVal(False), 10000, dict(mv, op=op), key='C20/in-units/returns', detail=str(p.end))); continue
            if p.ret != rows * cols: res.append(ob('in-units/rounded/%s/%s/count[%d]' % (nm, sh, pi), 'candidate', key='C20/in-units/shape', model=dict(mv, op=op), detail='%s values' % p.ret)); continue
            vals = [p.st.load(outp['a'] + 8 * k, 8, True) for k in range(rows * cols)]
            want = [RND(Q[i][j] / (U if op != 17 else (j + 1) * U), 3) for i in range(rows) for j in range(cols)]
            res.append(prove('in-units/rounded/%s/%s/element-wise[%d]' % (nm, sh, pi), p.st.pc + [U != 0], z3.And(*[toR(v) == w for v, w in zip(vals, want)]), 10000, dict(mv, op=op, digits=3), key='C20/in-units/rounded'))
    if rows > 1 and cols > 1:
        ps = call(7, flatq, rows, cols, ragged=1)
        ok = bool(ps) and all(p.end is not None and p.end.kind == 'exit' and any(e[0] == 'diag' for e in p.st.events) for p in ps)
        res.append(ob('in-units/ragged-table-rejected/%s' % sh, 'discharged' if ok else 'candidate', key='C20/in-units/ragged-rejected', model=None if ok else dict(mv, op=7, ragged=1), detail=str([str(p.end) for p in ps][:2])))
    return res

# ---- text import: the library's own logic on an abstract file -----------------------------------------------------------------------------------------
IFS = '_ZNSt14basic_ifstreamIcSt11char_traitsIcEE'; FB = '_ZNSt13basic_filebufIcSt11char_traitsIcEE'
def stream_init(it, st, a):
    """the stream object as the inlined libstdc++ code reads it: vptr -> model vtable with vbase offset 0, ctype facet for widen(), state word (ios_base+32) good, construction-vtable tables filled alike"""
    if '__streams' not in it.gaddr:
        if '@_ZSt4cerr' not in it.gaddr: it._alloc_global(st, '@_ZSt4cerr')
        it._init_global(st, '@_ZSt4cerr')
    b = st.find(a, 1); size = min(520, st.objs[b][0] - (a - b)) if b is not None else 520
    vt, ct = it.gaddr['__streams']; st.memset(a, 0, size); st.store(a, 8, vt + 24); st.store(a + 240, 8, ct)
    for vtt in ('@_ZTTSt14basic_ifstreamIcSt11char_traitsIcEE', '@_ZTTSt14basic_ofstreamIcSt11char_traitsIcEE'):
        if vtt in it.mod.globals:
            if vtt not in it.gaddr: it._alloc_global(st, vtt)
            for k in range(0, 256, 8):
                if st.find(it.gaddr[vtt] + k, 8) is not None: st.store(it.gaddr[vtt] + k, 8, vt + 24)
OFS = '_ZNSt14basic_ofstreamIcSt11char_traitsIcEE'
def file_lines(header_len, R, C, T, data_len=None):
    return [('text', l) for l in header_len] + [('nums', list(T[i]), (data_len[i] if data_len else 3 * C)) for i in range(R)]
def file_model(header_len, R=None, C=None, T=None, data_len=None, lines=None, exists=True):
    """environment model of std::ifstream on a file given as a list of lines: ('text', length) - text that is not a number (an empty line when the length is 0) - or ('nums', [numbers], length).
       Stream state: the word at ios_base+32 of the stream object; the read position (line, token) and the number of lines handed out by getline live in the object's own storage.
       The same table models std::ofstream: every number, text and newline written is recorded as an event ('write', kind, value) of the path."""
    if lines is None: lines = file_lines(header_len, R, C, T, data_len)
    n = len(lines)
    def state(st, a, bits): st.store(a + 32, 4, bits)
    def ctor(it, args, st, depth): stream_init(it, st, args[0]); st.events.append(('file', args[0])); return [(st, None)]
    def isfile(st, a): return any(e[0] == 'file' and e[1] == a for e in st.events)
    def fb_open(it, args, st, depth): return [(st, args[0] if exists else 0)]          # basic_filebuf::open returns a null pointer when the file cannot be opened; the caller then sets failbit
    def ignore(it, args, st, depth):
        a = args[0]; st.store(a + 100, 4, st.load(a + 100, 4) + 1); st.store(a + 8, 8, 0); return [(st, a)]
    def extract(it, args, st, depth):
        a = args[0]; ln = st.load(a + 100, 4); col = st.load(a + 8, 8)
        while ln < n:
            L = lines[ln]
            if L[0] == 'text':
                if is_sym(L[1]) or L[1] > 0: state(st, a, 4); break                                   # text is not a number: failbit
            elif col < len(L[1]):
                st.store(args[1], 8, L[1][col]); st.store(a + 100, 4, ln); st.store(a + 8, 8, col + 1); return [(st, a)]
            ln += 1; col = 0
        else: state(st, a, 6)                                                                        # end of file: eofbit | failbit
        st.store(a + 100, 4, min(ln, n)); st.store(a + 8, 8, col)
        return [(st, a)]
    def getline(it, args, st, depth):
        a = args[0]; cur = st.load(a + 8, 8)
        if cur < n: st.store(args[1] + 8, 8, lines[cur][1] if lines[cur][0] == 'text' else lines[cur][2]); st.store(a + 8, 8, cur + 1)
        else: state(st, a, 6)
        return [(st, a)]
    def clear(it, args, st, depth): st.store(args[0] + 32, 4, args[1]); return [(st, None)]
    def w_num(it, args, st, depth):
        if not isfile(st, args[0]): return NotImplemented
        st.events.append(('write', 'num', args[1])); return [(st, args[0])]
    def w_text(it, args, st, depth):
        if not isfile(st, args[0]): return NotImplemented
        st.events.append(('write', 'text', bytes(st.load(args[1] + k, 1) for k in range(args[2])))); return [(st, args[0])]
    def w_put(it, args, st, depth):
        if not isfile(st, args[0]): return NotImplemented
        st.events.append(('write', 'text', bytes([args[1] & 255]))); return [(st, args[0])]
    def w_endl(it, args, st, depth):
        if not isfile(st, args[0]): return NotImplemented
        st.events.append(('write', 'text', b'\n')); return [(st, args[0])]
    def w_flush(it, args, st, depth):
        if not isfile(st, args[0]): return NotImplemented
        return [(st, args[0])]
    ret_this = lambda it, args, st, depth: [(st, args[0])]; nop = lambda it, args, st, depth: [(st, None)]
    return {'@' + IFS + 'C1Ev': ctor, '@' + IFS + 'C1ERKNSt7__cxx1112basic_stringIcS1_SaIcEEESt13_Ios_Openmode': ctor, '@' + IFS + 'D1Ev': nop, '@' + IFS + 'D2Ev': nop,
            '@' + OFS + 'C1Ev': ctor, '@' + OFS + 'D1Ev': nop, '@' + OFS + 'D2Ev': nop,
            '@' + FB + '4openEPKcSt13_Ios_Openmode': fb_open, '@' + FB + '5closeEv': ret_this, '@' + FB + 'D2Ev': nop, '@_ZNSt8ios_baseD2Ev': nop, '@_ZNKSt12__basic_fileIcE7is_openEv': lambda it, args, st, depth: [(st, 1)],
            '@_ZNSi6ignoreEli': ignore, '@_ZNSi10_M_extractIdEERSiRT_': extract, '@_ZNSt9basic_iosIcSt11char_traitsIcEE5clearESt12_Ios_Iostate': clear, '@_ZNKSt5ctypeIcE13_M_widen_initEv': nop,
            '@_ZSt7getlineIcSt11char_traitsIcESaIcEERSt13basic_istreamIT_T0_ES7_RNSt7__cxx1112basic_stringIS4_S5_T1_EES4_': getline,
            '@_ZNSo9_M_insertIdEERSoT_': w_num, '@_ZSt16__ostream_insertIcSt11char_traitsIcEERSt13basic_ostreamIT_T0_ES6_PKS3_l': w_text, '@_ZNSo3putEc': w_put,
            '@_ZSt4endlIcSt11char_traitsIcEERSt13basic_ostreamIT_T0_ES6_': w_endl, '@_ZNSo5flushEv': w_flush}
def written_lines(st):
    """the lines of the file a path wrote: numbers and text pieces between newlines"""
    lines = []; cur = []
    def close():
        nums = [x for k, x in cur if k == 'num']; txt = b''.join(x for k, x in cur if k == 'text')
        lines.append(('nums', nums, 3 * len(nums)) if nums and not txt.strip(b'\t ') else ('text', len(txt)) if not nums else ('mixed', nums, txt))
    for e in st.events:
        if e[0] != 'write': continue
        if e[1] == 'num': cur.append(('num', e[2]))
        else:
            parts = e[2].split(b'\n')
            for pi, part in enumerate(parts):
                if part: cur.append(('text', part))
                if pi < len(parts) - 1: close(); cur = []
    if cur: close()
    return lines
def cpath(st):
    a = st.alloc(8)
    for i, b in enumerate(b'f.txt\0'): st.store(a + i, 1, b)
    return a
def job_count_lines(n):
    """Count_Lines on a file of n lines of arbitrary lengths (symbolic, zero included) returns n"""
    res = []; L = [z3.Int('len%d' % i) for i in range(n)]; inter = file_model([], n, 1, [[0.0]] * n, data_len=L)
    it = Interp(C19.G['m'], intercept=inter, limits=Limits(max_paths=600, feas_ms=1000)); st = it.new_state(); st.pc += [l >= 0 for l in L] + [l <= 10000 for l in L]
    ps = it.execute('@verif_count_lines', [cpath(st)], st); mv = {'case': 'count', 'n': n, 'line_lengths': L}; nret = 0
    for pi, p in enumerate(ps):
        if p.end is not None:
            res.append(prove('count-lines/n%d/returns[%d]' % (n, pi), p.st.pc, z3.BoolVal(False), 10000, mv, key='C20/import/count-lines', detail=str(p.end))); continue
        nret += 1
        if is_sym(p.ret): res.append(prove('count-lines/n%d/every-line-counted[%d]' % (n, pi), p.st.pc, toI(p.ret) == n, 10000, mv, key='C20/import/count-lines'))
        else: res.append(ob('count-lines/n%d/every-line-counted[%d]' % (n, pi), 'discharged', key='C20/import/count-lines', detail='returns %d' % p.ret) if p.ret == n else prove('count-lines/n%d/every-line-counted[%d]' % (n, pi), p.st.pc, z3.BoolVal(False), 10000, mv, key='C20/import/count-lines', detail='returned %d for %d lines' % (p.ret, n)))
    if not ps: res.append(ob('count-lines/n%d/reach' % n, 'broken', detail='no path'))
    return res
def job_import(header_len, R, C, with_dims):
    """Import_Table / Import_List on a file with the given header lines (skipped by ignored_initial_lines = their number) and R x C symbolic numbers: shape R x C, entry = number x unit of its column (no units: x 1); list = all numbers x unit"""
    res = []; H = len(header_len); T = [[z3.Real('t%d_%d' % (i, j)) for j in range(C)] for i in range(R)]; D = [z3.Real('unit%d' % j) for j in range(C)] if with_dims else []
    tag = 'import/h%s/%dx%d/%s' % ('-'.join(map(str, header_len)) or '0', R, C, 'units' if with_dims else 'plain'); mv = {'case': 'table', 'header': list(header_len), 'R': R, 'C': C, 'T': [x for r in T for x in r], 'units': D}
    it = Interp(C19.G['m'], intercept=file_model(list(header_len), R, C, T), limits=Limits(max_paths=600, feas_ms=1000)); st = it.new_state()
    out = st.alloc(8 * (R * C + 4)); shp = st.alloc(8)
    ps = it.execute('@verif_import_table', [cpath(st), len(D), st.put_doubles(D) if D else st.alloc(8), H, out, R * C + 4, shp], st); nret = 0
    for pi, p in enumerate(ps):
        if p.end is not None:
            res.append(prove('%s/table-returns[%d]' % (tag, pi), p.st.pc, z3.BoolVal(False), 10000, mv, key='C20/import/table', detail=str(p.end))); continue
        nret += 1; sh = (p.st.load(shp, 4), p.st.load(shp + 4, 4)); okshape = sh == (R, C)
        res.append(ob('%s/table-shape[%d]' % (tag, pi), 'discharged' if okshape else 'candidate', key='C20/import/table', model=None if okshape else mv, detail='shape %s, file has %d x %d numbers' % (sh, R, C)))
        if okshape:
            for i in range(R):
                for j in range(C):
                    res.append(prove('%s/table-entry[%d,%d,%d]' % (tag, pi, i, j), p.st.pc, toR(p.st.load(out + 8 * (i * C + j), 8, True)) == T[i][j] * (D[j] if D else 1), 10000, mv, key='C20/import/table', sample=(i == 0 and j == 0 and with_dims)))
    if not ps: res.append(ob(tag + '/table-reach', 'broken', detail='no path'))
    U = z3.Real('unit'); it = Interp(C19.G['m'], intercept=file_model(list(header_len), R, C, T), limits=Limits(max_paths=600, feas_ms=1000)); st = it.new_state(); out = st.alloc(8 * (R * C + 4))
    ps = it.execute('@verif_import_list', [cpath(st), U, H, out, R * C + 4], st); mvl = dict(mv, case='list', unit=U)
    for pi, p in enumerate(ps):
        if p.end is not None:
            res.append(prove('%s/list-returns[%d]' % (tag, pi), p.st.pc, z3.BoolVal(False), 10000, mvl, key='C20/import/list', detail=str(p.end))); continue
        okn = (not is_sym(p.ret)) and p.ret == R * C
        res.append(ob('%s/list-length[%d]' % (tag, pi), 'discharged' if okn else 'candidate', key='C20/import/list', model=None if okn else mvl, detail='%s values, file has %d' % (p.ret, R * C)))
        if okn:
            for k in range(R * C): res.append(prove('%s/list-entry[%d,%d]' % (tag, pi, k), p.st.pc, toR(p.st.load(out + 8 * k, 8, True)) == T[k // C][k % C] * U, 10000, mvl, key='C20/import/list'))
    return res

def job_missing_file():
    """Import_List / Import_Table on a file that cannot be opened: the process exits with a failure status after a diagnostic (and returns normally when the file exists - the import jobs)"""
    res = []
    for fn, args in (('@verif_import_list', lambda st: [cpath(st), 1.0, 0, st.alloc(64), 4]), ('@verif_import_table', lambda st: [cpath(st), 0, st.alloc(8), 0, st.alloc(64), 4, st.alloc(8)])):
        it = Interp(C19.G['m'], intercept=file_model([], 0, 0, [], exists=False), limits=Limits(max_paths=100, feas_ms=1000)); st = it.new_state(); ps = it.execute(fn, args(st), st)
        ok = bool(ps) and all(p.end is not None and p.end.kind == 'exit' and any(e[0] == 'diag' for e in p.st.events) for p in ps)
        res.append(ob('import/missing-file/%s' % fn[7:], 'discharged' if ok else 'candidate', key='C20/import/missing-file', model=None if ok else {'case': 'missing', 'fn': fn[7:]}, detail='%d paths: %s' % (len(ps), [str(p.end) for p in ps][:3])))
    return res
def cstr(st, b):
    a = st.alloc(len(b) + 1)
    for i, ch in enumerate(b + b'\0'): st.store(a + i, 1, ch)
    return a
def job_roundtrip(header, R, C, with_dims):
    """Export_Table then Import_Table (Export_List then Import_List) through the abstract file: what the real writer puts out (numbers, tabs, newlines, header) is what the real reader is given, with
       ignored_initial_lines = the number of header lines written; the result has the shape of the data and every value equals the original (exact reals: (x / unit) * unit = x, unit != 0).
       The text form of a number is the identity here - six-digit formatting and parsing are outside the model."""
    res = []; tag = 'roundtrip/%s/%dx%d/%s' % (header.decode().replace('\n', '|') or 'no-header', R, C, 'units' if with_dims else 'plain')
    X = [[z3.Real('x%d_%d' % (i, j)) for j in range(C)] for i in range(R)]; D = [z3.Real('unit%d' % j) for j in range(C)] if with_dims else []; pre = [d != 0 for d in D]
    mv = {'case': 'roundtrip', 'header': header.decode(), 'R': R, 'C': C, 'X': [x for r in X for x in r], 'units': D}
    H = (header.count(b'\n') + 1) if header else 0
    it = Interp(C19.G['m'], intercept=file_model([], 0, 0, []), limits=Limits(max_paths=600, feas_ms=1000)); st = it.new_state(); st.pc += pre
    ps = it.execute('@verif_export_table', [cpath(st), R, C, st.put_doubles([x for r in X for x in r]), len(D), st.put_doubles(D) if D else st.alloc(8), cstr(st, header)], st)
    for pi, p in enumerate(ps):
        if p.end is not None:
            res.append(prove('%s/export-returns[%d]' % (tag, pi), p.st.pc, z3.BoolVal(False), 10000, mv, key='C20/roundtrip/table', detail=str(p.end))); continue
        lines = written_lines(p.st)
        bad = [l for l in lines if l[0] == 'mixed']
        if bad: res.append(ob('%s/lines-well-formed[%d]' % (tag, pi), 'candidate', key='C20/roundtrip/table', model=mv, detail='a written line mixes text and numbers: %s' % str(bad[0])[:200])); continue
        it2 = Interp(C19.G['m'], intercept=file_model([], lines=lines), limits=Limits(max_paths=600, feas_ms=1000)); st2 = it2.new_state(); st2.pc += list(p.st.pc)
        out = st2.alloc(8 * (R * C + 4)); shp = st2.alloc(8)
        qs = it2.execute('@verif_import_table', [cpath(st2), len(D), st2.put_doubles(D) if D else st2.alloc(8), H, out, R * C + 4, shp], st2)
        for qi, q in enumerate(qs):
            if q.end is not None:
                res.append(prove('%s/import-returns[%d,%d]' % (tag, pi, qi), q.st.pc, z3.BoolVal(False), 10000, mv, key='C20/roundtrip/table', detail='%s; file lines %s' % (q.end, [(l[0], l[1] if l[0] == 'text' else len(l[1])) for l in lines]))); continue
            sh = (q.st.load(shp, 4), q.st.load(shp + 4, 4)); okshape = sh == (R, C)
            res.append(ob('%s/same-shape[%d,%d]' % (tag, pi, qi), 'discharged' if okshape else 'candidate', key='C20/roundtrip/table', model=None if okshape else mv, detail='read back %s, written %d x %d; file lines %s' % (sh, R, C, [(l[0], l[1] if l[0] == 'text' else len(l[1])) for l in lines])))
            if okshape:
                for i in range(R):
                    for j in range(C):
                        res.append(prove('%s/same-value[%d,%d,%d,%d]' % (tag, pi, qi, i, j), q.st.pc + alg_assumptions(p.st), toR(q.st.load(out + 8 * (i * C + j), 8, True)) == X[i][j], 10000, mv, key='C20/roundtrip/table', tactic='nra', sample=(i == 0 and j == 0 and with_dims and R > 1)))
    if not ps: res.append(ob(tag + '/reach', 'broken', detail='no path'))
    # list
    U = z3.Real('unit'); n = R * C; V = [x for r in X for x in r]; mvl = dict(mv, case='roundtrip-list', unit=U)
    it = Interp(C19.G['m'], intercept=file_model([], 0, 0, []), limits=Limits(max_paths=600, feas_ms=1000)); st = it.new_state(); st.pc += [U != 0]
    ps = it.execute('@verif_export_list', [cpath(st), n, st.put_doubles(V), U, cstr(st, header)], st)
    for pi, p in enumerate(ps):
        if p.end is not None:
            res.append(prove('%s/list-export-returns[%d]' % (tag, pi), p.st.pc, z3.BoolVal(False), 10000, mvl, key='C20/roundtrip/list', detail=str(p.end))); continue
        lines = written_lines(p.st)
        it2 = Interp(C19.G['m'], intercept=file_model([], lines=lines), limits=Limits(max_paths=600, feas_ms=1000)); st2 = it2.new_state(); st2.pc += list(p.st.pc); out = st2.alloc(8 * (n + 4))
        qs = it2.execute('@verif_import_list', [cpath(st2), U, H, out, n + 4], st2)
        for qi, q in enumerate(qs):
            if q.end is not None:
                res.append(prove('%s/list-import-returns[%d,%d]' % (tag, pi, qi), q.st.pc, z3.BoolVal(False), 10000, mvl, key='C20/roundtrip/list', detail=str(q.end))); continue
            okn = (not is_sym(q.ret)) and q.ret == n
            res.append(ob('%s/list-same-length[%d,%d]' % (tag, pi, qi), 'discharged' if okn else 'candidate', key='C20/roundtrip/list', model=None if okn else mvl, detail='read back %s values, written %d' % (q.ret, n)))
            if okn:
                for k in range(n): res.append(prove('%s/list-same-value[%d,%d,%d]' % (tag, pi, qi, k), q.st.pc + alg_assumptions(p.st), toR(q.st.load(out + 8 * k, 8, True)) == V[k], 10000, mvl, key='C20/roundtrip/list', tactic='nra'))
    return res

def jobs(ctx):
    C19.module(ctx); b = BOUNDS[ctx.tier]; info = {}
    for opt in b['opt_levels']:
        m = ctx.lower(['Natural_Units.cpp', 'Special_Functions.cpp'], 'NU.cpp', ['verif_units'], opt=opt)
        info[opt] = m.path
    J = [(job_units, (opt, info)) for opt in b['opt_levels']]
    for r in range(1, b['sizes'] + 1):
        for c in range(1, b['sizes'] + 1): J.append((job_in_units, (r, c)))
    J.append((job_missing_file, ()))
    for n in range(0, b['sizes'] + 1): J.append((job_count_lines, (n,)))
    for hl in ((), (12,), (12, 7), (12, 0), (0,)):
        for (R, C) in ((1, 1), (2, 3), (3, 2)) if b['sizes'] <= 3 else ((1, 1), (2, 3), (3, 2), (4, 4)):
            for wd in (False, True): J.append((job_import, (hl, R, C, wd)))
    for hd in (b'', b'# header', b'# line 1\n# line 2', b'# title\n\n# after an empty line', b'# ends with a newline\n'):
        for (R, C) in ((1, 1), (2, 3), (3, 2)):
            for wd in (False, True): J.append((job_roundtrip, (hd, R, C, wd)))
    return J

def native_units(ctx): return ctx.native(C19.NATIVE_SRCS, 'NU.cpp')
def validate(ctx):
    so = native_units(ctx); r = nat.call(so, 'verif_units', [('dbl[]', [0.0] * len(UNITS))], restype='void')
    if r['status'] != 'ok': return [ob('translator-validation', 'broken', detail='native verif_units: ' + r['status'])]
    u = dict(zip(UNITS, r['arrays'][0])); bad = []
    # the native g++ -O2 build (the configuration the test-suite uses) against the same defining products
    for n, f in DEFS.items():
        try: want = f(u)
        except Exception: want = float('nan')
        if not (abs(u[n] - want) <= 4 * 2.3e-16 * abs(want)): bad.append('%s=%r vs %r' % (n, u[n], want))
    if bad: return [ob('native-g++-units', 'candidate', backend='TV', key='C20/units/defining-product', model={'opt': 'g++ -O2 (native)', 'unit': bad[0].split('=')[0], 'value': 0, 'product': 0}, detail='native g++ build: ' + '; '.join(bad[:4]))]
    return [ob('translator-validation', 'discharged', backend='TV', detail='native g++ -O2 build: all %d derived constants equal their defining products within 4 ulp (same oracle as the IR configurations)' % len(DEFS))]

def fl(q): return q2f(q) if isinstance(q, list) else float(q)
def replay(ctx, o):
    m = o['model'] or {}; key = o['key']
    if key.startswith('C20/import') or key.startswith('C20/roundtrip'):
        # a real file with the lines of the model, read by the native Count_Lines / Import_Table / Import_List
        import tempfile, os
        so = C19.native(ctx); d = tempfile.mkdtemp(prefix='c20.', dir=os.path.join(os.path.dirname(os.path.dirname(os.path.abspath(__file__))), '.work')); path = os.path.join(d, 'f.txt')
        def fnum(q, default):
            try: return q2f(q)
            except Exception: return default
        try:
            if str(m.get('case', '')).startswith('roundtrip'):
                R, C = m['R'], m['C']; X = [fnum(q, 1.5 + 0.37 * k) for k, q in enumerate(m['X'])]; U = [fnum(q, 2.0 + j) or 2.0 for j, q in enumerate(m.get('units', []))]; hd = m['header']; H = (hd.count('\n') + 1) if hd else 0
                if m['case'] == 'roundtrip':
                    r1 = nat.call(so, 'verif_export_table', [('str', path), ('u32', R), ('u32', C), ('dbl[]', X), ('u32', len(U)), ('dbl[]', U or [0.0]), ('str', hd)], restype='void')
                    r = nat.call(so, 'verif_import_table', [('str', path), ('u32', len(U)), ('dbl[]', U or [0.0]), ('u32', H), ('dbl[]', [0.0] * (R * C + 4)), ('u64', R * C + 4), ('u32[]', [0, 0])], restype='long')
                    if r1['status'] != 'ok' or r['status'] != 'ok': return True, 'native Export_Table / Import_Table: %s / %s' % (r1['status'], r['status'])
                    sh = tuple(r['arrays'][2]); vals = r['arrays'][1][:R * C]
                    bad = sh != (R, C) or any(abs(a - b) > 2e-5 * max(abs(b), 1e-300) for a, b in zip(vals, X))
                    return bad, 'native Export_Table then Import_Table (header %r = %d lines, %d x %d values, units %s): shape %s, values %s (written %s)' % (hd, H, R, C, U, sh, vals[:6], X[:6])
                u = fnum(m.get('unit'), 2.0) or 2.0
                r1 = nat.call(so, 'verif_export_list', [('str', path), ('u32', R * C), ('dbl[]', X), u, ('str', hd)], restype='void')
                r = nat.call(so, 'verif_import_list', [('str', path), u, ('u32', H), ('dbl[]', [0.0] * (R * C + 4)), ('u64', R * C + 4)], restype='long')
                if r1['status'] != 'ok' or r['status'] != 'ok': return True, 'native Export_List / Import_List: %s / %s' % (r1['status'], r['status'])
                vals = r['arrays'][1][:R * C]
                return (r['ret'] != R * C or any(abs(a - b) > 2e-5 * max(abs(b), 1e-300) for a, b in zip(vals, X))), 'native Export_List then Import_List (header %r): %d values %s (written %d: %s)' % (hd, r['ret'], vals[:6], R * C, X[:6])
            if m.get('case') == 'missing':
                gone = os.path.join(d, 'no-such-file.txt')
                r = nat.call(so, 'verif_import_list', [('str', gone), 1.0, ('u32', 0), ('dbl[]', [0.0] * 4), ('u64', 4)], restype='long') if m['fn'] == 'import_list' else nat.call(so, 'verif_import_table', [('str', gone), ('u32', 0), ('dbl[]', [0.0]), ('u32', 0), ('dbl[]', [0.0] * 4), ('u64', 4), ('u32[]', [0, 0])], restype='long')
                return r['status'] != 'exit', 'native %s on a file that does not exist: %s' % (m['fn'], r['status'])
            if m.get('case') == 'count':
                L = [max(0, int(fnum(q, 1))) for q in m['line_lengths']]
                open(path, 'w').write(''.join('x' * l + '\n' for l in L))
                r = nat.call(so, 'verif_count_lines', [('str', path)], restype='uint')
                return (r['status'] != 'ok' or r['ret'] != len(L)), 'native Count_Lines on a file with %d lines of lengths %s: %s' % (len(L), L, r.get('ret', r['status']))
            R, C = m['R'], m['C']; T = [[fnum(m['T'][i * C + j], 1.5 + i + 0.25 * j) for j in range(C)] for i in range(R)]; U = [fnum(q, 2.0) for q in m.get('units', [])]
            open(path, 'w').write(''.join('#' * l + '\n' for l in m['header']) + ''.join('\t'.join(repr(x) for x in row) + '\n' for row in T))
            if m['case'] == 'table':
                r = nat.call(so, 'verif_import_table', [('str', path), ('u32', len(U)), ('dbl[]', U or [0.0]), ('u32', len(m['header'])), ('dbl[]', [0.0] * (R * C + 4)), ('u64', R * C + 4), ('u32[]', [0, 0])], restype='long')
                if r['status'] != 'ok': return True, 'native Import_Table on %d header lines %s + %d x %d numbers: %s' % (len(m['header']), m['header'], R, C, r['status'])
                sh = tuple(r['arrays'][2]); vals = r['arrays'][1][:R * C]; want = [T[i][j] * (U[j] if U else 1.0) for i in range(R) for j in range(C)]
                bad = sh != (R, C) or any(abs(a - b) > 1e-9 * max(1.0, abs(b)) for a, b in zip(vals, want))
                return bad, 'native Import_Table on a file with header line lengths %s and %d x %d numbers: shape %s, values %s (expected %s)' % (m['header'], R, C, sh, vals[:6], want[:6])
            u = fnum(m.get('unit'), 2.0); r = nat.call(so, 'verif_import_list', [('str', path), u, ('u32', len(m['header'])), ('dbl[]', [0.0] * (R * C + 4)), ('u64', R * C + 4)], restype='long')
            if r['status'] != 'ok': return True, 'native Import_List: %s' % r['status']
            want = [T[i][j] * u for i in range(R) for j in range(C)]; vals = r['arrays'][1][:R * C]
            return (r['ret'] != R * C or any(abs(a - b) > 1e-9 * max(1.0, abs(b)) for a, b in zip(vals, want))), 'native Import_List: %d values %s (expected %d: %s)' % (r['ret'], vals[:6], R * C, want[:6])
        finally:
            import shutil; shutil.rmtree(d, ignore_errors=True)
    if key.startswith('C20/units'):
        so = native_units(ctx); r = nat.call(so, 'verif_units', [('dbl[]', [0.0] * len(UNITS))], restype='void'); u = dict(zip(UNITS, r['arrays'][0])); bad = []
        for n, f in DEFS.items():
            try: want = f(u)
            except Exception: want = float('nan')
            if not (abs(u[n] - want) <= 4 * 2.3e-16 * abs(want)) or u[n] == 0: bad.append('%s=%r (defining product %r)' % (n, u[n], want))
        return bool(bad), 'native g++ -O2 build of Natural_Units.cpp: %s' % ('; '.join(bad[:4]) or 'all derived constants equal their defining products (the %s configuration differs)' % m.get('opt'))
    so = C19.native(ctx); rows, cols = m['rows'], m['cols']; q = [fl(x) for x in m['q']]; u = fl(m['u']) or 2.0; op = m['op']
    if op >= 13:
        # container overloads with rounding: the native result against the native scalar overload applied element by element (values with more digits than requested; the model's unit is kept - it may be exactly 1)
        q = [(1.23456 + 0.731 * k) * (-1) ** k * 10.0 ** (k % 3) for k in range(rows * cols)]
        r = nat.call(so, 'verif_in_units', [('i32', op), ('u32', rows), ('u32', cols), ('dbl[]', q), u, ('u32', 3), ('i32', 0), ('dbl[]', [0.0] * 32)], restype='long')
        if r['status'] != 'ok': return True, 'native In_Units (rounded, overload %d): %s' % (op - 10, r['status'])
        got = r['arrays'][1][:max(r['ret'], 0)]; want = []
        for i in range(rows):
            for j in range(cols):
                want.append(nat.call(so, 'verif_in_units', [('i32', 2), ('u32', 1), ('u32', 1), ('dbl[]', [q[i * cols + j]]), (u if op != 17 else (j + 1) * u), ('u32', 3), ('i32', 0), ('dbl[]', [0.0] * 32)], restype='long')['arrays'][1][0])
        return (len(got) != len(want) or got != want), 'native In_Units(container, unit %r, round to 3 digits) overload %d on %dx%d: %s; the scalar overload gives %s' % (u, op - 10, rows, cols, got[:6], want[:6])
    if op == 1: q = [q[0] * u]
    r = nat.call(so, 'verif_in_units', [('i32', op), ('u32', rows if op in (4, 6, 7) else 1), ('u32', cols if op != 1 and op != 2 else 1), ('dbl[]', q), u, ('u32', 3), ('i32', m.get('ragged', 0)), ('dbl[]', [0.0] * 32)], restype='long')
    if key == 'C20/in-units/ragged-rejected': return r['status'] != 'exit', 'native In_Units on a ragged table: %s' % r.get('ret', r['status'])
    if r['status'] != 'ok': return True, 'native In_Units ended: ' + r['status']
    got = r['arrays'][1][:max(r['ret'], 0)]
    if op == 1: return abs(got[0] - q[0] / u) > 1e-12 * abs(q[0] / u or 1), 'native In_Units(%r,%r) = %r' % (q[0], u, got[0])
    want = [q[i * cols + j] / (u if op != 7 else (j + 1) * u) for i in range(rows if op in (4, 6, 7) else 1) for j in range(cols)]
    bad = len(got) != len(want) or any(abs(a - b) > 1e-12 * max(abs(b), 1e-300) for a, b in zip(got, want))
    return bad, 'native In_Units overload %d on %dx%d: %s, element-wise q/u is %s' % (op, rows, cols, got[:6], want[:6])
