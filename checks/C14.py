"""C14 - Monte Carlo integrators sample only inside the region and forget earlier calls (DESIGN.md section 2/C14)"""
from num_common import *
from C13 import SU

EXPLANATION = ('C14: real Integrate_MC_Brute_Force / Miser / Integrate_MC_Vegas with Sample_Uniform replaced by the random stream (symbols u_k in [0,1) or, where the control flow depends on the draws, a scripted stream) and an uninterpreted integrand: '
               'all sample points inside the hyper-rectangle, constants integrated to volume*c, Miser split sends the two halves of the region to the recursion with a conserved call budget, Vegas first-iteration samples lie inside the region; '
               'history independence by running the observed call from a fresh state and after a different earlier call (function-local statics carried over in the interpreter memory) and comparing sample points, recursion arguments and results; '
               'Vegas re-entered on an ARBITRARY valid grid samples inside the region (all strata, edge draws) and the real Rebin maps every valid grid and all positive densities to a valid grid - together an induction over Vegas iterations for the inside-the-region clause.')
BOUNDS = {'quick': {'dims': [1, 2], 'plain_calls': 3, 'vegas_calls': 4, 'rebin': [(2, 2), (3, 3), (2, 3), (3, 2)]}, 'thorough': {'dims': [1, 2, 3], 'plain_calls': 4, 'vegas_calls': 8, 'rebin': [(2, 2), (3, 3), (4, 4), (2, 3), (3, 2), (3, 4), (4, 3), (5, 5)]}}
NOT_DECIDED = ['the 6-sigma accuracy clause (statistics)', 'the VALUES Vegas computes from iteration 2 on (weights and smoothed densities go through pow/log): only the inside-the-region clause is carried over all iterations, by induction (arbitrary valid grid + Rebin keeps grids valid, for bin counts in the bound; that the smoothed densities handed to Rebin are positive is assumed)', 'the distribution of the random stream']
ASSUMPTIONS = ['doubles exact reals', 'std::random_device/mt19937 are not consulted: every draw goes through Sample_Uniform, which is replaced by the stream', 'region lower < upper per axis, symbolic',
               'Miser split level and Vegas: the stream is scripted (two fixed sequences) because bin indices / side tests branch on every draw; region and integrand stay symbolic']

FV = z3.Function('FV', z3.RealSort(), z3.RealSort(), z3.RealSort(), z3.RealSort())
def fv_uninterp(comps):
    comps = list(comps)[:3]; c = [toR(x) for x in comps] + [z3.RealVal(0)] * (3 - len(comps)); return FV(*c)
def stream(script=None):
    def h(it, args, st, depth):
        k = sum(1 for e in st.events if e[0] == 'draw')
        if script is None:
            u = z3.Real('u%d' % k); st.pc += [u >= 0, u < 1]
        else: u = script[k % len(script)]
        st.events.append(('draw', u)); lo, hi = args[1], args[2]
        if isinstance(u, float) and isinstance(lo, float) and isinstance(hi, float): return [(st, lo + u * (hi - lo))]
        return [(st, toR(lo) + toR(u) * (toR(hi) - toR(lo)))]
    return {SU: h}
def region(dim, tag=''):
    lo = [z3.Real('lo%s%d' % (tag, i)) for i in range(dim)]; hi = [z3.Real('hi%s%d' % (tag, i)) for i in range(dim)]
    return lo, hi, [l < h for l, h in zip(lo, hi)]
def inside(lo, hi, comps): return z3.And(*[z3.And(lo[k] <= toR(comps[k]), toR(comps[k]) <= hi[k]) for k in range(len(lo))])
def volume(lo, hi):
    v = z3.RealVal(1)
    for l, h in zip(lo, hi): v = v * (h - l)
    return v
SCRIPTS = [[0.137, 0.731, 0.402, 0.956, 0.288, 0.613, 0.049, 0.875, 0.521, 0.334, 0.792, 0.168, 0.647, 0.913, 0.256, 0.480, 0.071, 0.699, 0.382, 0.844, 0.559], [0.91, 0.08, 0.55, 0.33, 0.77, 0.19, 0.64, 0.42, 0.99 - 1e-9, 0.0, 0.27, 0.83, 0.5, 0.11, 0.7]]

def job_plain(method, dim, ncall):
    res = []; nm = {6: 'brute-force', 8: 'miser-leaf'}[method]; tag = '%s/dim%d/n%d' % (nm, dim, ncall)
    lo, hi, pre = region(dim); c = z3.Real('cval')
    for variant, fn in (('uninterpreted', fv_uninterp), ('constant', lambda comps: c)):
        inter = dict(stream()); inter.update(user_fv(fn))
        _, paths = run('@verif_c14_mc', [method, dim, lambda st: st.put_doubles(lo + hi), ncall], inter, pre=pre, limits=Limits(max_steps=10000000, max_paths=200))
        mv = {'lo': lo, 'hi': hi, 'dim': dim, 'ncall': ncall, 'method': method, 'c': c}
        for pi, p in enumerate(paths):
            if p.end is not None: res.append(prove('%s/%s/returns[%d]' % (tag, variant, pi), p.st.pc, z3.BoolVal(False), 20000, mv, key='C14/%s/returns' % nm, detail=str(p.end))); continue
            cs = calls(p.st)
            if variant == 'uninterpreted':
                res.append(prove('%s/points-inside[%d]' % (tag, pi), p.st.pc, z3.And(*[inside(lo, hi, cc[1]) for cc in cs]), 60000, mv, key='C14/%s/points-inside' % nm, sample=(pi == 0 and dim == 2)))
                res.append(ob('%s/evaluations[%d]' % (tag, pi), 'discharged' if len(cs) == ncall else 'candidate', key='C14/%s/evaluations' % nm, model=None if len(cs) == ncall else mv, detail='%d evaluations for %d calls' % (len(cs), ncall)))
                rd = [e for e in p.st.events if e[0] == 'random_device']
            else:
                res.append(prove('%s/constant-exact[%d]' % (tag, pi), p.st.pc, toR(p.ret) == volume(lo, hi) * c, 60000, mv, key='C14/%s/constant' % nm))
        if not paths: res.append(ob('%s/%s/reach' % (tag, variant), 'broken', detail='no path'))
    return res

MISER = '@_ZN10libphysica5MiserESt8functionIFdRSt6vectorIdSaIdEEdEES4_idRdS7_RSt23mersenne_twister_engineImLm32ELm624ELm397ELm31ELm2567483615ELm11ELm4294967295ELm7ELm2636928640ELm15ELm4022730752ELm18ELm1812433253EE'
def miser_contract(it, args, st, depth):
    """recursive Miser call: record (region, npts), return ave = fresh symbol through the reference arguments"""
    if depth < 2: return NotImplemented
    regp, npts = args[1], args[2]
    b = st.load(regp, 8); e = st.load(regp + 8, 8); reg = [st.load(b + 8 * i, 8, True) for i in range((e - b) // 8)]
    k = sum(1 for ev in st.events if ev[0] == 'rec')
    st.events.append(('rec', tuple(reg), npts))
    st.store(args[4], 8, z3.Real('ave_rec%d' % k)); st.store(args[5], 8, z3.Real('var_rec%d' % k))
    return [(st, None)]

def miser_contract_concrete(it, args, st, depth):
    if depth < 2: return NotImplemented
    st.store(args[4], 8, 1.0); st.store(args[5], 8, 0.0)
    return [(st, None)]

def iran_addr(it):
    for g, a in it.gaddr.items():
        if isinstance(g, str) and 'Miser' in g and 'iran' in g: return a
    return None

def job_miser_split(dim, script, npts=60):
    """one split level of Miser (npts >= MNBS): pre-sampling points inside, the recursion receives the two halves of the region along one axis, budgets add up; and the same from two different values of the function-local static iran (= two call histories)"""
    res = []; tag = 'miser-split/dim%d/script%d' % (dim, script)
    lo, hi, pre = region(dim)
    runs = {}
    for hist in ('fresh', 'after-other-calls'):
        inter = dict(stream(SCRIPTS[script])); inter.update(user_fv(fv_uninterp)); inter[MISER] = miser_contract
        it = Interp(G['m'], intercept=inter, limits=Limits(max_steps=20000000, max_paths=400, feas_ms=1000, max_seconds=200)); st = it.new_state(); st.pc += pre
        if hist != 'fresh':
            # two earlier, completed Miser integrations of other dimensions with a constant integrand (concrete: no forks); whatever function-local state they leave behind stays in the interpreter memory
            it.intercept = dict(DEFAULT_INTERCEPTS_()); it.intercept.update(stream(SCRIPTS[1 - script])); it.intercept.update(user_fv(lambda comps: 1.0)); it.intercept[MISER] = miser_contract_concrete
            for hd in (3, 1):
                hp = it.execute('@verif_c14_mc', [8, hd, st.put_doubles([0.0] * hd + [1.0 + k for k in range(hd)]), 61 + hd], st)
                live = [p for p in hp if p.end is None]
                if len(live) != 1: raise Unsupported('history call: %s' % [str(p.end) for p in hp][:3])
                st = live[0].st
            st.events = [e for e in st.events if e[0] not in ('call', 'draw', 'rec')]
            it.intercept = dict(DEFAULT_INTERCEPTS_()); it.intercept.update(inter)
        paths = it.execute('@verif_c14_mc', [8, dim, st.put_doubles(lo + hi), npts], st)
        runs[hist] = paths
    mv = {'lo': lo, 'hi': hi, 'dim': dim, 'script': script, 'npts': npts}
    for pi, p in enumerate(runs['fresh']):
        if p.end is not None: res.append(prove('%s/returns[%d]' % (tag, pi), p.st.pc, z3.BoolVal(False), 20000, mv, key='C14/miser/returns', detail=str(p.end))); continue
        cs = calls(p.st); recs = [e for e in p.st.events if e[0] == 'rec']
        res.append(prove('%s/presample-points-inside[%d]' % (tag, pi), p.st.pc, z3.And(*[inside(lo, hi, c[1]) for c in cs]), 60000, mv, key='C14/miser/points-inside'))
        if len(recs) != 2: res.append(ob('%s/two-subregions[%d]' % (tag, pi), 'candidate', key='C14/miser/recursion-shape', model=mv, detail='%d recursive calls' % len(recs))); continue
        (ra, na), (rb, nb) = (recs[0][1], recs[0][2]), (recs[1][1], recs[1][2])
        # the two sub-regions: identical to the region except along one axis j, where they are [lo_j, mid_j] and [mid_j, hi_j]
        halves = []
        for j in range(dim):
            mid = (lo[j] + hi[j]) / 2
            same = z3.And(*[z3.And(toR(ra[k]) == lo[k], toR(ra[dim + k]) == hi[k], toR(rb[k]) == lo[k], toR(rb[dim + k]) == hi[k]) for k in range(dim) if k != j] + [z3.BoolVal(True)])
            halves.append(z3.And(same, toR(ra[j]) == lo[j], toR(ra[dim + j]) == mid, toR(rb[j]) == mid, toR(rb[dim + j]) == hi[j]))
        res.append(prove('%s/subregions-are-halves[%d]' % (tag, pi), p.st.pc, z3.Or(*halves), 60000, mv, key='C14/miser/subregions'))
        ia_, ib_ = toI(na, 32), toI(nb, 32)
        res.append(prove('%s/budget-conserved[%d]' % (tag, pi), p.st.pc + alg_assumptions(p.st), z3.And(ia_ + ib_ + len(cs) == npts, ia_ >= 15, ib_ >= 15), 60000, mv, key='C14/miser/budget', detail='npre=%d' % len(cs)))
    # history: same inputs, different static state => same recursion arguments on every jointly feasible pair of paths
    npair = 0
    for pi, p in enumerate(runs['fresh']):
        for qi, q in enumerate(runs['after-other-calls']):
            if p.end is not None or q.end is not None: continue
            so = z3.Solver(); so.set('timeout', 3000); so.add(*(p.st.pc + q.st.pc))
            if so.check() == z3.unsat: continue
            npair += 1
            ra = [e for e in p.st.events if e[0] == 'rec']; rb = [e for e in q.st.events if e[0] == 'rec']
            if len(ra) != len(rb): res.append(ob('%s/history/same-shape[%d,%d]' % (tag, pi, qi), 'candidate', key='C14/miser/history', model=mv)); continue
            eqs = []
            for x, y in zip(ra, rb):
                eqs += [toR(a) == toR(b) for a, b in zip(x[1], y[1])]
                if not (is_sym(x[2]) or is_sym(y[2])): eqs.append(z3.BoolVal(x[2] == y[2]))
            cs = calls(p.st)
            res.append(prove('%s/history/same-subregions[%d,%d]' % (tag, pi, qi), p.st.pc + q.st.pc, z3.And(*eqs), 60000, dict(mv, calls=[[toR(t) for t in c[1]] + [c[2]] for c in cs][:1] and None), key='C14/miser/history', detail='fresh process vs after two other Miser integrations'))
    if npair == 0: res.append(ob(tag + '/history/pairs', 'broken', detail='no jointly feasible pair'))
    return res

def job_vegas(dim, script, ncall):
    """Vegas, init=0, first iteration, cut after its sampling loop: sample points inside the region; identical samples and weights from a fresh process and after an earlier, different Vegas call"""
    res = []; tag = 'vegas/dim%d/script%d' % (dim, script)
    lo, hi, pre = region(dim)
    def cut_sqrt(it, args, st, depth): raise PathEnd('cutoff', 'end of the first sampling loop')
    def go(history):
        inter = dict(stream(SCRIPTS[script])); inter.update(user_fv(fv_uninterp))
        it = Interp(G['m'], intercept=inter, limits=Limits(max_steps=40000000, max_paths=100, feas_ms=1000, max_seconds=300)); st = it.new_state(); st.pc += pre
        if history:
            # an earlier, completed, different call: other dimension, concrete region and integrand (runs concretely, leaves the function statics behind)
            h_inter = dict(stream(SCRIPTS[1 - script])); h_inter.update(user_fv(lambda comps: 1.0 + sum(comps)))
            it.intercept = dict(DEFAULT_INTERCEPTS_()); it.intercept.update(h_inter)
            hd = 3 - dim if dim < 3 else 2
            hp = it.execute('@verif_c14_vegas', [hd, st.put_doubles([0.5 * k for k in range(hd)] + [2.0 + k for k in range(hd)]), 0, 2 * ncall + 3, 2], st)
            live = [p for p in hp if p.end is None]
            if len(live) != 1: raise Unsupported('history call: %s' % [str(p.end) for p in hp][:3])
            st = live[0].st; st.events = [e for e in st.events if e[0] not in ('call', 'draw')]
        it.intercept = dict(DEFAULT_INTERCEPTS_()); it.intercept.update(dict(stream(SCRIPTS[script]))); it.intercept.update(user_fv(fv_uninterp))
        it.intercept['@sqrt'] = cut_sqrt; it.intercept['@llvm.sqrt.f64'] = cut_sqrt
        return it.execute('@verif_c14_vegas', [dim, st.put_doubles(lo + hi), 0, ncall, 1], st)
    fresh = go(False); hist = go(True)
    mv = {'lo': lo, 'hi': hi, 'dim': dim, 'script': script, 'ncall': ncall}
    for pi, p in enumerate(fresh):
        if p.end is None or p.end.kind != 'cutoff':
            res.append(prove('%s/reaches-end-of-sampling[%d]' % (tag, pi), p.st.pc, z3.BoolVal(False), 20000, mv, key='C14/vegas/returns', detail=str(p.end))); continue
        cs = calls(p.st)
        res.append(prove('%s/points-inside[%d]' % (tag, pi), p.st.pc, z3.And(*[inside(lo, hi, c[1][:dim]) for c in cs]), 60000, mv, key='C14/vegas/points-inside'))
        res.append(ob('%s/evaluations[%d]' % (tag, pi), 'discharged' if len(cs) >= 2 else 'broken', key='C14/coverage', detail='%d evaluations in the first iteration' % len(cs)))
    n = 0
    for pi, p in enumerate(fresh):
        for qi, q in enumerate(hist):
            if p.end is None or q.end is None or p.end.kind != 'cutoff' or q.end.kind != 'cutoff': continue
            so = z3.Solver(); so.set('timeout', 3000); so.add(*(p.st.pc + q.st.pc))
            if so.check() == z3.unsat: continue
            n += 1; ca, cb = calls(p.st), calls(q.st)
            if len(ca) != len(cb): res.append(ob('%s/history/same-number-of-samples[%d,%d]' % (tag, pi, qi), 'candidate', key='C14/vegas/history', model=mv, detail='%d vs %d' % (len(ca), len(cb)))); continue
            eqs = [toR(x) == toR(y) for a, b in zip(ca, cb) for x, y in zip(a[1][:dim], b[1][:dim])]   # only the first ndim components are the sample point (the static work vector has MXDIM entries)
            res.append(prove('%s/history/same-sample-points[%d,%d]' % (tag, pi, qi), p.st.pc + q.st.pc, z3.And(*eqs), 60000, mv, key='C14/vegas/history', detail='fresh statics vs statics left by an earlier %d-dimensional call' % (3 - dim if dim < 3 else 2)))
    if n == 0: res.append(ob(tag + '/history/pairs', 'broken', detail='no jointly feasible pair (%d fresh, %d history paths: %s)' % (len(fresh), len(hist), [str(q.end) for q in hist][:2])))
    return res

SCRIPT_EDGE = [0.0, 0.995, 0.019, 0.5, 0.021, 0.981, 0.3, 0.979, 0.999, 0.001, 0.0, 0.62, 0.985, 0.015, 0.0, 0.44]
GRID_SCRIPTS = {'zeros': [0.0], 'ones': [1.0 - 2.0 ** -53], 'edges': SCRIPT_EDGE}
def job_vegas_grid(dim, ncall, sname):
    """Vegas re-entered with init = 1 on an ARBITRARY valid importance grid (0 < xi_0 < ... < xi_49 = 1 per axis, the state any number of earlier iterations can leave behind): every sample of the next iteration lies inside the region.
       The draws are scripted and include the ends of the unit interval, so that the first and the last grid bin are selected."""
    res = []; tag = 'vegas-grid/dim%d/%s' % (dim, sname); lo, hi, pre = region(dim); NDMX = 50; SCRIPT_EDGE = GRID_SCRIPTS[sname]
    def cut_sqrt(it, args, st, depth): raise PathEnd('cutoff', 'end of the first sampling loop')
    inter = dict(stream(SCRIPT_EDGE)); inter.update(user_fv(lambda comps: 1.0 + sum(comps)))
    it = Interp(G['m'], intercept=inter, limits=Limits(max_steps=40000000, max_paths=100, feas_ms=1000, max_seconds=300)); st = it.new_state(); st.pc += pre
    hp = it.execute('@verif_c14_vegas', [dim, st.put_doubles([0.5 * k for k in range(dim)] + [2.0 + k for k in range(dim)]), 0, ncall, 1], st)     # concrete first call: constructs the function statics
    live = [p for p in hp if p.end is None]
    if len(live) != 1: return [ob(tag + '/setup', 'undecided', detail='initialising call: %s' % [str(p.end) for p in hp][:3])]
    st = live[0].st; st.events = [e for e in st.events if e[0] not in ('call', 'draw')]
    ga = {str(g).rsplit('E', 1)[-1]: a for g, a in it.gaddr.items() if isinstance(g, str) and g.startswith('@_ZZN') and 'Integrate_MC_Vegas' in g}
    if not all(k in ga for k in ('2xi', '3ndo', '3mds')): return [ob(tag + '/setup', 'broken', detail='Vegas statics not found: %s' % sorted(ga))]
    if st.load(ga['3ndo'], 4) != NDMX: return [ob(tag + '/setup', 'undecided', detail='grid size after the first call is %r, not %d' % (st.load(ga['3ndo'], 4), NDMX))]
    rows = st.load(ga['2xi'], 8); XI = []
    for j in range(dim):
        data = st.load(rows + 24 * j, 8); g = [z3.Real('xi_%d_%d' % (j, i)) for i in range(NDMX - 1)] + [1.0]
        for i in range(NDMX): st.store(data + 8 * i, 8, g[i])
        st.pc += [g[0] > 0] + [toR(g[i]) < toR(g[i + 1]) for i in range(NDMX - 1)]; XI.append(g)
    def any_root(it, args, st, depth):
        # per-stratum sqrt(f2b*npg): an arbitrary non-negative number (over-approximation; the sample positions do not depend on it)
        if not is_sym(args[0]): return NotImplemented
        k = sum(1 for e in st.events if e[0] == 'anyroot'); v = z3.Real('root%d' % k); st.pc.append(v >= 0); st.events.append(('anyroot',)); return [(st, v)]
    def cut_sym(it, args, st, depth):
        if any(is_sym(a) for a in args): raise PathEnd('cutoff', 'grid refinement reached: end of the sampling of all strata')
        return NotImplemented
    it.intercept = dict(DEFAULT_INTERCEPTS_()); it.intercept.update(stream(SCRIPT_EDGE)); it.intercept.update(user_fv(fv_uninterp))
    for nme in ('@sqrt', '@llvm.sqrt.f64'): it.intercept[nme] = any_root
    for nme in ('@pow', '@llvm.pow.f64', '@log', '@llvm.log.f64'): it.intercept[nme] = cut_sym
    ps = it.execute('@verif_c14_vegas', [dim, st.put_doubles(lo + hi), 1, ncall, 1], st)
    mv = {'lo': lo, 'hi': hi, 'dim': dim, 'ncall': ncall, 'grid': [x for g in XI for x in g[:NDMX - 1]]}; n = 0
    for pi, p in enumerate(ps):
        if p.end is None or p.end.kind != 'cutoff':
            res.append(prove('%s/reaches-end-of-sampling[%d]' % (tag, pi), p.st.pc, z3.BoolVal(False), 20000, mv, key='C14/vegas/returns', detail=str(p.end))); continue
        cs = calls(p.st); n += len(cs)
        for ci, c in enumerate(cs):
            res.append(prove('%s/point-inside[%d,%d]' % (tag, pi, ci), p.st.pc, inside(lo, hi, c[1][:dim]), 30000, dict(mv, sample_index=ci), key='C14/vegas/grid-points-inside', tactic='nra'))
    res.append(ob(tag + '/coverage', 'discharged' if n >= 2 else 'broken', key='C14/coverage', detail='%d sample points on an arbitrary valid grid' % n))
    return res

def job_rebin(n_old, nd):
    """Vegas grid refinement keeps the grid valid: for every valid old grid (0 < xi_0 < ... < xi_{n-1} = 1), all positive densities r and rc = sum(r)/nd the real Rebin returns 0 < xi'_0 < ... < xi'_{nd-1} = 1
       and never indexes outside its arrays.  With job_vegas_grid (samples inside for every valid grid) this closes the induction over Vegas iterations for the 'inside the region' clause."""
    res = []; tag = 'rebin/%d->%d' % (n_old, nd); R = [z3.Real('r%d' % k) for k in range(n_old)]; XI = [z3.Real('g%d' % k) for k in range(n_old - 1)] + [1.0]; outp = {}
    pre = [r > 0 for r in R] + [XI[0] > 0] + [toR(XI[k]) < toR(XI[k + 1]) for k in range(n_old - 1)]
    def out(st): outp['a'] = st.alloc(8 * nd); return outp['a']
    rc = sum(R) / nd
    _, ps = run('@verif_c14_rebin', [n_old, nd, rc, lambda st: st.put_doubles(R), lambda st: st.put_doubles(XI), out], {}, pre=pre, limits=Limits(max_paths=4000, feas_ms=2000, max_seconds=300))
    mv = {'r': R, 'grid': XI[:n_old - 1], 'n_old': n_old, 'nd': nd}; nret = 0
    for pi, p in enumerate(ps):
        if p.end is not None:
            if p.end.kind != 'cutoff': res.append(prove('%s/no-%s[%d]' % (tag, p.end.kind, pi), p.st.pc, z3.BoolVal(False), 30000, mv, key='C14/rebin/' + p.end.kind, detail=str(p.end), tactic='nra'))
            continue
        nret += 1; g = [toR(p.st.load(outp['a'] + 8 * k, 8, True)) for k in range(nd)]
        valid = z3.And(*([g[0] > 0, g[nd - 1] == 1] + [g[k] < g[k + 1] for k in range(nd - 1)]))
        res.append(prove('%s/grid-stays-valid[%d]' % (tag, pi), p.st.pc + alg_assumptions(p.st), valid, 60000, mv, key='C14/rebin/valid-grid', tactic='nra', sample=(nret == 1)))
        res += divisor_obligations('%s/p%d' % (tag, pi), p.st, model_vars=mv, key='C14/rebin/division', timeout_ms=20000, tactic='nra')
    res.append(ob(tag + '/coverage', 'discharged' if nret else 'broken', key='C14/coverage', detail='%d returning of %d paths' % (nret, len(ps))))
    return res

def job_front_end(dim, ncall):
    """the two- and three-dimensional Monte-Carlo front ends pass the region in the right order: the obligations of C13 (same code, same keys) re-run under this property"""
    import C13
    return C13.job_mc(dim, ncall)

def DEFAULT_INTERCEPTS_():
    import llsym
    return llsym.DEFAULT_INTERCEPTS

def jobs(ctx):
    m = module(ctx); b = BOUNDS[ctx.tier]; J = []
    if SU not in m.funcs or MISER not in m.funcs: raise RuntimeError('expected mangled names of Sample_Uniform / Miser not found')
    for d in b['dims']:
        J.append((job_plain, (6, d, b['plain_calls']))); J.append((job_plain, (8, d, b['plain_calls'])))
        for sc in (0, 1): J.append((job_miser_split, (d, sc)))
    for d in b['dims'][:2]:
        for sc in (0, 1): J.append((job_vegas, (d, sc, b['vegas_calls'])))
    for (no, nd) in b.get('rebin', []): J.append((job_rebin, (no, nd)))
    for d in (2, 3): J.append((job_front_end, (d, 2)))
    for d in b['dims'][:2]:
        for sn in GRID_SCRIPTS: J.append((job_vegas_grid, (d, 2 * b['vegas_calls'], sn)))
    return J

def validate(ctx):
    return [ob('translator-validation', 'discharged', backend='TV', detail='shared IR and interpreter with C13 (validated there against the native build); the native MC entry points draw from std::random_device and cannot be compared run by run without the seed hook')]

def replay(ctx, o):
    import ctypes
    if str(o.get('key', '')).startswith('C13/'):
        import C13
        return C13.replay(ctx, o)
    so = native(ctx); m = o['model'] or {}; key = o['key']
    if key.startswith('C14/rebin'):
        R = [q2f(q) for q in m['r']]; g = [q2f(q) for q in m['grid']] + [1.0]; nd = m['nd']; no = m['n_old']
        r = nat.call(so, 'verif_c14_rebin', [('u32', no), ('i32', nd), sum(R) / nd, ('dbl[]', R), ('dbl[]', g), ('dbl[]', [0.0] * nd)], restype='void')
        if r['status'] != 'ok': return True, 'native Rebin(%d -> %d bins, r=%s, grid=%s): %s' % (no, nd, R, g, r['status'])
        o_ = r['arrays'][2]; bad = not (o_[0] > 0 and o_[-1] == 1.0 and all(o_[k] < o_[k + 1] for k in range(nd - 1)))
        return bad, 'native Rebin(%d -> %d bins) of grid %s with densities %s gives %s' % (no, nd, g, R, o_)
    if 'lo' not in m: return False, 'no model'
    lo = [q2f(q) for q in m['lo']]; hi = [q2f(q) for q in m['hi']]; d = m['dim']
    if any(a >= b for a, b in zip(lo, hi)): lo = [0.0] * d; hi = [1.0 + 0.5 * k for k in range(d)]
    sigv = ctypes.CFUNCTYPE(ctypes.c_double, ctypes.POINTER(ctypes.c_double), ctypes.c_ulong)
    if key == 'C14/vegas/grid-points-inside':
        # let the real Vegas adapt its grid to an integrand that rises steeply towards the upper faces (narrow last bins), several iterations, then look at every point it evaluates
        out = []
        def fpk(p, n):
            t = [(p[k] - lo[k]) / (hi[k] - lo[k]) for k in range(d)]
            fpk.note = [p[k] for k in range(d)]
            return math.exp(-40.0 * sum(1.0 - x for x in t))
        def pre_seed(lib): ctypes.c_uint.in_dll(lib, 'libphysica_verif_mc_seed').value = 4242
        tot = 0
        for nobs in (600, 40):
            r = nat.call(so, 'verif_c14_vegas', [('u32', d), ('dbl[]', lo + hi), ('i32', 0), ('i32', nobs), ('i32', 6)], fcb=fpk, fcb_name='verif_fv_ptr', fcb_sig=sigv, pre=pre_seed)
            if r['status'] != 'ok': return False, 'native Vegas: %s' % r.get('error', r['status'])
            bad = [c[2] for c in r['calls'] if len(c) > 2 and any(c[2][k] < lo[k] or c[2][k] > hi[k] for k in range(d))]; tot += len(r['calls'])
            if bad: return True, 'native Vegas (%d calls, 6 iterations, seed 4242) on region %s with an integrand peaked at the upper faces evaluated it at %d points outside the region, first %s' % (nobs, lo + hi, len(bad), bad[0])
        return False, 'native Vegas on region %s: all %d evaluation points inside' % (lo + hi, tot)
    if key.startswith('C14/vegas/history'):
        # the observed Vegas call (init = 0) from a fresh process and after an earlier Vegas call, same seed: several earlier calls are tried, first the one of the symbolic run (other dimension, 2 ncall + 3 calls, 2 iterations)
        def fvp(p, n):
            t = (p[0] - lo[0]) / (hi[0] - lo[0]) if n == d else p[0] / 3.0
            return math.exp(-50.0 * (t - 0.8) ** 2) + 0.1
        nc = m.get('ncall', 4); tried = []
        for hd, nh in ((3 - d if d < 3 else 2, 2 * nc + 3), (2, 1000), (1, 1000), (3, 1000), (1, 40), (2, 40)):
            for nobs in (nc, 40, 1000):
                def pre_hist(lib, hd=hd, nh=nh):
                    reg = (ctypes.c_double * (2 * hd))(*([0.5 * k for k in range(hd)] + [2.0 + k for k in range(hd)])); lib.verif_c14_vegas.restype = ctypes.c_double
                    ctypes.c_uint.in_dll(lib, 'libphysica_verif_mc_seed').value = 777
                    lib.verif_c14_vegas(ctypes.c_uint(hd), reg, ctypes.c_int(0), ctypes.c_int(nh), ctypes.c_int(2))
                    ctypes.c_uint.in_dll(lib, 'libphysica_verif_mc_seed').value = 4242
                def pre_fresh(lib): ctypes.c_uint.in_dll(lib, 'libphysica_verif_mc_seed').value = 4242
                args = [('u32', d), ('dbl[]', lo + hi), ('i32', 0), ('i32', nobs), ('i32', 1)]
                try:
                    r0 = nat.call(so, 'verif_c14_vegas', args, fcb=fvp, fcb_name='verif_fv_ptr', fcb_sig=sigv, pre=pre_fresh); r1 = nat.call(so, 'verif_c14_vegas', args, fcb=fvp, fcb_name='verif_fv_ptr', fcb_sig=sigv, pre=pre_hist)
                except Exception as e: return False, 'replay needs the seed hook libphysica_verif_mc_seed: %r' % e
                if r0['status'] != 'ok' or r1['status'] != 'ok': return False, 'native runs: %s / %s (seed hook missing?)' % (r0.get('error', r0['status']), r1.get('error', r1['status']))
                tried.append((hd, nh, nobs))
                if r0['ret'] != r1['ret']:
                    return True, 'native Vegas (init 0, %d calls, 1 iteration, seed 4242) on region %s: %r from a fresh process, %r after a %d-dimensional Vegas call with %d calls' % (nobs, lo + hi, r0['ret'], r1['ret'], hd, nh)
        return False, 'native Vegas with the same seed: identical results from a fresh process and after each of %d earlier-call variants' % len(tried)
    if key.startswith('C14/miser/history') or key.startswith('C14/vegas/history'):
        meth = 8 if 'miser' in key else 7
        # integrand without variation on either side of any midpoint in the pre-sample (fallback split) but with a narrow spike: the split axis matters, the pre-sampling does not see it
        def fv(p, n): return 1.0 if not (p[0] > lo[0] + 0.97 * (hi[0] - lo[0])) else 500.0
        seed = 4242
        def pre_hist(lib):
            reg = (ctypes.c_double * 6)(0.0, 1.0, 2.0, 1.0, 3.0, 5.0); lib.verif_c14_mc.restype = ctypes.c_double
            ctypes.c_uint.in_dll(lib, 'libphysica_verif_mc_seed').value = 777
            lib.verif_c14_mc(ctypes.c_int(meth), ctypes.c_uint(3), reg, ctypes.c_int(300))
            lib.verif_c14_mc(ctypes.c_int(meth), ctypes.c_uint(1), reg, ctypes.c_int(200))
            ctypes.c_uint.in_dll(lib, 'libphysica_verif_mc_seed').value = seed
        def pre_fresh(lib): ctypes.c_uint.in_dll(lib, 'libphysica_verif_mc_seed').value = seed
        args = [('i32', meth), ('u32', d), ('dbl[]', lo + hi), ('i32', 4000)]
        try:
            r0 = nat.call(so, 'verif_c14_mc', args, fcb=fv, fcb_name='verif_fv_ptr', fcb_sig=sigv, pre=pre_fresh); r1 = nat.call(so, 'verif_c14_mc', args, fcb=fv, fcb_name='verif_fv_ptr', fcb_sig=sigv, pre=pre_hist)
        except Exception as e: return False, 'replay needs the seed hook libphysica_verif_mc_seed: %r' % e
        if r0['status'] != 'ok' or r1['status'] != 'ok': return False, 'native runs: %s / %s (seed hook missing?)' % (r0.get('error', r0['status']), r1.get('error', r1['status']))
        return r0['ret'] != r1['ret'], 'native %s with seed %d on region %s: fresh process %r; after two other integrations %r' % ('Miser' if meth == 8 else 'Vegas', seed, lo + hi, r0['ret'], r1['ret'])
    meth = m.get('method', 6)
    def fv(p, n): fv.note = [p[i] for i in range(n)]; return 2.5
    r = nat.call(so, 'verif_c14_mc', [('i32', meth), ('u32', d), ('dbl[]', lo + hi), ('i32', max(m.get('ncall', 3), 200))], fcb=fv, fcb_name='verif_fv_ptr', fcb_sig=sigv)
    if r['status'] != 'ok': return True, 'native MC call ended: ' + r['status']
    vol = 1.0
    for a, b in zip(lo, hi): vol *= b - a
    out = [c[2] for c in r['calls'] if len(c) > 2 and any(c[2][k] < lo[k] or c[2][k] > hi[k] for k in range(min(d, len(c[2]))))]
    return abs(r['ret'] - 2.5 * vol) > 1e-9 * abs(2.5 * vol) or bool(out), 'native MC integral of the constant 2.5 over %s = %r, volume*c = %r; %d of %d evaluation points outside the region%s' % (lo + hi, r['ret'], 2.5 * vol, len(out), len(r['calls']), (', first %s' % out[0]) if out else '')
