"""C13 - Named 1D methods and nested multi-dimensional integrals (DESIGN.md section 2/C13)"""
from num_common import *
import C12

EXPLANATION = ('C13: real Integrate(f,a,b,method,param), Integrate_2D, both Integrate_3D overloads with an uninterpreted integrand, for the two library-owned methods (Gauss-Legendre_2 with the rule of C12, Adaptive-Simpson with the recursion stubbed) and the Monte-Carlo front end: '
               'every integrand argument receives the variable of its own pair of limits (ranges made disjoint), the result is the nested rule sum, reversing one axis negates the result, equal limits give 0, unknown method names exit; '
               'the spherical overload passes vectors of norm r with z-component r*cos(theta), azimuth phi, and weights the integrand with r^2; the region handed to Integrate_MC is {lower..., upper...} in axis order.')
BOUNDS = {'quick': {'gauss_legendre_points': 2, 'mc_calls': 2}, 'thorough': {'gauss_legendre_points': 3, 'mc_calls': 3}}
NOT_DECIDED = ['accuracy of every method (1e-9 / 1e-6 clauses)', 'boost-backed methods Trapezoidal, Gauss-Legendre (boost), Gauss-Kronrod, Tanh-Sinh: adaptive code with data-dependent branching on an uninterpreted integrand; only their dispatch (method-name comparison) is exercised',
               'Vegas and Miser as front-end targets (covered as far as possible in C14)']
ASSUMPTIONS = ['doubles exact reals; integrand uninterpreted', 'Gauss-Legendre nodes: cos() replaced by the exact roots of P_n (as in C12)', 'limit ranges per axis pairwise disjoint (x in [0,1], y in [2,3], z in [4,5]) so that exchanged arguments are visible',
               'Adaptive_Simpson_Integration replaced by an uninterpreted result (its own behaviour is C03)', 'Sample_Uniform replaced by symbols u_k in [0,1)']

X1, X2, Y1, Y2, Z1, Z2 = [z3.Real(n) for n in ('x1', 'x2', 'y1', 'y2', 'z1', 'z2')]
BOX = [X1 >= 0, X1 <= 1, X2 >= 0, X2 <= 1, Y1 >= 2, Y1 <= 3, Y2 >= 2, Y2 <= 3, Z1 >= 4, Z1 <= 5, Z2 >= 4, Z2 <= 5]
GL2, ASIMP, MCARLO, NOSUCH = 4, 5, 6, 9
ASI = '@_ZN10libphysica28Adaptive_Simpson_IntegrationESt8functionIFddEEdddddddiRb'
RS = z3.Function('ASI_result', *([z3.RealSort()] * 8))
def asi_stub(it, args, st, depth):
    a, b, eps, S, fa, fb, fc, bottom = args[1:9]
    return [(st, RS(*[toR(x) for x in (a, b, eps, S, fa, fb, fc)]))]
USYM = {}
def sample_uniform(it, args, st, depth):
    k = sum(1 for e in st.events if e[0] == 'draw'); u = z3.Real('u%d' % k)
    st.events.append(('draw', u)); st.pc += [u >= 0, u < 1]
    lo, hi = args[1], args[2]
    return [(st, toR(lo) + u * (toR(hi) - toR(lo)))]
SU = '@_ZN10libphysica14Sample_UniformERSt23mersenne_twister_engineImLm32ELm624ELm397ELm31ELm2567483615ELm11ELm4294967295ELm7ELm2636928640ELm15ELm4022730752ELm18ELm1812433253EEdd'

def inter_for(n, arity, extra=None):
    zs, cons = C12.root_syms(n); d = dict(C12.cos_intercept(n, zs)); d.update(user_f(arity=arity, name={1: '@verif_f', 2: '@verif_f2', 3: '@verif_f3'}[arity]))
    d[ASI] = asi_stub; d[SU] = sample_uniform
    if extra: d.update(extra)
    return zs, cons, d

def rng(lo, hi, t): return z3.And(z3.If(lo <= hi, lo, hi) <= toR(t), toR(t) <= z3.If(lo <= hi, hi, lo))

def job_nd(dim, method, n):
    res = []; tag = '%dd/%s' % (dim, {GL2: 'Gauss-Legendre_2', ASIMP: 'Adaptive-Simpson'}[method])
    zs, cons, inter = inter_for(n, dim)
    lims = [X1, X2, Y1, Y2, Z1, Z2][:2 * dim]; fn = {1: '@verif_c13_int1', 2: '@verif_c13_int2', 3: '@verif_c13_int3'}[dim]
    mv = {'lims': lims, 'dim': dim, 'method': method, 'n': n}
    outs = {}
    for variant, pre in (('fwd', [lims[2 * k] < lims[2 * k + 1] for k in range(dim)]), ('rev0', [lims[0] > lims[1]] + [lims[2 * k] < lims[2 * k + 1] for k in range(1, dim)]),
                         ('revlast', [lims[2 * k] < lims[2 * k + 1] for k in range(dim - 1)] + [lims[2 * dim - 2] > lims[2 * dim - 1]]),
                         ('revall', [lims[2 * k] > lims[2 * k + 1] for k in range(dim)]), ('eq0', [lims[0] == lims[1]] + [lims[2 * k] < lims[2 * k + 1] for k in range(1, dim)])):
        if dim == 1 and variant in ('revlast', 'revall'): continue
        _, paths = run(fn, lims + [method, n], inter, pre=BOX + cons + pre, limits=Limits(max_paths=300, feas_ms=2000, max_seconds=240), resolve_selects=True)
        live = [p for p in paths if p.end is None]
        for pi, p in enumerate([q for q in paths if q.end is not None][:2]):
            res.append(prove('%s/%s/returns[%d]' % (tag, variant, pi), p.st.pc, z3.BoolVal(False), 20000, mv, key='C13/returns', detail=str(p.end)))
        if len(live) != 1: res.append(ob('%s/%s/single-path' % (tag, variant), 'undecided', detail='%d returning paths' % len(live))); continue
        p = live[0]; cs = calls(p.st); outs[variant] = p
        if variant == 'eq0':
            ok = (not is_sym(p.ret)) and p.ret == 0.0
            res.append(ob('%s/equal-limits-zero' % tag, 'discharged' if ok else 'candidate', key='C13/equal-limits-zero', model=None if ok else mv, detail='returned %s' % p.ret)); continue
        bad = []
        for c in cs:
            for k in range(dim): bad.append(z3.Not(rng(lims[2 * k], lims[2 * k + 1], c[1][k])))
        res.append(prove('%s/%s/argument-routing' % (tag, variant), p.st.pc + alg_assumptions(p.st), z3.Not(z3.Or(*bad)), 60000, mv, key='C13/argument-routing', tactic=None, sample=(variant == 'fwd' and dim == 2)))
        res.append(ob('%s/%s/evaluations' % (tag, variant), 'discharged' if len(cs) > 0 else 'broken', key='C13/coverage', detail='%d integrand evaluations' % len(cs)))
    if 'fwd' in outs:
        for v in ('rev0', 'revlast'):
            if v == 'revlast' and method == ASIMP: continue     # the recursion is an uninterpreted stub: oddness in the integrand values is C03's concern, not expressible here
            if v in outs:
                a, b = outs['fwd'], outs[v]
                sub = (0 if v == 'rev0' else dim - 1)
                t = z3.Real('swap_tmp'); rb = z3.substitute(toR(b.ret), (lims[2 * sub], t)); rb = z3.substitute(rb, (lims[2 * sub + 1], lims[2 * sub])); rb = z3.substitute(rb, (t, lims[2 * sub + 1]))
                res.append(prove('%s/reversing-axis-%d-negates' % (tag, sub), cons + alg_assumptions(a.st), toR(a.ret) == -rb, 60000, mv, key='C13/reversal-negates'))
        if 'revall' in outs and method == GL2:
            a, b = outs['fwd'], outs['revall']; rb = toR(b.ret)
            for k in range(dim):
                t = z3.Real('swap_tmp%d' % k); rb = z3.substitute(rb, (lims[2 * k], t)); rb = z3.substitute(rb, (lims[2 * k + 1], lims[2 * k])); rb = z3.substitute(rb, (t, lims[2 * k + 1]))
            res.append(prove('%s/reversing-all-axes-gives-sign-%+d' % (tag, (-1) ** dim), cons + alg_assumptions(a.st), toR(a.ret) == ((-1) ** dim) * rb, 60000, mv, key='C13/reversal-negates'))
    # the value is the nested rule sum (Gauss-Legendre_2 only)
    if method == GL2 and 'fwd' in outs:
        rules = []
        for k in range(dim):
            _, _, _, rs = C12.rule(n, lims[2 * k], lims[2 * k + 1], BOX + [lims[2 * k] < lims[2 * k + 1]])
            if len(rs) != 1: res.append(ob('%s/rule-axis%d' % (tag, k), 'undecided', detail='rule paths')); return res
            rules.append(rs[0])
        Ff = {1: F1, 2: F2, 3: F3}[dim]; tot = z3.RealVal(0)
        for idx in itertools.product(range(n), repeat=dim):
            w = z3.RealVal(1)
            for k, i in enumerate(idx): w = w * rules[k][2][i]
            tot = tot + w * Ff(*[rules[k][1][i] for k, i in enumerate(idx)])
        hyp = cons + BOX + [lims[2 * k] < lims[2 * k + 1] for k in range(dim)] + alg_assumptions(outs['fwd'].st)
        for r_ in rules: hyp += alg_assumptions(r_[0].st)
        res.append(prove('%s/value-is-nested-rule-sum' % tag, hyp, toR(outs['fwd'].ret) == tot, 120000, mv, key='C13/nested-rule-sum'))
    return res

def job_unknown_method():
    res = []
    for dim, fn in ((1, '@verif_c13_int1'), (2, '@verif_c13_int2'), (3, '@verif_c13_int3')):
        lims = [0.5, 1.0, 2.0, 3.0, 4.0, 5.0][:2 * dim]
        _, paths = run(fn, lims + [NOSUCH, 0], user_f(arity=dim, name={1: '@verif_f', 2: '@verif_f2', 3: '@verif_f3'}[dim]))
        ok = all(p.end is not None and p.end.kind == 'exit' and any(e[0] == 'diag' for e in p.st.events) for p in paths) and bool(paths)
        res.append(ob('unknown-method/%dd' % dim, 'discharged' if ok else 'candidate', key='C13/unknown-method-rejected', model=None if ok else {'dim': dim}, detail=str([str(p.end) for p in paths])))
    return res

def job_mc(dim, ncall):
    """Monte-Carlo front end: the integrand's k-th argument is drawn from the k-th pair of limits (region = {lower..., upper...})"""
    res = []; tag = 'mc/%dd' % dim
    _, _, inter = inter_for(2, dim)
    lims = [X1, X2, Y1, Y2, Z1, Z2][:2 * dim]; fn = {2: '@verif_c13_int2', 3: '@verif_c13_int3'}[dim]
    pre = BOX + [lims[2 * k] < lims[2 * k + 1] for k in range(dim)]
    _, paths = run(fn, lims + [MCARLO, ncall], inter, pre=pre, limits=Limits(max_paths=50, max_steps=8000000))
    mv = {'lims': lims, 'dim': dim, 'method': MCARLO, 'n': ncall}
    for pi, p in enumerate(paths):
        if p.end is not None: res.append(prove('%s/returns[%d]' % (tag, pi), p.st.pc, z3.BoolVal(False), 20000, mv, key='C13/returns', detail=str(p.end))); continue
        cs = calls(p.st); bad = []
        for c in cs:
            for k in range(dim): bad.append(z3.Not(rng(lims[2 * k], lims[2 * k + 1], c[1][k])))
        res.append(prove('%s/argument-routing[%d]' % (tag, pi), p.st.pc, z3.Not(z3.Or(*bad)), 60000, mv, key='C13/mc-region-order'))
        res.append(ob('%s/evaluations[%d]' % (tag, pi), 'discharged' if len(cs) == ncall else 'candidate', key='C13/mc-evaluations', model=None if len(cs) == ncall else mv, detail='%d evaluations for ncalls=%d' % (len(cs), ncall)))
        vol = z3.RealVal(1)
        for k in range(dim): vol = vol * (lims[2 * k + 1] - lims[2 * k])
        Ff = {2: F2, 3: F3}[dim]
        res.append(prove('%s/value[%d]' % (tag, pi), p.st.pc, toR(p.ret) * ncall == vol * sum(Ff(*[toR(a) for a in c[1]]) for c in cs), 60000, mv, key='C13/mc-value'))
    if not paths: res.append(ob(tag + '/reach', 'broken', detail='no path'))
    return res

def job_spherical(n):
    """Integrate_3D(f(Vector), r1,r2, cos1,cos2, phi1,phi2): vectors of norm r at polar angle acos(cos_theta) and azimuth phi, weight r^2"""
    res = []; tag = 'spherical'
    zs, cons = C12.root_syms(n); inter = dict(C12.cos_intercept(n, zs)); inter[ASI] = asi_stub
    R1, R2, C1, C2, P1, P2 = [z3.Real(k) for k in ('r1', 'r2', 'c1', 'c2', 'p1', 'p2')]
    pre = cons + [0 < R1, R1 < R2, -1 <= C1, C1 < C2, C2 <= 1, 0 <= P1, P1 < P2, P2 <= 6]
    trig = {}   # argument term -> (sin, cos); acos results are tagged symbols
    acos_of = {}
    def acos(it, args, st, depth):
        c = toR(args[0]); k = len(acos_of); th = z3.Real('theta%d' % k); s_ = z3.Real('sin_theta%d' % k)
        acos_of[th.get_id()] = (th, s_, c); st.pc += [s_ >= 0, s_ * s_ + c * c == 1]
        return [(st, th)]
    def sincos(which):
        def h(it, args, st, depth):
            a = args[0]
            if is_sym(a) and a.get_id() in acos_of:
                th, s_, c = acos_of[a.get_id()]; return [(st, s_ if which == 0 else c)]
            if isinstance(a, float): return C12.cos_intercept(n, zs)['@cos'](it, args, st, depth) if which == 1 else NotImplemented
            key = a.get_id()
            if key not in trig:
                k = len(trig); sp, cp = z3.Real('sin_phi%d' % k), z3.Real('cos_phi%d' % k); trig[key] = (sp, cp, a); st.pc.append(sp * sp + cp * cp == 1)
            return [(st, trig[key][which])]
        return h
    inter.update({'@acos': acos, '@sin': sincos(0), '@llvm.sin.f64': sincos(0), '@cos': sincos(1), '@llvm.cos.f64': sincos(1)})
    FV = z3.Function('FV', z3.RealSort(), z3.RealSort(), z3.RealSort(), z3.RealSort())
    inter.update(user_fv(lambda comps: FV(*[toR(c) for c in comps])))
    _, paths = run('@verif_c13_int3sph', [R1, R2, C1, C2, P1, P2, GL2, n], inter, pre=pre, limits=Limits(max_paths=100, feas_ms=2000, max_seconds=300), resolve_selects=True)
    mv = {'r1': R1, 'r2': R2, 'c1': C1, 'c2': C2, 'p1': P1, 'p2': P2, 'n': n}
    live = [p for p in paths if p.end is None]
    for pi, p in enumerate([q for q in paths if q.end is not None][:2]): res.append(prove('%s/returns[%d]' % (tag, pi), p.st.pc, z3.BoolVal(False), 20000, mv, key='C13/spherical/returns', detail=str(p.end)))
    if len(live) != 1: return res + [ob(tag + '/single-path', 'undecided', detail='%d returning paths' % len(live))]
    p = live[0]; cs = calls(p.st); hyp = p.st.pc + alg_assumptions(p.st)
    res.append(ob(tag + '/evaluations', 'discharged' if len(cs) == n ** 3 else 'candidate', key='C13/spherical/evaluations', model=None if len(cs) == n ** 3 else mv, detail='%d evaluations, expected %d' % (len(cs), n ** 3)))
    # radial nodes, cos(theta) nodes, phi nodes of the three nested rules
    rules = []
    for lo, hi, extra in ((R1, R2, [0 < R1, R1 < R2]), (C1, C2, [-1 <= C1, C1 < C2, C2 <= 1]), (P1, P2, [0 <= P1, P1 < P2])):
        _, _, _, rs = C12.rule(n, lo, hi, extra)
        if len(rs) != 1: return res + [ob(tag + '/rules', 'undecided', detail='rule paths')]
        rules.append(rs[0]); hyp += alg_assumptions(rs[0][0].st)
    k = 0; tot = z3.RealVal(0)
    for i in range(n):
        for j in range(n):
            for l in range(n):
                c = cs[k]; k += 1; v = [toR(x) for x in c[1]]; r_, ct, ph = rules[0][1][i], rules[1][1][j], rules[2][1][l]
                res.append(prove('%s/norm[%d,%d,%d]' % (tag, i, j, l), hyp, v[0] * v[0] + v[1] * v[1] + v[2] * v[2] == r_ * r_, 60000, mv, key='C13/spherical/norm', tactic=None))
                res.append(prove('%s/polar[%d,%d,%d]' % (tag, i, j, l), hyp, v[2] == r_ * ct, 60000, mv, key='C13/spherical/polar-angle', tactic=None))
                # azimuth: (x, y) = r sin(theta) (cos phi, sin phi) with phi the l-th node of the phi rule
                pk = [t for t in trig.values() if True]
                az = z3.Or(*[z3.And(t[2] == ph, v[0] * t[0] == v[1] * t[1]) for t in pk]) if pk else z3.BoolVal(False)
                res.append(prove('%s/azimuth[%d,%d,%d]' % (tag, i, j, l), hyp, az, 60000, mv, key='C13/spherical/azimuth', tactic=None))
                tot = tot + rules[0][2][i] * rules[1][2][j] * rules[2][2][l] * r_ * r_ * c[2]
    # the value is linear in the integrand values F(point_k): coefficient by coefficient (F_k = 1, the others 0) it must be weight product x r^2 - small queries that also yield counter-models quickly
    apps = [c[2] for c in cs]; k = 0
    if all(is_sym(a) for a in apps) and len(set(a.get_id() for a in apps)) == len(apps):
        for i in range(n):
            for j in range(n):
                for l in range(n):
                    sub = [(a, z3.RealVal(1 if t == k else 0)) for t, a in enumerate(apps)]
                    res.append(prove('%s/jacobian-coefficient[%d,%d,%d]' % (tag, i, j, l), hyp, z3.substitute(toR(p.ret), *sub) == rules[0][2][i] * rules[1][2][j] * rules[2][2][l] * rules[0][1][i] * rules[0][1][i], 60000, mv, key='C13/spherical/jacobian', tactic='nra', sample=(k == 0)))
                    k += 1
        res.append(prove('%s/no-constant-term' % tag, hyp, z3.substitute(toR(p.ret), *[(a, z3.RealVal(0)) for a in apps]) == 0, 60000, mv, key='C13/spherical/jacobian', tactic='nra'))
    else: res.append(prove('%s/value-weights-r2' % tag, hyp, toR(p.ret) == tot, 120000, mv, key='C13/spherical/jacobian'))
    return res

def jobs(ctx):
    m = module(ctx); n = BOUNDS[ctx.tier]['gauss_legendre_points']
    if ASI not in m.funcs or SU not in m.funcs: raise RuntimeError('expected mangled names of Adaptive_Simpson_Integration / Sample_Uniform not found')
    J = [(job_nd, (1, GL2, n)), (job_nd, (2, GL2, n)), (job_nd, (3, GL2, n)), (job_nd, (1, ASIMP, 0)), (job_nd, (2, ASIMP, 0)), (job_unknown_method, ()), (job_mc, (2, BOUNDS[ctx.tier]['mc_calls'])), (job_mc, (3, BOUNDS[ctx.tier]['mc_calls'])), (job_spherical, (2,))]
    if not ctx.quick(): J.append((job_nd, (3, ASIMP, 0)))
    return J

def validate(ctx):
    module(ctx); so = native(ctx); bad = []; cnt = 0
    f2 = lambda x, y: math.exp(-x) * (1 + y * y) + x * y
    import ctypes
    sig2 = ctypes.CFUNCTYPE(ctypes.c_double, ctypes.c_double, ctypes.c_double)
    for lims, meth, par in (([0.0, 1.0, 2.0, 3.5], GL2, 3), ([1.0, 0.25, 2.0, 3.0], GL2, 4), ([0.0, 1.0, 2.0, 3.0], ASIMP, 0)):
        _, ps = run('@verif_c13_int2', lims + [meth, par], user_f(fn=f2, arity=2, name='@verif_f2'), limits=Limits(max_steps=20000000))
        r = nat.call(so, 'verif_c13_int2', lims + [('i32', meth), ('i32', par)], fcb=f2, fcb_name='verif_f2_ptr', fcb_sig=sig2); cnt += 1
        if len(ps) != 1 or ps[0].end is not None or r['status'] != 'ok' or abs(ps[0].ret - r['ret']) > 1e-12 * abs(r['ret']): bad.append('Integrate_2D %s method %d: interp %s native %s' % (lims, meth, ps[0].ret if ps and ps[0].end is None else [str(p.end) for p in ps], r.get('ret', r['status'])))
    if bad: return [ob('translator-validation', 'broken', detail='; '.join(bad[:3]))]
    return [ob('translator-validation', 'discharged', backend='TV', detail='%d concrete Integrate_2D runs (real cos/Newton, real recursion): interpreter == native' % cnt)]

def replay(ctx, o):
    import ctypes
    so = native(ctx); m = o['model'] or {}; key = o['key']
    if key == 'C13/unknown-method-rejected':
        d = m['dim']; fn = {1: 'verif_c13_int1', 2: 'verif_c13_int2', 3: 'verif_c13_int3'}[d]
        r = nat.call(so, fn, [0.5, 1.0, 2.0, 3.0, 4.0, 5.0][:2 * d] + [('i32', NOSUCH), ('i32', 0)], fcb=lambda *a: 1.0, fcb_name={1: 'verif_f_ptr', 2: 'verif_f2_ptr', 3: 'verif_f3_ptr'}[d], fcb_sig=ctypes.CFUNCTYPE(ctypes.c_double, *([ctypes.c_double] * d)))
        return r['status'] != 'exit', 'native call with an unknown method name: %s' % r.get('ret', r['status'])
    if key.startswith('C13/spherical'):
        vals = [q2f(m[k]) for k in ('r1', 'r2', 'c1', 'c2', 'p1', 'p2')]; seen = []
        sigv = ctypes.CFUNCTYPE(ctypes.c_double, ctypes.POINTER(ctypes.c_double), ctypes.c_ulong)
        def fv(p, n): seen.append([p[i] for i in range(n)]); return 1.0
        r = nat.call(so, 'verif_c13_int3sph', vals + [('i32', GL2), ('i32', 4)], fcb=fv, fcb_name='verif_fv_ptr', fcb_sig=sigv)
        if r['status'] != 'ok': return True, 'native spherical integral ended: ' + r['status']
        pts = [c[0] for c in r['calls']]
        # with f == 1 the result is the shell volume element integral: (r2^3-r1^3)/3 * (c2-c1) * (p2-p1)
        want = (vals[1] ** 3 - vals[0] ** 3) / 3 * (vals[3] - vals[2]) * (vals[5] - vals[4])
        if abs(r['ret'] - want) > 1e-8 * abs(want): return True, 'native spherical Integrate_3D of f=1 over r in [%r,%r], cos in [%r,%r], phi in [%r,%r] = %r, exact %r' % (*vals, r['ret'], want)
        # the three Cartesian components as integrands, over an angular box that reaches every quadrant of the azimuth: int r^2 (r sin t cos p, r sin t sin p, r cos t) dr dcos dp in closed form
        r1, r2, c1, c2 = 1.0, 2.0, -0.5, 0.8; R4 = (r2 ** 4 - r1 ** 4) / 4; S = 0.5 * ((c2 * math.sqrt(1 - c2 * c2) + math.asin(c2)) - (c1 * math.sqrt(1 - c1 * c1) + math.asin(c1))); Cc = (c2 * c2 - c1 * c1) / 2
        for (p1, p2) in ((0.2, 2.5), (math.pi, 1.7 * math.pi), (-2.0, -0.3), (0.5, 5.9)):
            exact = [R4 * S * (math.sin(p2) - math.sin(p1)), R4 * S * (math.cos(p1) - math.cos(p2)), R4 * Cc * (p2 - p1)]
            for comp in range(3):
                def fc(p, n, comp=comp): return p[comp]
                rr = nat.call(so, 'verif_c13_int3sph', [r1, r2, c1, c2, p1, p2, ('i32', GL2), ('i32', 12)], fcb=fc, fcb_name='verif_fv_ptr', fcb_sig=sigv)
                if rr['status'] != 'ok' or abs(rr['ret'] - exact[comp]) > 1e-8 * max(1.0, abs(exact[comp])):
                    return True, 'native spherical Integrate_3D of the Cartesian component %d over r in [1,2], cos theta in [-0.5,0.8], phi in [%r,%r] = %s, exact %r' % (comp, p1, p2, rr.get('ret', rr['status']), exact[comp])
        return False, 'native spherical Integrate_3D: f=1 and the three Cartesian components over four azimuth ranges agree with the closed forms'
    if 'lims' not in m: return False, 'no model'
    lims = [q2f(q) for q in m['lims']]; d = m['dim']; meth = m['method']; par = m['n']
    fn = {1: 'verif_c13_int1', 2: 'verif_c13_int2', 3: 'verif_c13_int3'}[d]; sig = ctypes.CFUNCTYPE(ctypes.c_double, *([ctypes.c_double] * d)); pname = {1: 'verif_f_ptr', 2: 'verif_f2_ptr', 3: 'verif_f3_ptr'}[d]
    # separable integrand with a different factor per axis: g(x) = 1+x, h(y) = y^2, k(z) = 1/z
    comp = [lambda t: 1.0 + t, lambda t: t * t, lambda t: 1.0 / t]; prim = [lambda t: t + t * t / 2, lambda t: t ** 3 / 3, lambda t: math.log(t)]
    def f(*a):
        v = 1.0
        for k_, t in enumerate(a): v *= comp[k_](t)
        return v
    # use the default disjoint box if the model degenerates
    use = lims if all(lims[2 * k] != lims[2 * k + 1] for k in range(d)) else [0.2, 0.9, 2.1, 2.8, 4.2, 4.9][:2 * d]
    if key == 'C13/reversal-negates':
        use = [0.2, 0.9, 2.1, 2.8, 4.2, 4.9][:2 * d]; nm = o['name']
        rev = list(range(d)) if 'all-axes' in nm else [int(nm.split('reversing-axis-')[1][0])]
        for k_ in rev: use[2 * k_], use[2 * k_ + 1] = use[2 * k_ + 1], use[2 * k_]
    r = nat.call(so, fn, use + [('i32', meth), ('i32', par if meth != MCARLO else 20000)], fcb=f, fcb_name=pname, fcb_sig=sig)
    if r['status'] != 'ok': return True, 'native call ended: ' + r['status']
    want = 1.0
    for k_ in range(d): want *= prim[k_](use[2 * k_ + 1]) - prim[k_](use[2 * k_])
    outside = [c[0] for c in r['calls'] if any(not (min(use[2 * k_], use[2 * k_ + 1]) - 1e-12 <= c[0][k_] <= max(use[2 * k_], use[2 * k_ + 1]) + 1e-12) for k_ in range(d))]
    tol = 5e-2 if meth == MCARLO else (1e-3 if par and par < 4 else 1e-6)
    return (bool(outside) or abs(r['ret'] - want) > tol * abs(want)), 'native %dD integral (method %d, param %d) of the separable test integrand over %s = %r, product of 1D integrals %r; evaluations outside their limits: %s' % (d, meth, par, use, r['ret'], want, outside[:2])
