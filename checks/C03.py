"""C03 - Adaptive Simpson integration (DESIGN.md section 2/C03)"""
from num_common import *
import bp

EXPLANATION = ('C03: real Adaptive_Simpson_Integration run once with a symbolic quintic as integrand and the recursive self-calls replaced by their contract (inductive hypothesis): precondition of the callees established, '
               'error budget halves, depth decreases, exact integral returned on every path; real Integrate: precondition established, |epsilon| used, equal limits give 0 without evaluations, swapped limits negate exactly; '
               'unrolled real recursion (depth <= 2) with an uninterpreted integrand: evaluation points inside the interval and evaluation count <= 2^(depth+2)+1.')
BOUNDS = {'quick': {'unrolled_depth': [0, 1, 2]}, 'thorough': {'unrolled_depth': [0, 1, 2, 3]}}
NOT_DECIDED = ['the 4*epsilon error bound for integrands with one-signed, slowly varying fourth derivative (a theorem about a function class, not code)', 'rounding ("to rounding")']
ASSUMPTIONS = ['doubles exact reals (EA)', 'integrand: polynomial of degree 5 with symbolic coefficients (exactness), uninterpreted F (location/count/negation clauses)',
               'recursive calls replaced by the contract: given S=(b-a)/6(f(a)+4f((a+b)/2)+f(b)) and exact end/mid values the callee returns the exact integral (proved for the body in the same job = induction on depth)']

ASI = '@_ZN10libphysica28Adaptive_Simpson_IntegrationESt8functionIFddEEdddddddiRb'
A, B, EPS, S0 = z3.Real('a'), z3.Real('b'), z3.Real('eps'), z3.Real('S')
CO = [z3.Real('c%d' % i) for i in range(6)]
def P(x):
    x = toR(x); r = z3.RealVal(0)
    for c in reversed(CO): r = r * x + c
    return r
def IP(x):
    x = toR(x); r = z3.RealVal(0)
    for k in range(5, -1, -1): r = r * x + CO[k] / (k + 1)
    return r * x
def simpson(f, a, b): return (b - a) / 6 * (f(a) + 4 * f((a + b) / 2) + f(b))

def contract(log):
    """stands for a recursive call: records the actual arguments, returns the exact integral of the quintic over the callee's interval"""
    def h(it, args, st, depth):
        if depth < 1: return NotImplemented
        a, b, eps, S, fa, fb, fc, bottom = args[1:9]
        st.events.append(('rec', a, b, eps, S, fa, fb, fc, bottom, len(st.pc)))
        return [(st, IP(b) - IP(a))]
    return {ASI: h}

def job_contract(bottom):
    res = []; tag = 'asi-step/bottom%d' % bottom
    pre = [A < B, EPS >= 0]
    fa, fb, fc = P(A), P(B), P((A + B) / 2)
    inter = dict(user_f(fn=P)); inter.update(contract(None))
    def args(st):
        return st.alloc(4)
    it, paths = run('@verif_c03_asi', [A, B, EPS, simpson(P, A, B), fa, fb, fc, bottom & 0xffffffff, args], inter, pre=pre)
    mv = {'a': A, 'b': B, 'eps': EPS, 'c': CO, 'bottom': bottom}
    exact = IP(B) - IP(A); nrec = 0; nacc = 0
    for pi, p in enumerate(paths):
        if p.end is not None:
            res.append(prove('%s/returns[%d]' % (tag, pi), p.st.pc, z3.BoolVal(False), 20000, mv, key='C03/asi/returns', detail=str(p.end))); continue
        cs = calls(p.st); recs = [e for e in p.st.events if e[0] == 'rec']
        res.append(prove('%s/exact-on-quintics[%d]' % (tag, pi), p.st.pc, toR(p.ret) == exact, 120000, mv, key='C03/exact-on-quintics', tactic='nra', sample=(pi == 0)))
        res.append(ob('%s/two-evaluations[%d]' % (tag, pi), 'discharged' if len(cs) == 2 else 'candidate', key='C03/evaluations-per-invocation', model=None if len(cs) == 2 else mv, detail='%d evaluations in one invocation' % len(cs)))
        for ci, c in enumerate(cs):
            res.append(prove('%s/evaluation-inside[%d,%d]' % (tag, pi, ci), p.st.pc, z3.And(A <= toR(c[1][0]), toR(c[1][0]) <= B), 20000, mv, key='C03/evaluation-inside'))
        if recs:
            nrec += 1
            if len(recs) != 2: res.append(ob('%s/two-recursive-calls[%d]' % (tag, pi), 'candidate', key='C03/asi/recursion-shape', model=mv, detail='%d recursive calls' % len(recs))); continue
            if bottom <= 0: res.append(prove('%s/no-recursion-at-depth-limit[%d]' % (tag, pi), p.st.pc, z3.BoolVal(False), 20000, mv, key='C03/depth-limit', detail='recursion although bottom <= 0'))
            mid = (A + B) / 2
            for ri, (r, lo, hi) in enumerate(zip(recs, (A, mid), (mid, B))):
                _, a2, b2, e2, S2, fa2, fb2, fc2, bt2, npc = r
                pcr = p.st.pc
                res.append(prove('%s/callee%d-interval[%d]' % (tag, ri, pi), pcr, z3.And(toR(a2) == lo, toR(b2) == hi), 20000, mv, key='C03/asi/callee-interval'))
                res.append(prove('%s/callee%d-precondition[%d]' % (tag, ri, pi), pcr, z3.And(toR(fa2) == P(a2), toR(fb2) == P(b2), toR(fc2) == P((toR(a2) + toR(b2)) / 2), toR(S2) == simpson(P, toR(a2), toR(b2))), 60000, mv, key='C03/asi/callee-precondition', tactic='nra'))
                res.append(prove('%s/callee%d-epsilon-halved[%d]' % (tag, ri, pi), pcr, toR(e2) * 2 == EPS, 20000, mv, key='C03/epsilon-halved'))
                okb = (not is_sym(bt2)) and sgn(bt2, 32) == bottom - 1
                res.append(ob('%s/callee%d-depth-decreases[%d]' % (tag, ri, pi), 'discharged' if okb else 'candidate', key='C03/depth-decreases', model=None if okb else mv, detail='bottom %s -> %s' % (bottom, bt2)))
        else:
            nacc += 1
            if bottom > 0:
                Sl = (B - A) / 12 * (P(A) + 4 * P((A + (A + B) / 2) / 2) + P((A + B) / 2)); Sr = (B - A) / 12 * (P((A + B) / 2) + 4 * P((B + (A + B) / 2) / 2) + P(B))
                d = Sl + Sr - simpson(P, A, B)
                res.append(prove('%s/accept-implies-estimate-within-15eps[%d]' % (tag, pi), p.st.pc, z3.If(d >= 0, d, -d) <= 15 * EPS, 120000, mv, key='C03/acceptance-test', tactic='nra'))
    res.append(ob(tag + '/coverage', 'discharged' if (nacc and (nrec or bottom <= 0)) else 'broken', key='C03/coverage', detail='%d accepting and %d recursing paths' % (nacc, nrec)))
    return res

RSYM = z3.Function('ASI_result', z3.RealSort(), z3.RealSort(), z3.RealSort(), z3.RealSort(), z3.RealSort(), z3.RealSort(), z3.RealSort(), z3.RealSort())
def job_toplevel():
    """Integrate(f,a,b,eps,depth): establishes the precondition, passes |eps| and depth, returns sign*result; a==b => 0; swapped limits negate exactly"""
    res = []; tag = 'integrate'; D = 7
    def asi_stub(it, args, st, depth):
        a, b, eps, S, fa, fb, fc, bottom = args[1:9]
        st.events.append(('rec', a, b, eps, S, fa, fb, fc, bottom, len(st.pc)))
        return [(st, RSYM(*[toR(x) for x in (a, b, eps, S, fa, fb, fc)]))]
    inter = dict(user_f()); inter[ASI] = asi_stub
    outs = {}
    for order, pre in (('lt', [A < B]), ('gt', [A > B]), ('eq', [A == B])):
        it, paths = run('@verif_c03_integrate', [A, B, EPS, D], inter, pre=pre + [EPS != 0], resolve_selects=True)
        mv = {'a': A, 'b': B, 'eps': EPS}
        for pi, p in enumerate(paths):
            if p.end is not None: res.append(prove('%s/%s/returns[%d]' % (tag, order, pi), p.st.pc, z3.BoolVal(False), 20000, mv, key='C03/integrate/returns', detail=str(p.end))); continue
            cs = calls(p.st); recs = [e for e in p.st.events if e[0] == 'rec']
            if order == 'eq':
                ok = (not is_sym(p.ret)) and p.ret == 0.0 and not cs
                res.append(ob('%s/eq/zero-without-evaluation[%d]' % (tag, pi), 'discharged' if ok else 'candidate', key='C03/equal-limits', model=None if ok else mv, detail='returned %s after %d evaluations' % (p.ret, len(cs)))); continue
            lo, hi = (A, B) if order == 'lt' else (B, A)
            if len(recs) != 1: res.append(ob('%s/%s/one-call[%d]' % (tag, order, pi), 'candidate', key='C03/integrate/shape', model=mv, detail='%d calls of the recursion' % len(recs))); continue
            _, a2, b2, e2, S2, fa2, fb2, fc2, bt2, npc = recs[0]
            res.append(prove('%s/%s/precondition[%d]' % (tag, order, pi), p.st.pc, z3.And(toR(a2) == lo, toR(b2) == hi, toR(fa2) == F1(lo), toR(fb2) == F1(hi), toR(fc2) == F1((lo + hi) / 2), toR(S2) == (hi - lo) / 6 * (F1(lo) + 4 * F1((lo + hi) / 2) + F1(hi))), 60000, mv, key='C03/integrate/precondition'))
            res.append(prove('%s/%s/abs-epsilon[%d]' % (tag, order, pi), p.st.pc, toR(e2) == z3.If(EPS >= 0, EPS, -EPS), 20000, mv, key='C03/sign-of-epsilon'))
            res.append(ob('%s/%s/depth-passed[%d]' % (tag, order, pi), 'discharged' if bt2 == D else 'candidate', key='C03/integrate/depth', model=None if bt2 == D else mv, detail='bottom=%s' % bt2))
            res.append(ob('%s/%s/three-evaluations[%d]' % (tag, order, pi), 'discharged' if len(cs) == 3 else 'candidate', key='C03/integrate/evaluations', model=None if len(cs) == 3 else mv, detail='%d' % len(cs)))
            R = RSYM(*[toR(x) for x in (a2, b2, e2, S2, fa2, fb2, fc2)])
            res.append(prove('%s/%s/sign-times-result[%d]' % (tag, order, pi), p.st.pc, toR(p.ret) == (R if order == 'lt' else -R), 20000, mv, key='C03/swap-negates'))
            outs.setdefault(order, []).append((p, R))
    # exact negation: the 'gt' run returns (-1.0) * R' where R' is the identical term of the 'lt' run with (a,b) exchanged
    if 'lt' in outs and 'gt' in outs:
        p1, R1 = outs['lt'][0]; p2, R2 = outs['gt'][0]
        R2s = z3.substitute(R2, (A, z3.Real('tmpA')), (B, A)); R2s = z3.substitute(R2s, (z3.Real('tmpA'), B))
        ok = R1.eq(R2s) or z3.simplify(R1).eq(z3.simplify(R2s))
        res.append(ob('%s/swap/identical-inner-call' % tag, 'discharged' if ok else 'undecided', key='C03/swap-negates', detail='after exchanging the limits the recursion receives identical argument terms => |result| bit-identical, sign exactly flipped'))
    return res

def job_unrolled(depth):
    """the real recursion (no contract), F uninterpreted: evaluation points inside [a,b]; count <= 2^(depth+2)+1; sign of epsilon irrelevant"""
    res = []; tag = 'unrolled/depth%d' % depth; bound = 2 ** (depth + 2) + 1
    pre = [A < B, EPS > 0]
    it, paths = run('@verif_c03_integrate', [A, B, EPS, depth], user_f(maxcalls=bound + 4), pre=pre, limits=Limits(max_paths=6000, feas_ms=500, max_seconds=75))
    mv = {'a': A, 'b': B, 'eps': EPS, 'depth': depth}
    worst = 0; ncut = 0
    for pi, p in enumerate(paths):
        cs = calls(p.st)
        if p.end is not None:
            ncut += 1
            if ncut > 3: continue
            res.append(prove('%s/at-most-%d-evaluations[%d]' % (tag, bound, pi), p.st.pc, z3.BoolVal(False), 30000, dict(mv, calls_x=[c[1][0] for c in cs], calls_f=[c[2] for c in cs]), key='C03/evaluation-count', detail=str(p.end), tactic=None)); continue
        worst = max(worst, len(cs))
        if len(cs) > bound: res.append(prove('%s/at-most-%d-evaluations[%d]' % (tag, bound, pi), p.st.pc, z3.BoolVal(False), 30000, dict(mv, calls_x=[c[1][0] for c in cs], calls_f=[c[2] for c in cs]), key='C03/evaluation-count', detail='%d evaluations' % len(cs)))
        bad = z3.Or(*[z3.Or(toR(c[1][0]) < A, toR(c[1][0]) > B) for c in cs])
        if pi > 400: continue
        res.append(prove('%s/evaluations-inside[%d]' % (tag, pi), p.st.pc, z3.Not(bad), 10000, dict(mv, calls_x=[c[1][0] for c in cs], calls_f=[c[2] for c in cs]), key='C03/evaluation-inside'))
    res.append(ob('%s/coverage' % tag, 'discharged' if paths else 'broken', key='C03/coverage', detail='%d paths, at most %d evaluations (bound %d)' % (len(paths), worst, bound)))
    # sign of epsilon: identical terms path by path
    if depth <= 1:
        _, neg = run('@verif_c03_integrate', [A, B, -EPS, depth], user_f(maxcalls=bound + 4), pre=pre, limits=Limits(max_paths=6000, feas_ms=500, max_seconds=75))
        for pi, p in enumerate(paths):
            if p.end is not None: continue
            for qi, q in enumerate(neg):
                if q.end is not None: continue
                so = z3.Solver(); so.set('timeout', 3000); so.add(*(p.st.pc + q.st.pc))
                if so.check() == z3.unsat: continue
                same_ = is_sym(p.ret) and is_sym(q.ret) and p.ret.eq(q.ret)
                if same_: res.append(ob('%s/sign-of-epsilon[%d,%d]' % (tag, pi, qi), 'discharged', key='C03/sign-of-epsilon', detail='identical result terms'))
                else: res.append(prove('%s/sign-of-epsilon[%d,%d]' % (tag, pi, qi), p.st.pc + q.st.pc, toR(p.ret) == toR(q.ret), 30000, mv, key='C03/sign-of-epsilon'))
    return res

def job_bp(h):
    return bp.run_harness('C03', 'C03.c', h, G['m'], ['verif_c03_asi', 'verif_c03_integrate'])

def jobs(ctx):
    m = module(ctx)
    if ASI not in m.funcs: raise RuntimeError('Adaptive_Simpson_Integration not found under its expected mangled name (signature changed?)')
    J = [(job_contract, (3,)), (job_contract, (1,)), (job_contract, (0,)), (job_contract, (-1,)), (job_toplevel, ())] + [(job_unrolled, (d,)) for d in BOUNDS[ctx.tier]['unrolled_depth']]
    for h in bp.harnesses('C03.c', ctx.tier): J.append((job_bp, (h,)))
    return J

POLYS = [[1.0, -2.0, 0.5, 3.0, -1.0, 0.25], [0.0, 0.0, 0.0, 0.0, 0.0, 1.0], [2.0, 0.0, -1.0, 0.0, 0.0, 0.0]]
def validate(ctx):
    module(ctx); so = native(ctx); bad = []; n = 0
    for co in POLYS:
        f = poly_cb(co)
        for a, b, eps, depth in ((0.0, 2.0, 1e-8, 20), (3.0, 1.0, 1e-3, 2), (-1.0, 1.5, 1e2, 0), (0.5, 0.5, 1e-6, 5), (0.0, 1.0, -1e-9, 8)):
            _, ps = run('@verif_c03_integrate', [a, b, eps, depth], user_f(fn=f))
            r = nat.call(so, 'verif_c03_integrate', [a, b, eps, ('i32', depth)], fcb=f); n += 1
            if len(ps) != 1 or ps[0].end is not None or r['status'] != 'ok' or ps[0].ret != r['ret']: bad.append('Integrate(%r,%r,%r,%d): interp %s native %s' % (a, b, eps, depth, ps[0].ret if ps else None, r.get('ret', r['status'])))
    if bad: return [ob('translator-validation', 'broken', detail='; '.join(bad[:3]))]
    return [ob('translator-validation', 'discharged', backend='TV', detail='%d concrete Integrate runs on polynomials: interpreter == native (bit-identical)' % n)]

def replay(ctx, o):
    from C02 import table_cb
    so = native(ctx); m = o['model'] or {}; key = o['key']
    if o['backend'] == 'BP':
        if 'in_a' not in m: return False, 'no inputs in trace'
        pts = []
        def f(x): pts.append(x); return 1.0
        r = nat.call(so, 'verif_c03_integrate', [m['in_a'], m['in_b'], 1e300, ('i32', 0)], fcb=f)
        lo, hi = min(m['in_a'], m['in_b']), max(m['in_a'], m['in_b']); out = [c[0][0] for c in r.get('calls', []) if not (lo <= c[0][0] <= hi)]
        return bool(out), 'native Integrate on [%r,%r] evaluated the integrand at %s' % (lo, hi, out or 'interior points only')
    if key == 'C03/acceptance-test':
        # x^4 on [0,1]: |S2 - S| = 1/128 exactly; with epsilon = (1/128)/20 the estimate differs by 20 epsilon > 15 epsilon, so the top level must not accept (more than the 5 top-level evaluations)
        D = 1.0 / 128.0; r = nat.call(so, 'verif_c03_integrate', [0.0, 1.0, D / 20.0, ('i32', 6)], fcb=lambda x: x ** 4)
        if r['status'] != 'ok': return True, 'native Integrate ended: ' + r['status']
        return len(r['calls']) <= 5, 'native Integrate(x^4, 0, 1, epsilon=%r, depth 6): |S2-S| = %r = 20 epsilon, %d evaluations (5 = accepted at the top level), value %r' % (D / 20.0, D, len(r['calls']), r['ret'])
    if 'a' not in m: return False, 'no model'
    a, b, eps = q2f(m['a']), q2f(m['b']), q2f(m['eps'])
    if 'c' in m:
        co = [q2f(q) for q in m['c']]; f = poly_cb(co); depth = max(0, m.get('bottom', 3))
        exact = sum(co[k] / (k + 1) * (b ** (k + 1) - a ** (k + 1)) for k in range(6))
        r = nat.call(so, 'verif_c03_integrate', [a, b, eps, ('i32', depth)], fcb=f)
        if r['status'] != 'ok': return True, 'native Integrate ended: ' + r['status']
        sc = max(abs(exact), sum(abs(c) * max(abs(a), abs(b)) ** (k + 1) for k, c in enumerate(co)), 1e-300)
        inside = all(min(a, b) <= c[0][0] <= max(a, b) for c in r['calls'])
        return (abs(r['ret'] - exact) > 1e-9 * sc or not inside), 'native Integrate of the quintic %s on [%r,%r], eps=%r, depth=%d: %r, exact %r, %d evaluations' % (co, a, b, eps, depth, r['ret'], exact, len(r['calls']))
    if 'calls_x' in m:
        f = table_cb([q2f(q) for q in m['calls_x']], [q2f(q) for q in m['calls_f']]); depth = m.get('depth', 7)
        r = nat.call(so, 'verif_c03_integrate', [a, b, eps, ('i32', depth)], fcb=f)
        if r['status'] != 'ok': return True, 'native Integrate ended: ' + r['status']
        n = len(r['calls']); out = [c[0][0] for c in r['calls'] if not (min(a, b) <= c[0][0] <= max(a, b))]
        return (n > 2 ** (depth + 2) + 1 or bool(out)), 'native Integrate(depth=%d) made %d evaluations (bound %d), outside points: %s' % (depth, n, 2 ** (depth + 2) + 1, out)
    # top-level facts with an uninterpreted integrand: use a fixed smooth function
    f = lambda x: math.exp(0.3 * x) + x * x
    r1 = nat.call(so, 'verif_c03_integrate', [a, b, eps, ('i32', 7)], fcb=f); r2 = nat.call(so, 'verif_c03_integrate', [b, a, eps, ('i32', 7)], fcb=f); r3 = nat.call(so, 'verif_c03_integrate', [a, b, -eps, ('i32', 7)], fcb=f)
    if any(r['status'] != 'ok' for r in (r1, r2, r3)): return True, 'native Integrate ended abnormally'
    bad = (r1['ret'] != -r2['ret']) or (r1['ret'] != r3['ret']) or (a == b and (r1['ret'] != 0.0 or r1['calls']))
    return bad, 'native Integrate(a=%r,b=%r,eps=%r)=%r, swapped %r, negative eps %r' % (a, b, eps, r1['ret'], r2['ret'], r3['ret'])
