"""C09 - Interpolation results do not depend on the history of earlier calls (DESIGN.md section 2/C09)
   One inductive step of the real Locate from EVERY cache state; every query is a function of Locate's result only."""
from interp_common import *
import native as nat

EXPLANATION = ('C09: inductive step over the cache (jLast, correlated_calls): real Locate is bracket-correct from every cache state, agrees with the fresh-object result off the knots, '
               'leaves a valid cache; Interpolate/Derivative/Integrate/Local_* return structurally identical terms from any cache state and from the fresh state (=> bit-identical doubles); '
               'Set_Prefactor/Multiply touch only the prefactor; copy-assignment copies every field.')
BOUNDS = {'quick': {'N_locate': list(range(3, 13)), 'N_queries': [3, 4, 5], 'grid2d': [3, 3]}, 'thorough': {'N_locate': list(range(3, 25)), 'N_queries': [3, 4, 5, 6, 7], 'grid2d': [4, 4]}}
NOT_DECIDED = ['N beyond the bound', 'IEEE rounding inside the extrapolation-tolerance arithmetic (EA is exact; BP twin covers Locate for small N)']
ASSUMPTIONS = ['doubles are exact reals (EA back end); bit-identity claims rest on structural identity of the result terms', 'cache states enumerated exhaustively: jLast in [0,N-2] x correlated_calls in {0,1}',
               'pre-state = any object satisfying: abscissae strictly increasing, domain = (x[0],x[N-1]); coefficients free']

def _run(fn, N, jl, corr, args, pre=None):
    mod = GMOD['m']; L = GMOD['L']
    it = Interp(mod); st = it.new_state(); o = mkobj(it, st, L, N, jl, corr)
    st.pc += o.order
    if pre: st.pc += pre(o)
    return it, o, it.execute(fn, [o.addr] + args, st)

def job_locate(N, jl, corr):
    L = GMOD['L']; res = []; tag = 'locate/N%d/j%d/c%d' % (N, jl, corr); x = z3.Real('x')
    it, o, paths = _run('@verif_c01_locate', N, jl, corr, [x])
    _, of, fresh = _run('@verif_c01_locate', N, 0, 0, [x])
    mv = {'xs': o.xs, 'x': x, 'N': N, 'jLast': jl, 'corr': corr}
    c01 = RV(1e-2); tol_l = c01 * (o.xs[1] - o.xs[0]); tol_r = c01 * (o.xs[N - 1] - o.xs[N - 2])
    nret = 0
    for pi, p in enumerate(paths):
        pc = p.st.pc
        if p.end is not None:
            if p.end.kind == 'exit':
                res.append(prove('%s/exit-only-outside[%d]' % (tag, pi), pc, z3.Or(x <= o.xs[0] - tol_l, x >= o.xs[N - 1] + tol_r), 10000, mv, key='C09/locate/exit-only-outside'))
            else: res.append(prove('%s/no-%s[%d]' % (tag, p.end.kind, pi), pc, z3.BoolVal(False), 10000, mv, key='C09/locate/' + p.end.kind, detail=str(p.end)))
            continue
        nret += 1; j = p.ret
        if is_sym(j): res.append(ob('%s/concrete-index[%d]' % (tag, pi), 'undecided', detail='symbolic index')); continue
        if not (0 <= j <= N - 2):
            res.append(prove('%s/index-range[%d]' % (tag, pi), pc, z3.BoolVal(False), 10000, mv, key='C09/locate/index-range', detail='returned %d' % j)); continue
        inseg = z3.And(o.xs[j] <= x, x <= o.xs[j + 1])
        zone = z3.Or(z3.And(j == 0, x < o.xs[0], o.xs[0] - x < tol_l), z3.And(j == N - 2, x > o.xs[N - 1], x - o.xs[N - 1] < tol_r))
        res.append(prove('%s/bracket[%d->%d]' % (tag, pi, j), pc, z3.Or(inseg, zone), 10000, mv, key='C09/locate/bracket', sample=(pi == 0 and N == 4 and jl == 1 and corr == 1)))
        # cache after the call is again a valid pre-state
        jl2 = p.st.load(o.addr + L['jLast'], 4); c2 = p.st.load(o.addr + L['correlated_calls'], 1)
        okc = (not is_sym(jl2)) and jl2 == j and (not is_sym(c2)) and c2 in (0, 1)
        res.append(ob('%s/cache-valid[%d]' % (tag, pi), 'discharged' if okc else 'candidate', detail='post-state jLast=%s corr=%s' % (jl2, c2), key='C09/locate/cache-valid', model=None if okc else {'xs': o.xs and None}))
        # agreement with the fresh object off the knots (different indices are only possible with x at a tabulated abscissa, and then they are neighbours)
        for qi, q in enumerate(fresh):
            if q.end is not None or is_sym(q.ret) or q.ret == j: continue
            # rename: both runs use the same symbol names x0.., x
            offknot = [x != xx for xx in o.xs]
            res.append(prove('%s/same-as-fresh[%d,%d]' % (tag, pi, qi), pc + q.st.pc + offknot, z3.BoolVal(False), 10000, mv, key='C09/locate/same-as-fresh', detail='cached run returns %d, fresh run %d' % (j, q.ret)))
            res.append(prove('%s/neighbour-at-knot[%d,%d]' % (tag, pi, qi), pc + q.st.pc, z3.And(abs(j - q.ret) == 1, x == o.xs[max(j, q.ret)]), 10000, mv, key='C09/locate/neighbour-at-knot'))
    if nret == 0: res.append(ob(tag + '/reach', 'broken', detail='no returning path'))
    res.append(check_sat('witness/' + tag, paths[0].st.pc))
    return res

QUERIES = [('interpolate', '@verif_c01_eval', 1, []), ('derivative1', '@verif_c01_deriv', 1, [1]), ('derivative2', '@verif_c01_deriv', 1, [2]), ('derivative0', '@verif_c01_deriv', 1, [0]),
           ('integrate', '@verif_c08_integrate', 2, []), ('local_min', '@verif_c08_locmin', 2, []), ('local_max', '@verif_c08_locmax', 2, [])]

def job_query(N, jl, corr, qname):
    """the query from cache state (jl,corr) and from the fresh state yields the same term whenever both paths are feasible together off the knots"""
    res = []; tag = 'query/%s/N%d/j%d/c%d' % (qname, N, jl, corr)
    q = [t for t in QUERIES if t[0] == qname][0]
    x = z3.Real('qx'); x2 = z3.Real('qx2'); args = [x] + ([x2] if q[2] == 2 else []) + q[3]
    dom = lambda o: [x >= o.xs[0], x <= o.xs[N - 1]] + ([x2 >= x, x2 <= o.xs[N - 1]] if q[2] == 2 else [])
    it, o, P1 = _run(q[1], N, jl, corr, args, dom)
    _, o2, P0 = _run(q[1], N, 0, 0, args, dom)
    mv = {'xs': o.xs, 'ys': o.ys, 'a': o.a, 'b': o.b, 'c': o.c, 'd': o.d, 'pref': o.pref, 'x': x, 'x2': x2, 'N': N, 'jLast': jl, 'corr': corr, 'query': qname}
    offknot = [x != xx for xx in o.xs] + ([x2 != xx for xx in o.xs] if q[2] == 2 else [])
    npairs = 0
    for pi, p in enumerate(P1):
        for qi, r in enumerate(P0):
            so = z3.Solver(); so.set('timeout', 10000); so.add(*(p.st.pc + r.st.pc + offknot))
            if so.check() == z3.unsat: continue
            npairs += 1
            if (p.end is None) != (r.end is None):
                res.append(prove('%s/same-outcome[%d,%d]' % (tag, pi, qi), p.st.pc + r.st.pc + offknot, z3.BoolVal(False), 10000, mv, key='C09/query/same-outcome', detail='%s vs %s' % (p.end, r.end))); continue
            if p.end is not None:
                if p.end.kind != 'exit' or r.end.kind != 'exit': res.append(ob('%s/modelled[%d,%d]' % (tag, pi, qi), 'undecided', detail='path ended with %s / %s' % (p.end, r.end)))
                continue
            a, b = p.ret, r.ret
            same = (a == b) if not (is_sym(a) or is_sym(b)) else (is_sym(a) and is_sym(b) and a.eq(b))
            if same: res.append(ob('%s/identical-term[%d,%d]' % (tag, pi, qi), 'discharged', detail='result terms structurally identical => bit-identical doubles', key='C09/query/identical'))
            else:
                # not structurally identical: must at least be equal as reals; reported as a candidate only if they can differ
                res.append(prove('%s/equal-value[%d,%d]' % (tag, pi, qi), p.st.pc + r.st.pc + offknot, toR(a) == toR(b), 30000, mv, key='C09/query/equal-value', detail='terms differ structurally'))
    if npairs == 0: res.append(ob(tag + '/pairs', 'broken', detail='no jointly feasible path pair'))
    return res

def job_prefactor(N):
    """Set_Prefactor / Multiply change the prefactor field by exactly the stated factor and nothing else; every query output is linear in it"""
    mod = GMOD['m']; L = GMOD['L']; res = []; tag = 'prefactor/N%d' % N
    for fn, nm in (('@verif_c08_setpref', 'Set_Prefactor'), ('@verif_c08_multiply', 'Multiply')):
        it = Interp(mod); st = it.new_state(); o = mkobj(it, st, L, N, 1, 1); st.pc += o.order
        before = dict(st.mem); f = z3.Real('factor')
        ps = it.execute(fn, [o.addr, f], st)
        if len(ps) != 1 or ps[0].end is not None: res.append(ob('%s/%s/paths' % (tag, nm), 'undecided', detail=str(ps))); continue
        after = ps[0].st.mem
        changed = [k for k in set(before) | set(after) if k in before and (k not in after or not (after[k][1] is before[k][1] or (is_sym(after[k][1]) and is_sym(before[k][1]) and after[k][1].eq(before[k][1])) or after[k][1] == before[k][1]))]
        okc = changed == [o.addr + L['prefactor']]
        res.append(ob('%s/%s/only-prefactor-written' % (tag, nm), 'discharged' if okc else 'candidate', detail='cells changed: %s' % [hex(c - o.addr) for c in changed], key='C09/prefactor/only-prefactor', model=None if okc else {'N': N}))
        newp = ps[0].st.load(o.addr + L['prefactor'], 8)
        res.append(prove('%s/%s/value' % (tag, nm), st.pc, toR(newp) == (f if nm == 'Set_Prefactor' else o.pref * f), 10000, {'N': N}, key='C09/prefactor/value'))
    # linearity of outputs in the prefactor field
    x = z3.Real('qx'); x2 = z3.Real('qx2')
    for qname, fn, na, extra in QUERIES[:5]:
        it = Interp(mod); st = it.new_state(); o = mkobj(it, st, L, N, 0, 0); st.pc += o.order + [x >= o.xs[0], x <= o.xs[N - 1], x2 >= x, x2 <= o.xs[N - 1]]
        for pi, p in enumerate(it.execute(fn, [o.addr, x] + ([x2] if na == 2 else []) + extra, st)):
            if p.end is not None: continue
            unit = z3.substitute(toR(p.ret), (o.pref, z3.RealVal(1)))
            res.append(prove('%s/linear-in-prefactor/%s[%d]' % (tag, qname, pi), p.st.pc, toR(p.ret) == o.pref * unit, 20000, {'N': N}, key='C09/prefactor/linear'))
    return res

def job_copy(N):
    mod = GMOD['m']; L = GMOD['L']; res = []; tag = 'copy/N%d' % N
    for jl, corr in ((N - 2, 1), (0, 0)):
        it = Interp(mod); st = it.new_state(); src = mkobj(it, st, L, N, jl, corr, tag='s'); dst = mkobj(it, st, L, 3, 0, 0, tag='t')
        ps = it.execute('@verif_c09_copy', [dst.addr, src.addr], st)
        if len(ps) != 1 or ps[0].end is not None: res.append(ob(tag + '/paths', 'undecided', detail=str(ps))); continue
        s2 = ps[0].st; ok = True; why = ''
        for fld, sz in (('N', 4), ('jLast', 4), ('correlated_calls', 1), ('prefactor', 8)):
            a = s2.load(dst.addr + L[fld], sz); b = s2.load(src.addr + L[fld], sz)
            if not ((is_sym(a) and is_sym(b) and a.eq(b)) or a == b): ok = False; why += fld + ' '
        for fld in ('x_values', 'function_values', 'a', 'b', 'c', 'd', 'domain'):
            va = read_vector_double(s2, dst.addr + L[fld]); vb = read_vector_double(s2, src.addr + L[fld])
            if len(va) != len(vb) or not all((is_sym(p) and is_sym(q) and p.eq(q)) or p == q for p, q in zip(va, vb)): ok = False; why += fld + ' '
            if s2.load(dst.addr + L[fld], 8) == s2.load(src.addr + L[fld], 8): ok = False; why += fld + '(aliased buffer) '
        res.append(ob('%s/all-fields-copied[j%d,c%d]' % (tag, jl, corr), 'discharged' if ok else 'candidate', detail='differences: ' + why, key='C09/copy/fields', model=None if ok else {'N': N}))
    return res

def job_2d(NX, NY, jx, cx, jy, cy):
    """2D Interpolate from any cache state of the two index objects equals, as a term, the result from the fresh state (off the grid lines)"""
    mod = GMOD['m']; res = []; tag = '2d/%dx%d/cache%d%d%d%d' % (NX, NY, jx, cx, jy, cy)
    def run(c):
        it = Interp(mod); st = it.new_state()
        xs = [z3.Real('x%d' % i) for i in range(NX)]; ys = [z3.Real('y%d' % i) for i in range(NY)]
        fs = [z3.Real('f%d' % i) for i in range(NX * NY)]
        for i in range(NX - 1): st.pc.append(xs[i] < xs[i + 1])
        for i in range(NY - 1): st.pc.append(ys[i] < ys[i + 1])
        p = it.execute('@verif_c01_build2d', [NX, NY, st.put_doubles(xs), st.put_doubles(ys), st.put_doubles(fs), -1.0, -1.0, -1.0], st)
        st = p[0].st; objp = p[0].ret
        it.execute('@verif_c01_setcache2d', [objp] + list(c), st)
        x, y = z3.Real('x'), z3.Real('y')
        st.pc += [x >= xs[0], x <= xs[NX - 1], y >= ys[0], y <= ys[NY - 1]] + [x != t for t in xs] + [y != t for t in ys]
        return it.execute('@verif_c01_eval2d', [objp, x, y], st), xs, ys, fs, x, y
    P1, xs, ys, fs, x, y = run((jx, cx, jy, cy)); P0 = run((0, 0, 0, 0))[0]
    mv = {'xs': xs, 'ys': ys, 'fs': fs, 'x': x, 'y': y, 'NX': NX, 'NY': NY, 'cache': [jx, cx, jy, cy]}
    n = 0
    for pi, p in enumerate(P1):
        for qi, r in enumerate(P0):
            so = z3.Solver(); so.set('timeout', 10000); so.add(*(p.st.pc + r.st.pc))
            if so.check() == z3.unsat: continue
            n += 1
            if p.end is not None or r.end is not None:
                res.append(prove('%s/no-end[%d,%d]' % (tag, pi, qi), p.st.pc + r.st.pc, z3.BoolVal(False), 10000, mv, key='C09/2d/outcome', detail='%s / %s' % (p.end, r.end))); continue
            if p.ret.eq(r.ret): res.append(ob('%s/identical-term[%d,%d]' % (tag, pi, qi), 'discharged', key='C09/2d/identical', detail='structurally identical'))
            else: res.append(prove('%s/equal-value[%d,%d]' % (tag, pi, qi), p.st.pc + r.st.pc, p.ret == r.ret, 30000, mv, key='C09/2d/equal-value'))
    if n == 0: res.append(ob(tag + '/pairs', 'broken', detail='no feasible pair'))
    return res

H1, H2, H3, HP, HM = z3.Real('h1'), z3.Real('h2'), z3.Real('h3'), z3.Real('hp'), z3.Real('hm')
HQ1, HQ2 = z3.Real('hq1'), z3.Real('hq2')
PREFIXES = {
    'eval': [('interpolate', [H1])], 'deriv': [('derivative1', [H1])], 'integrate': [('integrate', [H1, H2])], 'locate': [('locate', [H1])],
    'eval,eval': [('interpolate', [H1]), ('interpolate', [H3])], 'eval,setpref': [('interpolate', [H1]), ('set_prefactor', [HP])], 'setpref,eval': [('set_prefactor', [HP]), ('interpolate', [H1])],
    'eval,multiply': [('interpolate', [H1]), ('multiply', [HM])], 'setpref,multiply': [('set_prefactor', [HP]), ('multiply', [HM])], 'multiply,setpref': [('multiply', [HM]), ('set_prefactor', [HP])],
    'multiply,multiply': [('multiply', [HM]), ('multiply', [HP])], 'eval,copy': [('interpolate', [H1]), ('copy', [])], 'setpref,copy,eval': [('set_prefactor', [HP]), ('copy', []), ('interpolate', [H1])],
    'deriv0,setpref': [('derivative0', [H1]), ('set_prefactor', [HP])], 'globalmax,multiply': [('global_max', []), ('multiply', [HM])]}
FINALS = {'interpolate': [HQ1], 'derivative1': [HQ1], 'derivative0': [HQ1], 'integrate': [HQ1, HQ2], 'local_min': [HQ1, HQ2], 'local_max': [HQ1, HQ2], 'global_min': [], 'global_max': [], 'locate': [HQ1]}

def job_history(N, pname, fname):
    """real-constructor object, a short history, then one query: same result as a fresh object that only received the prefactor operations"""
    mod = GMOD['m']; res = []; tag = 'history/N%d/%s/%s' % (N, pname, fname)
    seq = PREFIXES[pname]; fin = (fname, FINALS[fname])
    xs, ys, hist = run_history(mod, N, seq + [fin])
    pure = [(n, a) for n, a in seq if n in ('set_prefactor', 'multiply')]
    _, _, fresh = run_history(mod, N, pure + [fin])
    dom = []
    for n, a in seq + [fin]:
        if n in ('set_prefactor', 'multiply', 'copy'): continue
        for t in a: dom += [t >= xs[0], t <= xs[N - 1]]
        if len(a) == 2: dom.append(a[0] <= a[1])
    offknot = [t != x for t in fin[1] for x in xs]
    mv = {'xs': xs, 'ys': ys, 'h1': H1, 'h2': H2, 'h3': H3, 'hp': HP, 'hm': HM, 'hq1': HQ1, 'hq2': HQ2, 'N': N, 'prefix': pname, 'final': fname}
    n = 0
    for pi, (sp, _, a) in enumerate(hist):
        for qi, (sq, _, b) in enumerate(fresh):
            so = z3.Solver(); so.set('timeout', 2000); so.add(*(sp.pc + sq.pc + dom + offknot))
            if so.check() == z3.unsat: continue
            n += 1
            same_ = (a == b) if not (is_sym(a) or is_sym(b)) else (is_sym(a) and is_sym(b) and a.eq(b))
            if same_: res.append(ob('%s/identical-term[%d,%d]' % (tag, pi, qi), 'discharged', key='C09/history/identical', detail='structurally identical result terms'))
            else: res.append(prove('%s/equal-value[%d,%d]' % (tag, pi, qi), sp.pc + sq.pc + dom + offknot, toR(a) == toR(b), 30000, mv, key='C09/history/equal-value', detail='terms differ structurally', sample=(pi == 0 and qi == 0 and pname == 'eval,setpref' and fname == 'interpolate')))
    if n == 0: res.append(ob(tag + '/pairs', 'broken', detail='no jointly feasible pair (%d history paths, %d fresh paths)' % (len(hist), len(fresh))))
    return res

def jobs(ctx):
    GMOD['L'] = layout(module(ctx)); b = BOUNDS[ctx.tier]; J = []
    for pn in PREFIXES:
        for fn in FINALS:
            if fn in ('local_min', 'local_max') and pn not in ('setpref,multiply', 'multiply,multiply', 'locate'): continue
            if (len(PREFIXES[pn]) <= 1 or fn in ('interpolate', 'integrate', 'global_max', 'local_min', 'derivative0')): J.append((job_history, (3, pn, fn)))
    if not ctx.quick():
        for pn in PREFIXES:
            for fn in ('interpolate', 'integrate', 'local_max'): J.append((job_history, (4, pn, fn)))
    if not GMOD['L']['complete']:
        return J + [(layout_guard, (GMOD['L'], 'C09'))]
    for N in b['N_locate']:
        for jl in range(N - 1):
            for corr in (0, 1): J.append((job_locate, (N, jl, corr)))
    for N in b['N_queries']:
        for jl in range(N - 1):
            for corr in (0, 1):
                if jl == 0 and corr == 0: continue
                for q in QUERIES: J.append((job_query, (N, jl, corr, q[0])))
        J.append((job_prefactor, (N,))); J.append((job_copy, (N,)))
    nx, ny = b['grid2d']
    for jx in range(nx - 1):
        for jy in range(ny - 1):
            for cx, cy in ((1, 1), (0, 1), (1, 0), (0, 0)):
                if (jx, cx, jy, cy) != (0, 0, 0, 0): J.append((job_2d, (nx, ny, jx, cx, jy, cy)))
    # heaviest first
    J.sort(key=lambda j: -(j[1][0] if isinstance(j[1][0], int) and j[0] is not job_history else 50))
    return J

def validate(ctx):
    """concrete Locate: interpreter vs native for every cache state of two tables"""
    mod = module(ctx); so = native(ctx); L = layout(mod); bad = []; n = 0
    for xs in ([0.0, 1.0, 2.5, 2.75, 7.0, 9.5, 11.0], [-3.0, -1.0, 4.0]):
        N = len(xs); ys = [float(i * i) for i in range(N)]
        for jl in range(N - 1):
            for corr in (0, 1):
                for x in xs + [0.5 * (a + b) for a, b in zip(xs, xs[1:])] + [xs[0] - 0.009 * (xs[1] - xs[0]), xs[-1] + 0.009 * (xs[-1] - xs[-2]), xs[0] - 0.011 * (xs[1] - xs[0])]:
                    it = Interp(mod); st = it.new_state()
                    o = mkobj(it, st, L, N, jl, corr, pref=1.0, coeffs=([0.0] * (N - 1),) * 4)
                    for i in range(N): st.mem[st.load(o.addr + L['x_values'], 8) + 8 * i] = (8, xs[i])
                    dm = st.load(o.addr + L['domain'], 8); st.mem[dm] = (8, xs[0]); st.mem[dm + 8] = (8, xs[-1])
                    q = it.execute('@verif_c01_locate', [o.addr, x], st)
                    r = nat.call(so, 'verif_c01_raw', [('u32', N), ('dbl[]', xs), ('dbl[]', ys), ('dbl[]', [0.0] * N)] + [('dbl[]', [0.0] * N)] * 3 + [1.0, ('u32', jl), ('i32', corr), ('i32', 20), x, 0.0])
                    n += 1
                    mine = ('exit' if q[0].end is not None and q[0].end.kind == 'exit' else q[0].ret); theirs = ('exit' if r['status'] == 'exit' else r.get('ret'))
                    if mine != theirs: bad.append('Locate(%r) jl=%d corr=%d: interp %s native %s' % (x, jl, corr, mine, theirs))
    if bad: return [ob('translator-validation', 'broken', detail='; '.join(bad[:4]))]
    return [ob('translator-validation', 'discharged', backend='TV', detail='%d concrete Locate calls over all cache states: interpreter == native' % n)]

def replay(ctx, o):
    so = native(ctx); m = o['model'] or {}
    if 'xs' not in m or not isinstance(m['xs'], list): return False, 'no model'
    xs = [q2f(q) for q in m['xs']]; N = len(xs)
    if o['key'].startswith('C09/history'):
        if any(a >= b for a, b in zip(xs, xs[1:])): return False, 'abscissae collapse in double precision'
        ys = [q2f(q) for q in m['ys']]; val = {k: q2f(m[k]) if isinstance(m[k], list) else 0.0 for k in ('h1', 'h2', 'h3', 'hp', 'hm', 'hq1', 'hq2')}
        sym = {'h1': H1, 'h2': H2, 'h3': H3, 'hp': HP, 'hm': HM, 'hq1': HQ1, 'hq2': HQ2}
        def enc(seq):
            ops = []; a = []; b = []
            for n, args in seq:
                ops.append(NATIVE_OP[n]); vals = [val[[k for k, t in sym.items() if t.eq(x)][0]] for x in args]
                a.append(vals[0] if vals else 0.0); b.append(vals[1] if len(vals) > 1 else 0.0)
            return nat.call(so, 'verif_c09_history', [('u32', N), ('dbl[]', xs), ('dbl[]', ys), ('u32', len(ops)), ('i32[]', ops), ('dbl[]', a), ('dbl[]', b)])
        seq = PREFIXES[m['prefix']]; fin = (m['final'], FINALS[m['final']])
        r1 = enc(seq + [fin]); r0 = enc([(n, a) for n, a in seq if n in ('set_prefactor', 'multiply')] + [fin])
        diff = r1['status'] != r0['status'] or (r1['status'] == 'ok' and r1['ret'] != r0['ret'] and not (r1['ret'] != r1['ret'] and r0['ret'] != r0['ret']))
        return diff, 'native history [%s] then %s: %s ; fresh object: %s  (xs=%s, args=%s)' % (m['prefix'], m['final'], r1.get('ret', r1['status']), r0.get('ret', r0['status']), xs, val)
    if any(a >= b for a, b in zip(xs, xs[1:])): return False, 'abscissae collapse in double precision'
    x = q2f(m['x']); key = o['key']
    ys = [q2f(q) for q in m['ys']] if 'ys' in m else [0.0] * N
    co = [[q2f(q) for q in m[k]] if k in m else [0.0] * (N - 1) for k in 'abcd']
    pref = q2f(m['pref']) if 'pref' in m else 1.0
    def call(jl, corr, op, x, x2=0.0):
        return nat.call(so, 'verif_c01_raw', [('u32', N), ('dbl[]', xs), ('dbl[]', ys)] + [('dbl[]', c) for c in co] + [pref, ('u32', jl), ('i32', corr), ('i32', op), x, x2])
    if key.startswith('C09/locate'):
        r1 = call(m['jLast'], m['corr'], 20, x); r0 = call(0, 0, 20, x)
        if r1['status'] != 'ok':
            inside = xs[0] <= x <= xs[-1]; return inside, 'native Locate(%r) from cache (%d,%d): %s' % (x, m['jLast'], m['corr'], r1)
        j = int(r1['ret'])
        okb = 0 <= j <= N - 2 and (xs[j] <= x <= xs[j + 1] or x < xs[0] or x > xs[-1])
        if not okb: return True, 'native Locate(%r) from cache (%d,%d) returned %d: not a bracket' % (x, m['jLast'], m['corr'], j)
        if r0['status'] == 'ok' and int(r0['ret']) != j and x not in xs: return True, 'native Locate(%r): cached state gives %d, fresh object %d' % (x, j, int(r0['ret']))
        return False, 'native Locate(%r) = %d (fresh %s): consistent' % (x, j, r0.get('ret'))
    if key.startswith('C09/query'):
        op = {'interpolate': 0, 'derivative1': 1, 'derivative2': 2, 'derivative0': 5, 'integrate': 10, 'local_min': 11, 'local_max': 12}[m['query']]
        x2 = q2f(m['x2']) if isinstance(m.get('x2'), list) else 0.0
        r1 = call(m['jLast'], m['corr'], op, x, x2); r0 = call(0, 0, op, x, x2)
        diff = (r1['status'] != r0['status']) or (r1['status'] == 'ok' and r1['ret'] != r0['ret'] and not (r1['ret'] != r1['ret'] and r0['ret'] != r0['ret']))
        return diff, 'native %s(%r,%r): cache (%d,%d) -> %s ; fresh -> %s' % (m['query'], x, x2, m['jLast'], m['corr'], r1.get('ret', r1['status']), r0.get('ret', r0['status']))
    return False, 'no replay rule for ' + key
