"""C18 - Samplers are reproducible from the generator state and respect counts, supports and acceptance rules (DESIGN.md section 2/C18)"""
from sf_common import *
from C13 import SU
import bp

EXPLANATION = ('C18: real samplers with the generator replaced by one symbolic stream (Sample_Uniform -> u_k in [0,1); inside Metropolis Sample_Gauss -> mean + sigma*n_k): Sample_Gauss consumes exactly one uniform and is Quantile_Gauss of it; Sample_Poisson: Knuth stopping rule for K draws; '
               'Rejection_Sampling (1D, 2D): returned point inside the box, accepted iff y <= pdf(x), invalid pdf values exit; Inverse_Transform_Sampling: one draw, root bracket = [xMin,xMax]; Sample_Metropolis (1D, 2D): exactly `sample` samples for every (sample, thinning, burn_in) in the bound, bounded domain respected, acceptance iff u < min(1, ratio); '
               'no other source of randomness is consulted (std::random_device / rand would be an unmodelled-environment event); outputs are terms over the stream symbols only (hence equal generator states give equal outputs).')
BOUNDS = {'quick': {'poisson_draws': 3, 'rejection_tries': 3, 'metropolis_steps': 6}, 'thorough': {'poisson_draws': 4, 'rejection_tries': 4, 'metropolis_steps': 9}}
NOT_DECIDED = ['every distribution-law clause (Kolmogorov-Smirnov, chi-square, moments): statistics of the output', 'that std::mt19937 / uniform_real_distribution themselves are deterministic functions of the engine state (standard library)']
ASSUMPTIONS = ['doubles exact reals', 'the random stream is arbitrary: u_k in [0,1), n_k any real', 'target densities uninterpreted and positive where evaluated', 'Inv_Erf / Find_Root uninterpreted where a sampler delegates to them']

def stream_u(it, args, st, depth):
    k = sum(1 for e in st.events if e[0] == 'draw'); u = z3.Real('u%d' % k); st.pc += [u >= 0, u < 1]; st.events.append(('draw', u))
    lo, hi = args[1], args[2]
    if isinstance(lo, float) and lo == 0.0 and isinstance(hi, float) and hi == 1.0: return [(st, u)]
    return [(st, toR(lo) + u * (toR(hi) - toR(lo)))]
SG = '@_ZN10libphysica12Sample_GaussERSt23mersenne_twister_engineImLm32ELm624ELm397ELm31ELm2567483615ELm11ELm4294967295ELm7ELm2636928640ELm15ELm4022730752ELm18ELm1812433253EEdd'
def stream_g(it, args, st, depth):
    k = sum(1 for e in st.events if e[0] == 'gauss'); n = z3.Real('n%d' % k); st.events.append(('gauss', n))
    return [(st, toR(args[1]) + toR(args[2]) * n)]
INVERF = z3.Function('InvErf', z3.RealSort(), z3.RealSort())
def inv_erf(it, args, st, depth): return [(st, INVERF(toR(args[0])))]
FROOT = z3.Function('FindRoot', z3.RealSort(), z3.RealSort(), z3.RealSort(), z3.RealSort())
def draws(st): return [e[1] for e in st.events if e[0] == 'draw']
def no_foreign_randomness(tag, paths, key='C18/only-passed-generator'):
    bad = [p for p in paths if any(e[0] in ('random_device',) or (e[0] == 'unmodelled' and any(t in e[1] for t in ('rand', 'time', 'clock', 'urandom'))) for e in p.st.events)]
    return [ob(tag + '/only-passed-generator', 'discharged' if not bad else 'candidate', key=key, model=None if not bad else {'events': [str(e) for e in bad[0].st.events if e[0] in ('random_device', 'unmodelled')][:3]}, detail='no std::random_device / rand / time call on any of %d paths' % len(paths))]

MEAN, SD = z3.Real('mean'), z3.Real('sd')
def job_gauss():
    res = []
    _, ps = run('@verif_sample', [2, MEAN, SD, 0.0], intercept={SU: stream_u, '@_ZN10libphysica7Inv_ErfEd': inv_erf}, pre=[SD > 0], limits=Limits(max_steps=8000000))
    mv = {'mean': MEAN, 'sd': SD}
    for pi, p in enumerate(ps):
        if p.end is not None: res.append(prove('gauss/returns[%d]' % pi, p.st.pc, z3.BoolVal(False), 10000, mv, key='C18/gauss', detail=str(p.end))); continue
        d = draws(p.st)
        okd = len(d) == 1
        res.append(ob('gauss/one-uniform-draw[%d]' % pi, 'discharged' if okd else 'candidate', key='C18/gauss', model=None if okd else mv, detail='%d draws from the passed generator' % len(d)))
        if okd:
            K = z3.Real('K'); from C07 import fit_constant
            res += fit_constant(toR(p.ret), MEAN + K * SD * INVERF(2 * d[0] - 1), K, [SD > 0], 'gauss/is-quantile-of-the-draw', math.sqrt(2), mv, 'C18/gauss')
    res += no_foreign_randomness('gauss', ps)
    return res

def job_uniform():
    res = []; LO, HI = z3.Real('lo'), z3.Real('hi')
    # the real Sample_Uniform with the real mt19937: concrete engine, symbolic range -> result = lo + c*(hi-lo) with c in [0,1) a number fixed by the engine state
    _, ps = run('@verif_sample', [1, LO, HI, 0.0], pre=[LO < HI], limits=Limits(max_steps=8000000))
    for pi, p in enumerate(ps):
        if p.end is not None: res.append(ob('uniform/returns[%d]' % pi, 'undecided', detail=str(p.end))); continue
        res.append(prove('uniform/inside-range[%d]' % pi, p.st.pc + [LO < HI], z3.And(toR(p.ret) >= LO, toR(p.ret) <= HI), 20000, {'lo': LO, 'hi': HI}, key='C18/uniform/inside-range'))
    res += no_foreign_randomness('uniform', ps)
    return res

def job_poisson(K):
    res = []; LAM = z3.Real('lambda'); E = uf('exp')
    lim = Limits(max_visits=K, visit_fn='Sample_Poisson', visit_block='do.body', feas_ms=2000, max_paths=300, max_steps=8000000)
    for region, pre in (('<=500', [LAM > 0, LAM <= 500]),):
        _, ps = run('@verif_sample', [3, LAM, 0.0, 0.0], intercept={SU: stream_u}, pre=pre, limits=lim)
        nret = 0
        for pi, p in enumerate(ps):
            if p.end is not None:
                if p.end.kind != 'cutoff': res.append(prove('poisson/%s/no-%s[%d]' % (region, p.end.kind, pi), p.st.pc, z3.BoolVal(False), 10000, {'lambda': LAM}, key='C18/poisson/' + p.end.kind, detail=str(p.end)))
                continue
            nret += 1; d = draws(p.st); k = len(d); ax = [E(e[2]) > 0 for e in p.st.events if e[0] == 'math' and e[1] == 'exp']
            v = p.ret
            okc = (not is_sym(v)) and float(v) == float(k - 1)
            res.append(ob('poisson/%s/count-is-draws-minus-one[%d]' % (region, pi), 'discharged' if okc else 'candidate', key='C18/poisson/count', model=None if okc else {'lambda': LAM, 'u': d}, detail='returned %s after %d draws' % (v, k)))
            prod = z3.RealVal(1); conds = []
            for j, u in enumerate(d):
                prod = prod * u
                conds.append(prod * E(LAM) > 1 if j < k - 1 else prod * E(LAM) <= 1)
            res.append(prove('poisson/%s/knuth-stopping-rule[%d]' % (region, pi), p.st.pc + ax, z3.And(*conds), 30000, {'lambda': LAM, 'u': d}, key='C18/poisson/stopping-rule', sample=(k == 2)))
        res.append(ob('poisson/%s/coverage' % region, 'discharged' if nret >= K else 'broken', key='C18/coverage', detail='%d returning paths' % nret))
        res += no_foreign_randomness('poisson', ps)
    return res

def job_rejection(tries):
    res = []; XL, XH, YM = z3.Real('xmin'), z3.Real('xmax'), z3.Real('ymax'); pre = [XL < XH, YM > 0]
    lim = Limits(max_visits=tries, visit_fn='Rejection_Sampling', visit_block='while.body', feas_ms=2000, max_paths=600, max_steps=8000000)
    inter = {SU: stream_u}; inter.update(user_f())
    _, ps = run('@verif_sample', [5, XL, XH, YM], intercept=inter, pre=pre, limits=lim)
    nret = 0
    for pi, p in enumerate(ps):
        cs = calls(p.st); d = draws(p.st); mv = {'xmin': XL, 'xmax': XH, 'ymax': YM, 'u': d, 'f': [c[2] for c in cs]}
        if p.end is not None:
            if p.end.kind == 'exit':
                last = cs[-1][2] if cs else z3.RealVal(0)
                res.append(prove('rejection/exit-only-for-invalid-pdf[%d]' % pi, p.st.pc, z3.Or(toR(last) < 0, toR(last) > YM), 20000, mv, key='C18/rejection/exit'))
            elif p.end.kind != 'cutoff': res.append(prove('rejection/no-%s[%d]' % (p.end.kind, pi), p.st.pc, z3.BoolVal(False), 10000, mv, key='C18/rejection/' + p.end.kind, detail=str(p.end)))
            continue
        nret += 1; v = toR(p.ret); n = len(cs)
        xs_ = [XL + d[2 * i] * (XH - XL) for i in range(n)]; ys_ = [d[2 * i + 1] * YM for i in range(n)]
        res.append(prove('rejection/result-inside-box[%d]' % pi, p.st.pc, z3.And(v >= XL, v <= XH), 20000, mv, key='C18/rejection/inside'))
        res.append(prove('rejection/acceptance-rule[%d]' % pi, p.st.pc, z3.And(v == xs_[n - 1], ys_[n - 1] <= toR(cs[n - 1][2]), *[ys_[i] > toR(cs[i][2]) for i in range(n - 1)]), 30000, mv, key='C18/rejection/acceptance-rule', sample=(n == 2)))
        res.append(prove('rejection/evaluates-pdf-at-the-proposals[%d]' % pi, p.st.pc, z3.And(*[toR(cs[i][1][0]) == xs_[i] for i in range(n)]), 20000, mv, key='C18/rejection/acceptance-rule'))
    res.append(ob('rejection/coverage', 'discharged' if nret >= tries else 'broken', key='C18/coverage', detail='%d returning paths' % nret))
    res += no_foreign_randomness('rejection', ps)
    # 2D
    inter2 = {SU: stream_u}; inter2.update(user_f(arity=2, name='@verif_f2'))
    outp = {}
    def out(st): outp['a'] = st.alloc(16); return outp['a']
    Y1, Y2, ZM = z3.Real('ymin2'), z3.Real('ymax2'), z3.Real('zmax')
    lim2 = Limits(max_visits=min(tries, 2), visit_fn='Rejection_Sampling_2D', visit_block='while.body', feas_ms=2000, max_paths=300, max_steps=8000000)
    _, ps = run('@verif_rejection2d', [XL, XH, Y1, Y2, ZM, out], intercept=inter2, pre=[XL < XH, Y1 < Y2, ZM > 0], limits=lim2)
    for pi, p in enumerate(ps):
        if p.end is not None: continue
        x_, y_ = toR(p.st.load(outp['a'], 8, True)), toR(p.st.load(outp['a'] + 8, 8, True)); cs = calls(p.st); d = draws(p.st); n = len(cs)
        res.append(prove('rejection2d/result-inside-box[%d]' % pi, p.st.pc, z3.And(x_ >= XL, x_ <= XH, y_ >= Y1, y_ <= Y2), 20000, {'n': n}, key='C18/rejection2d/inside'))
        res.append(prove('rejection2d/acceptance-rule[%d]' % pi, p.st.pc, z3.And(d[3 * (n - 1) + 2] * ZM <= toR(cs[n - 1][2]), x_ == toR(cs[n - 1][1][0]), y_ == toR(cs[n - 1][1][1])), 20000, {'n': n}, key='C18/rejection2d/acceptance-rule'))
    return res

def job_inverse_transform():
    res = []; XL, XH = z3.Real('xmin'), z3.Real('xmax')
    def fr(it, args, st, depth):
        st.events.append(('root', args[1], args[2], args[3])); return [(st, FROOT(toR(args[1]), toR(args[2]), toR(args[3])))]
    _, ps = run('@verif_sample', [4, XL, XH, 0.0], intercept={SU: stream_u, '@_ZN10libphysica9Find_RootESt8functionIFddEEddd': fr}, pre=[XL < XH])
    for pi, p in enumerate(ps):
        if p.end is not None: res.append(prove('inverse-transform/returns[%d]' % pi, p.st.pc, z3.BoolVal(False), 10000, {}, key='C18/inverse-transform', detail=str(p.end))); continue
        rt_ = [e for e in p.st.events if e[0] == 'root']; d = draws(p.st)
        ok = len(rt_) == 1 and len(d) == 1
        res.append(ob('inverse-transform/one-draw-one-root-search[%d]' % pi, 'discharged' if ok else 'candidate', key='C18/inverse-transform', model=None if ok else {}, detail='%d draws, %d root searches' % (len(d), len(rt_))))
        if ok: res.append(prove('inverse-transform/bracket-is-the-domain[%d]' % pi, p.st.pc, z3.And(toR(rt_[0][1]) == XL, toR(rt_[0][2]) == XH, toR(rt_[0][3]) > 0), 10000, {'xmin': XL, 'xmax': XH}, key='C18/inverse-transform'))
    res += no_foreign_randomness('inverse-transform', ps)
    return res

def job_metropolis(sample, thinning, burn_in, bounded, dim2=False):
    res = []; tag = 'metropolis%s/s%d-t%d-b%d-%s' % ('2d' if dim2 else '', sample, thinning, burn_in, 'bounded' if bounded else 'unbounded')
    SIG = z3.Real('sigma'); D = [z3.Real('d%d' % i) for i in range(4 if dim2 else 2)]
    pre = [SIG > 0] + ([D[0] < D[1]] + ([D[2] < D[3]] if dim2 else []) if bounded else [])
    inter = {SU: stream_u, SG: stream_g}
    if dim2:
        G2 = z3.Function('G2', z3.RealSort(), z3.RealSort(), z3.RealSort())
        inter.update(user_f(fn=lambda x, y: G2(toR(x), toR(y)), arity=2, name='@verif_f2'))
    else:
        G1 = z3.Function('G1', z3.RealSort(), z3.RealSort()); inter.update(user_f(fn=lambda x: G1(toR(x))))
    cap = sample + 4; outp = {}
    def out(st): outp['a'] = st.alloc(8 * cap * (2 if dim2 else 1)); return outp['a']
    dom = D if bounded else []
    args = ([SIG, SIG] if dim2 else [SIG]) + [sample, thinning, burn_in, len(dom), lambda st: st.put_doubles(dom) if dom else st.alloc(8), out, cap * (2 if dim2 else 1)]
    _, ps = run('@verif_metropolis2d' if dim2 else '@verif_metropolis', args, intercept=inter, pre=pre, limits=Limits(max_paths=3000, feas_ms=300, max_steps=30000000, max_seconds=300))
    mv = {'sample': sample, 'thinning': thinning, 'burn_in': burn_in, 'bounded': bounded, 'dim2': dim2}
    nret = 0
    for pi, p in enumerate(ps):
        if p.end is not None:
            res.append(prove('%s/returns[%d]' % (tag, pi), p.st.pc + [c[2] > 0 for c in calls(p.st)], z3.BoolVal(False), 10000, mv, key='C18/metropolis/returns', detail=str(p.end))); continue
        nret += 1; n = p.ret
        okn = (not is_sym(n)) and n == sample
        if not okn or pi < 40: res.append(ob('%s/exactly-the-requested-number-of-samples[%d]' % (tag, pi), 'discharged' if okn else 'candidate', key='C18/metropolis/sample-count', model=None if okn else mv, detail='%s samples returned, %d requested' % (n, sample)))
        if bounded and okn and pi < 60:
            vals = [toR(p.st.load(outp['a'] + 8 * k, 8, True)) for k in range(sample * (2 if dim2 else 1))]
            ins = [z3.And(D[0] <= v, v <= D[1]) for v in vals] if not dim2 else [z3.And(D[0] <= vals[2 * k], vals[2 * k] <= D[1], D[2] <= vals[2 * k + 1], vals[2 * k + 1] <= D[3]) for k in range(sample)]
            res.append(prove('%s/samples-inside-domain[%d]' % (tag, pi), p.st.pc + [c[2] > 0 for c in calls(p.st)], z3.And(*ins) if ins else z3.BoolVal(True), 20000, mv, key='C18/metropolis/inside-domain'))
    res.append(ob(tag + '/coverage', 'discharged' if nret else 'broken', key='C18/coverage', detail='%d returning paths of %d' % (nret, len(ps))))
    if (sample, thinning, burn_in) == (1, 1, 0) and not dim2:
        # acceptance rule of the single step
        for pi, p in enumerate(ps):
            if p.end is not None: continue
            cs = calls(p.st); d = draws(p.st); g = [e[1] for e in p.st.events if e[0] == 'gauss']
            x0 = (D[0] + d[0] * (D[1] - D[0])) if bounded else SIG * g[0]
            if is_sym(p.ret) or p.ret != 1: continue
            cand = x0 + SIG * g[-1]; u = d[-1]; v = toR(p.st.load(outp['a'], 8, True)); pos = [c[2] > 0 for c in cs]
            ratio = G1(cand) / G1(x0); acc = u < z3.If(ratio < 1, ratio, 1)
            if bounded: acc = z3.And(cand >= D[0], cand <= D[1], acc)
            res.append(prove('%s/acceptance-rule[%d]' % (tag, pi), p.st.pc + pos + [G1(cand) > 0, G1(x0) > 0], v == z3.If(acc, cand, x0), 30000, mv, key='C18/metropolis/acceptance-rule', sample=(pi == 0)))
        res += no_foreign_randomness(tag, ps)
    return res

def jobs(ctx):
    m = module(ctx); b = BOUNDS[ctx.tier]
    if SU not in m.funcs or SG not in m.funcs: raise RuntimeError('expected mangled names of Sample_Uniform / Sample_Gauss not found')
    J = [(job_gauss, ()), (job_uniform, ()), (job_poisson, (b['poisson_draws'],)), (job_rejection, (b['rejection_tries'],)), (job_inverse_transform, ())]
    steps = b['metropolis_steps']
    for s_ in (0, 1, 2, 3):
        for t in (1, 2, 3):
            for bi in (0, 1, 2, 5):
                if bi + s_ * t <= steps: J.append((job_metropolis, (s_, t, bi, False)))
                if bi + s_ * t <= (3 if ctx.quick() else 4): J.append((job_metropolis, (s_, t, bi, True)))       # bounded domain: ~6 paths per step
    J += [(job_metropolis, (1, 1, 0, True, True)), (job_metropolis, (1, 2, 0, True, True)), (job_metropolis, (2, 1, 1, False, True))]
    J.sort(key=lambda j: -(j[1][0] * j[1][1] + j[1][2]) if j[0] is job_metropolis else 0)
    return J

def validate(ctx):
    module(ctx); so = native(ctx); bad = []; n = 0
    # real engine, concrete: Sample_Uniform / Sample_Gauss / Sample_Poisson from the fixed seed of the wrapper
    for op, a, b in ((1, 2.0, 5.0), (3, 3.5, 0.0), (3, 0.2, 0.0)):
        _, ps = run('@verif_sample', [op, a, b, 0.0], limits=Limits(max_steps=20000000)); r = nat.call(so, 'verif_sample', [('i32', op), a, b, 0.0]); n += 1
        if len(ps) != 1 or ps[0].end is not None or r['status'] != 'ok' or ps[0].ret != r['ret']: bad.append('verif_sample(%d): interp %s native %s' % (op, ps[0].ret if ps and ps[0].end is None else [str(p.end) for p in ps], r.get('ret', r['status'])))
    if bad: return [ob('translator-validation', 'broken', detail='; '.join(bad[:3]))]
    return [ob('translator-validation', 'discharged', backend='TV', detail='%d concrete sampler calls with the real std::mt19937 / uniform_real_distribution: interpreter == native (bit-identical)' % n)]

def replay(ctx, o):
    import ctypes
    so = native(ctx); m = o['model'] or {}; key = o['key']
    if key.startswith('C18/metropolis'):
        s_, t, bi = m['sample'], m['thinning'], m['burn_in']; last = None
        for sigma in (0.6, 2.0, 6.0, 0.05):
            dom = [0.0, 1.0] if m['bounded'] else []
            if m.get('dim2'):
                dom = [0.0, 1.0, 0.0, 2.0] if m['bounded'] else []
                r = nat.call(so, 'verif_metropolis2d', [sigma, sigma, ('u32', s_), ('u32', t), ('u32', bi), ('u32', len(dom)), ('dbl[]', dom or [0.0]), ('dbl[]', [0.0] * (2 * s_ + 8)), ('u64', 2 * s_ + 8)], restype='long', fcb=lambda x, y: 0.5 + x + 0.1 * y * y, fcb_name='verif_f2_ptr', fcb_sig=ctypes.CFUNCTYPE(ctypes.c_double, ctypes.c_double, ctypes.c_double))
            else:
                r = nat.call(so, 'verif_metropolis', [sigma, ('u32', s_), ('u32', t), ('u32', bi), ('u32', len(dom)), ('dbl[]', dom or [0.0]), ('dbl[]', [0.0] * (s_ + 8)), ('u64', s_ + 8)], restype='long', fcb=lambda x: 0.5 + x * x)
            if r['status'] != 'ok': return True, 'native Metropolis ended: ' + r['status']
            vals = r['arrays'][1][:r['ret'] * (2 if m.get('dim2') else 1)]
            outside = [v for v in vals if dom and not m.get('dim2') and not (dom[0] <= v <= dom[1])]
            last = 'native Sample_Metropolis(sigma=%r, sample=%d, thinning=%d, burn_in=%d, %s domain) returned %d samples; outside the domain: %s' % (sigma, s_, t, bi, 'bounded' if dom else 'unbounded', r['ret'], outside[:3])
            if r['ret'] != s_ or outside: return True, last
        return False, last
    if key == 'C18/gauss' or key.startswith('C18/gauss'):
        def twice(lib):
            pass
        r1 = nat.call(so, 'verif_sample', [('i32', 2), 0.5, 2.0, 0.0])
        def pre(lib):
            lib.verif_sample.restype = ctypes.c_double; lib.verif_sample(ctypes.c_int(2), ctypes.c_double(0.0), ctypes.c_double(1.0), ctypes.c_double(0.0))
        r2 = nat.call(so, 'verif_sample', [('i32', 2), 0.5, 2.0, 0.0], pre=pre)
        return r1.get('ret') != r2.get('ret'), 'native Sample_Gauss from the same generator seed: %r in a fresh process, %r after one earlier Gaussian draw from another generator' % (r1.get('ret', r1['status']), r2.get('ret', r2['status']))
    if key.startswith('C18/rejection'):
        seq = []
        r = nat.call(so, 'verif_sample', [('i32', 5), -1.0, 2.0, 1.5], fcb=lambda x: 1.0 / (1.0 + x * x))
        if r['status'] != 'ok': return True, 'native Rejection_Sampling ended: ' + r['status']
        return not (-1.0 <= r['ret'] <= 2.0), 'native Rejection_Sampling on [-1,2] returned %r' % r['ret']
    if key.startswith('C18/poisson'):
        # exact reference: the harness seeds std::mt19937 with 20240607; the same generator and libstdc++'s generate_canonical<double,53> (two 32-bit draws) are re-implemented here,
        # and Knuth's rule is applied to that stream: the count is (number of draws until the running product drops below exp(-lambda)) - 1
        def mt19937(seed):
            mt = [0] * 624; mt[0] = seed & 0xffffffff
            for i in range(1, 624): mt[i] = (1812433253 * (mt[i - 1] ^ (mt[i - 1] >> 30)) + i) & 0xffffffff
            idx = 624
            while True:
                if idx >= 624:
                    for k in range(624):
                        y = (mt[k] & 0x80000000) | (mt[(k + 1) % 624] & 0x7fffffff); mt[k] = mt[(k + 397) % 624] ^ (y >> 1) ^ (0x9908b0df if y & 1 else 0)
                    idx = 0
                y = mt[idx]; idx += 1; y ^= y >> 11; y ^= (y << 7) & 0x9d2c5680; y ^= (y << 15) & 0xefc60000; y ^= y >> 18; yield y & 0xffffffff
        bad = []
        for lam in (0.3, 1.0, 3.5, 7.25, 20.0):
            g = mt19937(20240607); prod = 1.0; k = 0; lim = math.exp(-lam)
            while True:
                x1 = next(g); x2 = next(g); u = (float(x1) + float(x2) * 4294967296.0) / 18446744073709551616.0; u = min(u, 1.0 - 2.0 ** -53); k += 1; prod *= u
                if prod <= lim * (1 + 1e-12): break
            r = nat.call(so, 'verif_sample', [('i32', 3), lam, 0.0, 0.0])
            if r['status'] != 'ok' or r['ret'] != float(k - 1): bad.append((lam, r.get('ret', r['status']), k - 1))
        return bool(bad), 'native Sample_Poisson with the generator seeded as in the harness against the textbook rule on the same stream (lambda, native, expected): %s' % (bad or 'all of 0.3, 1, 3.5, 7.25, 20 agree')
    return False, 'no replay rule for ' + key
