"""C06 - Gamma-function family (DESIGN.md section 2/C06)"""
from sf_common import *

EXPLANATION = ('C06: real GammaQcf: on the path with exactly K loop iterations the value is exp(-x + a log x - lnGamma(a)) times the K-th convergent of the continued fraction (checker-built, evaluated bottom-up); real GammaPser: K-term partial sum of the series; '
               'dispatch of GammaQ (x=0, a>100, x<a+1, else) with the three kernels as uninterpreted functions; GammaP = 1-GammaQ, Upper+Lower = Gamma; Factorial memo table: from every valid table state the value is n! and the table stays a valid prefix-extension; argument guards.')
BOUNDS = {'quick': {'K_cf': [1, 2, 3], 'K_series': [1, 2, 3], 'factorial_table': 6, 'factorial_n': 8}, 'thorough': {'K_cf': [1, 2, 3, 4, 5], 'K_series': [1, 2, 3, 4, 5], 'factorial_table': 9, 'factorial_n': 12}}
NOT_DECIDED = ['every "agrees with an independent reference to 1e-12 / 1e-3 / 1e-7" clause (Lanczos lnGamma, P/Q on both sides of x=a+1 and a=100, quadrature branch, Halley inverse): transcendental references', 'P,Q in [0,1], monotonicity in x, Pascal rule through floor(0.5+...)',
               'number of iterations the loops take (the K-iteration path is examined for K in the bound; FPMIN clamps inactive)']
ASSUMPTIONS = ['doubles exact reals; exp, log uninterpreted', 'a > 0, x > 0 symbolic']

X, A = z3.Real('x'), z3.Real('a')

def gln_term():
    _, ps = sf(12, A, pre=[A > 0])
    live = [p for p in ps if p.end is None]
    if len(live) != 1: raise Unsupported('GammaLn paths: %s' % [str(p.end) for p in ps])
    return live[0].ret, live[0].st
def pref(gln): return uf('exp')(-X + A * uf('log')(X) - toR(gln))

import sys
FPMIN = sys.float_info.min / sys.float_info.epsilon
def idealise(t, conds):
    """modified Lentz idealisation: the start value c = 1/FPMIN stands for infinity (terms an/c0 vanish) and the FPMIN clamps are inactive (recorded in conds)"""
    from fractions import Fraction
    big = Fraction(1.0 / FPMIN); small = Fraction(FPMIN)
    def isnum(x, fr):
        return z3.is_rational_value(x) and Fraction(x.numerator_as_long(), x.denominator_as_long()) == fr
    cache = {}
    def go(u):
        k = u.get_id()
        if k in cache: return cache[k]
        ch = u.children(); kind = u.decl().kind()
        if kind == z3.Z3_OP_DIV and (isnum(ch[1], big) or (z3.is_rational_value(ch[1]) and abs(Fraction(ch[1].numerator_as_long(), ch[1].denominator_as_long())) > Fraction(10) ** 250)): r = z3.RealVal(0)
        elif kind == z3.Z3_OP_MUL and any(z3.is_rational_value(c) and 0 < abs(Fraction(c.numerator_as_long(), c.denominator_as_long())) < Fraction(1, 10 ** 250) for c in ch): r = z3.RealVal(0)
        elif kind == z3.Z3_OP_ITE and z3.is_rational_value(ch[1]) and (0 < abs(Fraction(ch[1].numerator_as_long(), ch[1].denominator_as_long())) < Fraction(1, 10 ** 250) or abs(Fraction(ch[1].numerator_as_long(), ch[1].denominator_as_long())) > Fraction(10) ** 250):
            conds.append(z3.Not(go(ch[0]))); r = go(ch[2])
        elif not ch: r = u
        else:
            nch = [go(c) for c in ch]
            r = u.decl()(*nch) if any(not a.eq(b) for a, b in zip(nch, ch)) else u
        cache[k] = r; return r
    return go(t)

def div_nonzero(t):
    out = []; seen = set()
    def go(u):
        if u.get_id() in seen: return
        seen.add(u.get_id())
        if u.decl().kind() == z3.Z3_OP_DIV and not z3.is_rational_value(u.arg(1)): out.append(u.arg(1) != 0)
        for c in u.children(): go(c)
    go(t); return out

def job_qcf(K):
    res = []; tag = 'GammaQcf/K%d' % K; gln, gst = gln_term()
    lim = Limits(max_visits=K, visit_fn='GammaQcf', visit_block='while', feas_ms=2000, max_paths=400)
    _, ps = sf(20, X, A, pre=[X > 0, A > 0], limits=lim)
    b0 = X + 1 - A
    odiv = []
    def cf(n_terms, index_of):
        # 1/(b0 + a1/(b1 + a2/(... + aK/bK))) evaluated from the bottom; a_i = -i*(i-a), b_i = b0 + 2i; every denominator of the oracle is assumed non-zero (odiv)
        t = None
        for i in range(n_terms, 0, -1):
            an = -index_of(i) * (index_of(i) - A); bi = b0 + 2 * i
            den = bi if t is None else bi + t
            odiv.append(den != 0); t = an / den
        den = b0 + t if t is not None else b0
        odiv.append(den != 0); return 1 / den
    want = pref(gln) * cf(K, lambda i: i)
    mv = {'x': X, 'a': A, 'K': K, 'op': 20}
    found = False
    for pi, p in enumerate(ps):
        if p.end is not None: continue
        iters = max([n for (fn, blk), n in p.st.visits.items() if blk == '%while.body'] + [0])     # loop iterations on this path
        if iters != K: continue
        found = True
        hyp = alg_assumptions(p.st) + alg_assumptions(gst) + [X > 0, A > 0]
        # FPMIN clamps inactive on this path (the clamp replaces d or c by a constant): add as hypotheses the path's own comparisons
        r_ = toR(p.ret); efac = [c for c in r_.children() if c.decl().name() == 'exp'] if z3.is_app_of(r_, z3.Z3_OP_MUL) else []
        if len(efac) != 1: res.append(ob('%s/shape[%d]' % (tag, pi), 'undecided', detail='result is not exp(...) * h')); continue
        hterm = None
        for c in r_.children():
            if not c.eq(efac[0]): hterm = c if hterm is None else hterm * c
        conds = []; ideal = idealise(hterm, conds)
        res.append(prove('%s/prefactor[%d]' % (tag, pi), alg_assumptions(gst) + [X > 0, A > 0], efac[0].arg(0) == -X + A * uf('log')(X) - toR(gln), 30000, mv, key='C06/GammaQcf/prefactor'))
        oracle = cf(K, lambda i: i)
        res.append(prove('%s/is-Kth-convergent[%d]' % (tag, pi), div_nonzero(ideal) + odiv + [X > 0, A > 0], ideal == oracle, 120000, mv, key='C06/GammaQcf/convergent', tactic='nra', sample=(K == 2)))
    if not found: res.append(ob(tag + '/reach', 'undecided', detail='no returning path with exactly %d iterations among %d paths (%s)' % (K, len(ps), sorted(set(max([n for k, n in p.st.visits.items()] + [0]) for p in ps if p.end is None)))))
    return res

def job_pser(K):
    res = []; tag = 'GammaPser/K%d' % K; gln, gst = gln_term()
    lim = Limits(max_visits=K, visit_fn='GammaPser', visit_block='while', feas_ms=2000, max_paths=400)
    _, ps = sf(21, X, A, pre=[X > 0, A > 0], limits=lim)
    tot = z3.RealVal(0); term = 1 / A
    for n in range(K + 1):
        if n > 0: term = term * X / (A + n)
        tot = tot + term
    want = tot * pref(gln); mv = {'x': X, 'a': A, 'K': K, 'op': 21}; found = False
    for pi, p in enumerate(ps):
        if p.end is not None: continue
        iters = max([n for (fn, blk), n in p.st.visits.items() if blk == '%while.body'] + [0])
        if iters != K: continue
        found = True
        res.append(prove('%s/is-Kth-partial-sum[%d]' % (tag, pi), alg_assumptions(p.st) + alg_assumptions(gst) + [X > 0, A > 0], toR(p.ret) == want, 120000, mv, key='C06/GammaPser/partial-sum', tactic=None, sample=(K == 2)))
    if not found: res.append(ob(tag + '/reach', 'undecided', detail='no returning path with exactly %d iterations among %d paths' % (K, len(ps))))
    return res

QCF = z3.Function('Qcf', z3.RealSort(), z3.RealSort(), z3.RealSort()); PSER = z3.Function('Pser', z3.RealSort(), z3.RealSort(), z3.RealSort()); QINT = z3.Function('Qint', z3.RealSort(), z3.RealSort(), z3.RealSort())
def kernels():
    def mk(F):
        return lambda it, args, st, depth: [(st, F(toR(args[0]), toR(args[1])))]
    return {'@_ZN10libphysica8GammaQcfEdd': mk(QCF), '@_ZN10libphysica9GammaPserEdd': mk(PSER), '@_ZN10libphysica9GammaQintEdd': mk(QINT)}

def job_dispatch():
    res = []; mv = {'x': X, 'a': A, 'op': 16}
    DL = lambda: Limits(max_seconds=60, feas_ms=2000)
    _, ps = sf(16, X, A, intercept=kernels(), limits=DL())
    nret = 0
    for pi, p in enumerate(ps):
        if p.end is not None:
            if p.end.kind == 'exit': res.append(prove('GammaQ/exit-only-invalid[%d]' % pi, p.st.pc, z3.Or(X < 0, A <= 0), 10000, mv, key='C06/GammaQ/guard'))
            else: res.append(prove('GammaQ/no-%s[%d]' % (p.end.kind, pi), p.st.pc, z3.BoolVal(False), 10000, mv, key='C06/GammaQ/' + p.end.kind, detail=str(p.end)))
            continue
        nret += 1; v = toR(p.ret)
        want = z3.If(X == 0, z3.RealVal(1), z3.If(A > 100, QINT(X, A), z3.If(X < A + 1, 1 - PSER(X, A), QCF(X, A))))
        res.append(prove('GammaQ/dispatch[%d]' % pi, p.st.pc, z3.And(X >= 0, A > 0, v == want), 10000, mv, key='C06/GammaQ/dispatch', sample=(pi == 0)))
    res.append(ob('GammaQ/coverage', 'discharged' if nret >= 4 else 'broken', key='C06/coverage', detail='%d returning paths' % nret))
    # P = 1 - Q, Upper + Lower = Gamma
    _, pp = sf(17, X, A, intercept=kernels(), pre=[X > 0, A > 0], limits=DL()); _, qq = sf(16, X, A, intercept=kernels(), pre=[X > 0, A > 0], limits=DL())
    for pi, p in enumerate(pp):
        for qi, q in enumerate(qq):
            if p.end is not None or q.end is not None: continue
            so = z3.Solver(); so.add(*(p.st.pc + q.st.pc))
            if so.check() == z3.unsat: continue
            res.append(prove('GammaP/one-minus-Q[%d,%d]' % (pi, qi), p.st.pc + q.st.pc, toR(p.ret) + toR(q.ret) == 1, 10000, dict(mv, op=17), key='C06/P-plus-Q'))
    _, uu = sf(14, X, A, intercept=kernels(), pre=[X > 0, A > 0], limits=DL()); _, ll = sf(15, X, A, intercept=kernels(), pre=[X > 0, A > 0], limits=DL()); _, gg = sf(13, A, pre=[A > 0])
    for ui, u in enumerate(uu):
        for li, l in enumerate(ll):
            if u.end is not None or l.end is not None or gg[0].end is not None: continue
            so = z3.Solver(); so.add(*(u.st.pc + l.st.pc))
            if so.check() == z3.unsat: continue
            res.append(prove('Upper+Lower=Gamma[%d,%d]' % (ui, li), u.st.pc + l.st.pc + alg_assumptions(u.st) + alg_assumptions(l.st), toR(u.ret) + toR(l.ret) == toR(gg[0].ret), 30000, dict(mv, op=14), key='C06/upper-plus-lower'))
    return res

def global_stores(it, st, trace):
    names = {a: g for g, a in it.gaddr.items() if isinstance(a, int)}; out = set()
    for kind, addr, size in trace:
        if kind != 'store' or not isinstance(addr, int): continue
        b = st.find(addr, size)
        if b is not None and st.objs[b][1] == 'global' and names.get(b) not in it.STREAMS: out.add(str(names.get(b, hex(b))))
    return sorted(out)

HIST = {'GammaQcf': (20, 'GammaQcf'), 'GammaPser': (21, 'GammaPser'), 'GammaLn': (12, None), 'Gamma': (13, None)}
def job_history(name):
    """history independence of the gamma kernels: on every explored path the call writes no library state (then a later call cannot see an earlier one);
       if it does write state, the two-call history (x0,a0) then (x,a) is executed symbolically and compared with the fresh call"""
    res = []; op, vf = HIST[name]; tag = 'history/' + name
    X0, A0 = z3.Real('x0'), z3.Real('a0')
    def lim(): return Limits(max_visits=2, visit_fn=vf, visit_block='while', feas_ms=2000, max_paths=400) if vf else Limits(feas_ms=2000, max_paths=400)
    it = Interp(G['m'], limits=lim()); st = it.new_state(); st, _ = it.run_global_ctors(st, 'Special_Functions'); st.trace = []; tr = st.trace
    st.pc += [X0 > 0, A0 > 0]
    first = it.execute('@verif_sf', [op, X0, A0, 0.0, 0, 0], st)
    live = [p for p in first if p.end is None]
    if not live: return [ob(tag + '/reach', 'broken', detail='no returning path')]
    w = global_stores(it, live[0].st, tr)
    if not w:
        return [ob(tag + '/writes-no-library-state', 'discharged', key='C06/history/' + name, detail='%d paths (%d returning), %d memory accesses traced, no store to a global object' % (len(first), len(live), len(tr)))]
    _, fresh = sf(op, X, A, pre=[X > 0, A > 0], limits=lim())
    mv = {'x0': X0, 'a0': A0, 'x': X, 'a': A, 'op': op, 'globals': w}; n = 0
    for pi, p in enumerate(live):
        p.st.trace = None; p.st.pc += [X > 0, A > 0]
        it2 = Interp(G['m'], limits=lim()); it2.gaddr = it.gaddr
        second = it2.execute('@verif_sf', [op, X, A, 0.0, 0, 0], p.st)
        for qi, q in enumerate(second):
            if q.end is not None: continue
            for fi, f in enumerate(fresh):
                if f.end is not None: continue
                so = z3.Solver(); so.set('timeout', 3000); so.add(*(q.st.pc + f.st.pc))
                if so.check() == z3.unsat: continue
                n += 1
                if is_sym(q.ret) and is_sym(f.ret) and q.ret.eq(f.ret): res.append(ob('%s/second-call-equals-fresh-call[%d,%d,%d]' % (tag, pi, qi, fi), 'discharged', key='C06/history/' + name, detail='identical terms')); continue
                res.append(prove('%s/second-call-equals-fresh-call[%d,%d,%d]' % (tag, pi, qi, fi), q.st.pc + f.st.pc, toR(q.ret) == toR(f.ret), 40000, mv, key='C06/history/' + name, detail='the call writes %s' % w, tactic='nra-uf'))
    if n == 0: res.append(ob(tag + '/pairs', 'broken', detail='no feasible pair'))
    return res

EPS = RV(2.220446049250313e-16); FPMIN_R = RV(FPMIN); BIG_R = RV(1.0 / FPMIN)
def job_loop_step(kind):
    """inductive step over the series / continued-fraction loop: the loop-carried state at the loop header is replaced by an ARBITRARY state satisfying the index invariant, one real loop body is executed;
       leaving the loop happens only through the convergence test, the value returned is prefactor x (the state advanced by one textbook step), and the back edge carries exactly that advanced state.
       Together with the K = 1 path from the entry (initial state) this covers every number of iterations."""
    res = []; tag = kind + '/loop-step'; gln, gst = gln_term(); fresh = {}
    def handler(it, f, blk, regs, st):
        m = {}
        for I in f.blocks[blk]:
            if I.op != 'phi': continue
            base = I.dest.lstrip('%').split('.')[0]
            if str(I.ty).startswith('i') and 'double' not in str(I.ty): v = z3.Int('h_' + base); st.pc += [v >= 1, v <= 1000000]
            else: v = z3.Real('h_' + base)
            regs[I.dest] = v; m[base] = v; fresh[base] = (I.dest, v)
        st.events.append(('havoc', m))
    it = Interp(G['m'], limits=Limits(feas_ms=2000, max_paths=400, max_seconds=120))
    need = ('sum', 'ap', 'del') if kind == 'GammaPser' else ('i', 'h', 'd', 'c', 'b')
    fn = [n for n in G['m'].funcs if n.startswith('@_ZN10libphysica%d%sEdd' % (len(kind), kind))]
    if len(fn) != 1: return [ob(tag + '/function', 'broken', detail='%s: %s' % (kind, fn))]
    # the loop: the header (target of a back edge) whose loop-carried registers carry the recurrence state, wherever the compiler put the test
    heads = [b for b in loop_headers(G['m'].funcs[fn[0]]) if set(need) <= set(I.dest.lstrip('%').split('.')[0] for I in G['m'].funcs[fn[0]].blocks[b] if I.op == 'phi')]
    if len(heads) != 1: return [ob(tag + '/loop-state', 'undecided', key='C06/%s/loop-step' % kind, detail='no unique loop header carrying %s: %s' % (need, heads))]
    it.havoc[(fn[0], heads[0])] = handler
    st = it.new_state(); st, _ = it.run_global_ctors(st, 'Special_Functions'); st.pc += [X > 0, A > 0]
    ps = it.execute('@verif_sf', [20 if kind == 'GammaQcf' else 21, X, A, 0.0, 0, 0], st)
    if not all(k in fresh for k in need): return [ob(tag + '/loop-state', 'undecided', key='C06/%s/loop-step' % kind, detail='loop-carried registers found: %s (expected %s)' % (sorted(fresh), need))]
    h = {k: fresh[k][1] for k in fresh}
    if kind == 'GammaPser':
        inv = [h['ap'] >= A]; dn = h['del'] * X / (h['ap'] + 1); sn = h['sum'] + dn
        converged = Abs(dn) <= Abs(sn) * EPS; value = sn * pref(gln); nxt = {'sum': sn, 'ap': h['ap'] + 1, 'del': dn}; odiv = [h['ap'] + 1 != 0]
        converged0 = Abs(h['del']) <= Abs(h['sum']) * EPS; value0 = h['sum'] * pref(gln)      # a loop that tests before the body leaves with the state it arrived with
    else:
        iR = z3.ToReal(h['i']); inv = [h['b'] == X + 1 - A + 2 * (iR - 1)]; an = -iR * (iR - A); bn = h['b'] + 2
        dq = an * h['d'] + bn; cq = bn + an / h['c']
        dnew = z3.If(Abs(dq) < FPMIN_R, BIG_R, 1 / dq); cnew = z3.If(Abs(cq) < FPMIN_R, FPMIN_R, cq); dl = dnew * cnew; hn = h['h'] * dl
        converged = Abs(dl - 1) <= EPS; value = hn * pref(gln); nxt = {'i': h['i'] + 1, 'h': hn, 'd': dnew, 'c': cnew, 'b': bn}; odiv = [h['c'] != 0, dq != 0]
        converged0 = z3.BoolVal(False); value0 = h['h'] * pref(gln)      # the factor del of the arriving state is not loop-carried in the rotated form: only the advanced state can be certified
    mv = dict({'x': X, 'a': A, 'op': 20 if kind == 'GammaQcf' else 21, 'loop_step': kind}, **{'h_' + k: v for k, v in h.items()}); nexit = nback = 0
    for pi, p in enumerate(ps):
        hyp = p.st.pc + inv + odiv
        if p.end is None:
            nexit += 1
            ha = hyp + alg_assumptions(p.st) + alg_assumptions(gst)
            res.append(prove('%s/leaves-only-with-a-converged-state-and-returns-it[%d]' % (tag, pi), ha, z3.Or(z3.And(converged, toR(p.ret) == value), z3.And(converged0, toR(p.ret) == value0)), 60000, mv, key='C06/%s/loop-exit' % kind, tactic='nra-uf', sample=(nexit == 1)))
        elif p.end.kind == 'backedge':
            nback += 1; be = [e for e in p.st.events if e[0] == 'backedge'][-1][2]
            eqs = [toR(be[fresh[k][0]]) == toR(nxt[k]) for k in need]
            res.append(prove('%s/back-edge-carries-advanced-state[%d]' % (tag, pi), hyp + alg_assumptions(p.st), z3.And(*eqs), 60000, mv, key='C06/%s/loop-recurrence' % kind, tactic='nra-uf'))
            extra = [k for k in fresh if k not in need]
            if extra: res.append(ob('%s/no-further-loop-state[%d]' % (tag, pi), 'undecided', key='C06/%s/loop-state' % kind, detail='additional loop-carried registers %s are not part of the textbook recurrence' % extra))
        elif p.end.kind not in ('cutoff', 'exit'):
            res.append(prove('%s/no-%s[%d]' % (tag, p.end.kind, pi), hyp, z3.BoolVal(False), 20000, mv, key='C06/%s/%s' % (kind, p.end.kind), detail=str(p.end)))
    res.append(ob(tag + '/coverage', 'discharged' if nexit and nback else 'broken', key='C06/coverage', detail='%d leaving, %d back-edge paths from the arbitrary loop state' % (nexit, nback)))
    return res

def job_guards():
    res = []
    cases = [('GammaQ(x<0)', 16, [X < 0, A > 0], (X, A)), ('GammaQ(a<=0)', 16, [X >= 0, A <= 0], (X, A)), ('GammaP(a<=0)', 17, [X >= 0, A <= 0], (X, A)), ('GammaLn(x<=0)', 12, [X <= 0], (X,)), ('Gamma(x<=0)', 13, [X <= 0], (X,)), ('Inv_GammaP(a<=0)', 18, [A <= 0], (X, A))]
    for nm, op, pre, args in cases:
        _, ps = sf(op, *args, pre=pre, intercept=kernels(), limits=Limits(max_paths=50))
        ok = bool(ps) and all(p.end is not None and p.end.kind == 'exit' and any(e[0] == 'diag' for e in p.st.events) for p in ps)
        res.append(ob('guard/' + nm, 'discharged' if ok else 'candidate', key='C06/guard/' + nm.split('(')[0], model=None if ok else {'op': op, 'case': nm}, detail=str([str(p.end) for p in ps][:3])))
    for nm, op, i, j in (('Factorial(171)', 10, 171, 0), ('Factorial(1000)', 10, 1000, 0), ('Binomial(n,-1)', 11, 5, -1), ('Binomial(-1,k)', 11, -1, 0)):
        _, ps = sf(op, i=i, j=j)
        ok = bool(ps) and all(p.end is not None and p.end.kind == 'exit' and any(e[0] == 'diag' for e in p.st.events) for p in ps)
        res.append(ob('guard/' + nm, 'discharged' if ok else 'candidate', key='C06/guard/' + nm.split('(')[0], model=None if ok else {'op': op, 'i': i, 'j': j, 'case': nm}, detail=str([str(p.end) for p in ps][:3])))
    # meaningful requests on both sides of the table / log-gamma switch of Binomial_Coefficient (n = 170 | 171) and at the ends of k: every one returns
    for n in (0, 1, 2, 169, 170, 171, 172, 173, 400):
        for k in sorted(set([0, 1, n // 2, max(n - 1, 0), n])):
            _, ps = sf(11, i=n, j=k, limits=Limits(max_steps=20000000, max_seconds=60))
            ok = bool(ps) and all(p.end is None for p in ps)
            res.append(ob('guard/Binomial(%d,%d)-accepted' % (n, k), 'discharged' if ok else 'candidate', key='C06/guard/Binomial-accepted', model=None if ok else {'op': 11, 'i': n, 'j': k, 'case': 'Binomial(%d,%d)' % (n, k)}, detail=str([str(p.end) for p in ps][:3])))
    _, ps = sf(10, i=170)
    ok = len(ps) == 1 and ps[0].end is None
    res.append(ob('guard/Factorial(170)-accepted', 'discharged' if ok else 'candidate', key='C06/guard/Factorial-accepted', model=None if ok else {'op': 10, 'i': 170, 'j': 0, 'case': 'Factorial(170)'}, detail=str([str(p.end) for p in ps])))
    return res

def job_factorial(L):
    """memo table of length L (any valid state: T[0]=1, T[i]=i*T[i-1]); Factorial(n): value n!, table afterwards a valid prefix-extension; a second call sees the same values as a fresh table"""
    res = []; b = BOUNDS['quick']; fact = [1.0]
    for i in range(1, 40): fact.append(fact[-1] * i)
    for n in range(0, G.get('fact_n', 8) + 1):
        it = Interp(G['m']); st = it.new_state()
        it.execute('@verif_factorial_table_set', [st.put_doubles(fact[:L]), L], st)
        ps = it.execute('@verif_sf', [10, 0.0, 0.0, 0.0, n, 0], st)
        ok = len(ps) == 1 and ps[0].end is None and ps[0].ret == fact[n]
        out = st.alloc(8 * 40); cnt = it.execute('@verif_factorial_table', [out, 40], ps[0].st)[0] if ok else None
        okt = ok and cnt.ret == max(L, n + 1) and all(cnt.st.load(out + 8 * k, 8, True) == fact[k] for k in range(cnt.ret))
        res.append(ob('factorial/table%d/n%d' % (L, n), 'discharged' if (ok and okt) else 'candidate', key='C06/factorial/memo-table', model=None if (ok and okt) else {'L': L, 'n': n, 'op': 10}, detail='Factorial(%d) from a table of length %d: %s, table afterwards length %s' % (n, L, ps[0].ret if ps and ps[0].end is None else [str(p.end) for p in ps], cnt.ret if cnt else None)))
    return res

def jobs(ctx):
    module(ctx); b = BOUNDS[ctx.tier]; G['fact_n'] = b['factorial_n']
    J = [(job_qcf, (K,)) for K in b['K_cf']] + [(job_pser, (K,)) for K in b['K_series']] + [(job_dispatch, ()), (job_guards, ())] + [(job_history, (n,)) for n in HIST] + [(job_loop_step, (k,)) for k in ('GammaPser', 'GammaQcf')] + [(job_factorial, (L,)) for L in range(1, b['factorial_table'] + 1)]
    return J

def validate(ctx):
    module(ctx); bad = []; n = 0
    for op, a, b in ((12, 3.7, 0), (13, 5.0, 0), (16, 5.0, 2.0), (16, 1.0, 2.5), (17, 0.3, 0.7), (20, 6.0, 2.0), (21, 1.0, 2.5), (14, 2.0, 3.0), (10, 0, 0), (11, 0, 0)):
        kw = {'i': 12, 'j': 5} if op in (10, 11) else {}
        _, ps = sf(op, float(a), float(b), **kw); r = nsf(ctx, op, a, b, **kw); n += 1
        if len(ps) != 1 or ps[0].end is not None or r['status'] != 'ok' or not (ps[0].ret == r['ret'] or abs(ps[0].ret - r['ret']) <= 1e-13 * abs(r['ret'])): bad.append('op %d(%r,%r): interp %s native %s' % (op, a, b, ps[0].ret if ps and ps[0].end is None else [str(p.end) for p in ps], r.get('ret', r['status'])))
    if bad: return [ob('translator-validation', 'broken', detail='; '.join(bad[:3]))]
    return [ob('translator-validation', 'discharged', backend='TV', detail='%d concrete gamma-family calls (incl. the continued fraction and the series to convergence): interpreter == native' % n)]

def replay(ctx, o):
    m = o['model'] or {}; key = o['key']
    if key.startswith('C06/guard'):
        if 'i' in m: r = nsf(ctx, m['op'], i=m['i'], j=m['j'])
        else:
            x, a = {'GammaQ(x<0)': (-1.0, 2.0), 'GammaQ(a<=0)': (1.0, 0.0), 'GammaP(a<=0)': (1.0, -1.0), 'GammaLn(x<=0)': (0.0, 0), 'Gamma(x<=0)': (-2.0, 0), 'Inv_GammaP(a<=0)': (0.5, 0.0)}[m['case']]; r = nsf(ctx, m['op'], x, a)
        if key.endswith('accepted'): return r['status'] != 'ok', 'native %s: %s' % (m['case'], r['status'])
        return r['status'] != 'exit', 'native %s: %s' % (m['case'], r.get('ret', r['status']))
    if key.startswith('C06/history/'):
        x0, a0, x, a = q2f(m['x0']), q2f(m['a0']), q2f(m['x']), q2f(m['a'])
        r2 = nat.call(native(ctx), 'verif_sf_seq', [('i32', m['op']), x0, a0, x, a]); r1 = nsf(ctx, m['op'], x, a)
        return (r1['status'] == 'ok' and r2['status'] == 'ok' and r1['ret'] != r2['ret']), 'native op %d at (%r,%r): %r fresh, %r after a call at (%r,%r)' % (m['op'], x, a, r1.get('ret', r1['status']), r2.get('ret', r2['status']), x0, a0)
    if '/loop-' in key:
        # the loop state of the model is arbitrary (inductive step), not an input; the native confirmation is the kernel against scipy's regularised incomplete gamma functions where many iterations are needed
        from scipy.special import gammainc, gammaincc
        kind = m.get('loop_step', 'GammaPser'); worst = (0.0, None)
        for a in (0.5, 1.0, 2.0, 5.0, 10.0, 20.0, 40.0, 60.0, 80.0, 100.0):
            for fx in ((0.2, 0.5, 0.8, 1.0, 1.0 + 0.9 / a) if kind == 'GammaPser' else (1.0 + 1.1 / a, 1.05 + 1.0 / a, 1.2 + 1.0 / a, 1.5 + 1.0 / a, 2.0 + 1.0 / a, 5.0)):
                x = fx * a; r = nsf(ctx, 21 if kind == 'GammaPser' else 20, x, a)
                if r['status'] != 'ok': return True, 'native %s(%r,%r): %s' % (kind, x, a, r['status'])
                ref = float(gammainc(a, x) if kind == 'GammaPser' else gammaincc(a, x)); e = abs(r['ret'] - ref)
                if e > worst[0]: worst = (e, (x, a, r['ret'], ref))
        return worst[0] > 1e-9, 'native %s against scipy over a grid with a <= 100: worst deviation %.3g at (x, a, value, reference) = %s' % (kind, worst[0], worst[1])
    if key == 'C06/factorial/memo-table':
        r = nsf(ctx, 10, i=m['n']); return r.get('ret') != float(math.factorial(m['n'])), 'native Factorial(%d) = %s' % (m['n'], r.get('ret'))
    if 'x' not in m: return False, 'no model'
    x, a = q2f(m['x']), q2f(m['a'])
    if key in ('C06/GammaQcf/convergent', 'C06/GammaPser/partial-sum'):
        # the K-iteration identity is about the formula; its observable consequence: the converged value against the other kernel / a high-precision reference where both are valid (x > a+1 for the fraction)
        import mpmath
        worst = 0.0; where = ''
        for (xx, aa) in ((5.0, 2.0), (3.0, 0.5), (12.0, 7.5), (2.5, 1.2), (40.0, 30.0)):
            if key == 'C06/GammaQcf/convergent': got = nsf(ctx, 20, xx, aa)['ret']; ref = float(mpmath.gammainc(aa, xx, mpmath.inf, regularized=True))
            else:
                xx = min(xx, aa + 0.9); got = nsf(ctx, 21, xx, aa)['ret']; ref = float(mpmath.gammainc(aa, 0, xx, regularized=True))
            e = abs(got - ref) / abs(ref)
            if e > worst: worst = e; where = '(x=%r,a=%r): %r vs %r' % (xx, aa, got, ref)
        return worst > 1e-9, 'native kernel against the regularised incomplete gamma function: worst relative error %.3g at %s' % (worst, where)
    r = nsf(ctx, m['op'], x, a)
    if key == 'C06/GammaQ/guard': return (r['status'] == 'exit') != (x < 0 or a <= 0), 'native GammaQ(%r,%r): %s' % (x, a, r['status'])
    if key == 'C06/P-plus-Q':
        p = nsf(ctx, 17, x, a); q = nsf(ctx, 16, x, a); return abs(p['ret'] + q['ret'] - 1) > 1e-12, 'native P+Q = %r' % (p['ret'] + q['ret'])
    if key == 'C06/upper-plus-lower':
        u = nsf(ctx, 14, x, a); l = nsf(ctx, 15, x, a); g = nsf(ctx, 13, a); return abs(u['ret'] + l['ret'] - g['ret']) > 1e-9 * abs(g['ret']), 'native Upper+Lower=%r Gamma=%r' % (u['ret'] + l['ret'], g['ret'])
    if key == 'C06/GammaQ/dispatch':
        import mpmath
        ref = float(mpmath.gammainc(a, x, mpmath.inf, regularized=True)) if x > 0 else 1.0
        # the property's own accuracy figures decide whether a different branch matters: 1e-12 for a <= 100 (1e-10 here, leaving room for the reference), 1e-3 beyond
        tol = 1e-10 if a <= 100.0 else 1e-3
        return abs(r.get('ret', 9) - ref) > tol, 'native GammaQ(%r,%r)=%s reference %r (allowed deviation %g)' % (x, a, r.get('ret', r['status']), ref, tol)
    return False, 'no replay rule for ' + key
