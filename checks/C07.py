"""C07 - Distributions: density, CDF, likelihoods are mutually coherent (DESIGN.md section 2/C07)"""
from sf_common import *
from interp_common import ddx as ddx_poly

EXPLANATION = ('C07: real PDF/CDF functions of the closed-form families on symbolic arguments (exp, erf, log uninterpreted with the axioms named per obligation): uniform (pure rational): pdf >= 0, CDF 0 below / 1 above / non-decreasing, CDF difference = integral of the pdf; '
               'exponential: pdf >= 0, d/dx CDF = pdf (chain rule for the uninterpreted exp), CDF in [0,1); normal and Maxwell-Boltzmann: the returned terms equal the textbook templates with numeric constants within 4 ulp of sqrt(2), 1/sqrt(2 pi), sqrt(2/pi); '
               'binomial (trials <= bound): CDF = sum of PMF, sum over all outcomes = 1, PMF >= 0 on p in [0,1]; Poisson likelihoods: Likelihood = exp(LogLikelihood), = PMF_Poisson(s+b, n), binned = sum over bins; chi-bar-square = weighted sum; parameter guards; the series / continued-fraction loops behind CDF_Poisson and CDF_Chi_Square leave only with a converged state (inductive loop step borrowed from C06).')
BOUNDS = {'quick': {'trials': 4, 'counts': 4, 'bins': 2}, 'thorough': {'trials': 6, 'counts': 6, 'bins': 3}}
NOT_DECIDED = ['Poisson / chi-square / chi-bar-square CDF-PMF coherence (runs through the numerics of the incomplete gamma function)', 'Quantile_Gauss and Inv_CDF_Poisson accuracy', 'kernel density estimate (kernel sums + numeric renormalisation)', 'monotonicity of the normal and Maxwell-Boltzmann CDFs beyond the derivative identity (needs erf monotone: analysis)']
ASSUMPTIONS = ['doubles exact reals', 'exp, erf, log uninterpreted; axioms used: exp > 0, log(1) = 0, exp(a)exp(b) = exp(a+b) only where named']

X, X2, LO, HI, MU, SG = [z3.Real(n) for n in ('x', 'x2', 'lo', 'hi', 'mu', 'sigma')]
EXP, ERF, LOG = uf('exp'), uf('erf'), uf('log')
def expax(states): return [EXP(e[2]) > 0 for s_ in states for e in s_.events if e[0] == 'math' and e[1] == 'exp']

def dd(t, x):
    """formal derivative with the chain rule for exp"""
    if t.decl().name() == 'exp' and t.num_args() == 1: return t * dd(t.arg(0), x)
    if t.eq(x): return z3.RealVal(1)
    if z3.is_rational_value(t) or z3.is_const(t): return z3.RealVal(0)
    k = t.decl().kind(); ch = t.children()
    if k == z3.Z3_OP_ADD: return sum((dd(c, x) for c in ch), z3.RealVal(0))
    if k == z3.Z3_OP_SUB:
        r = dd(ch[0], x)
        for c in ch[1:]: r = r - dd(c, x)
        return r
    if k == z3.Z3_OP_UMINUS: return -dd(ch[0], x)
    if k == z3.Z3_OP_MUL:
        r = z3.RealVal(0)
        for i in range(len(ch)):
            term = dd(ch[i], x)
            for j in range(len(ch)):
                if j != i: term = term * ch[j]
            r = r + term
        return r
    if k == z3.Z3_OP_DIV: return (dd(ch[0], x) * ch[1] - ch[0] * dd(ch[1], x)) / (ch[1] * ch[1])
    raise Unsupported('cannot differentiate ' + t.decl().name())

def job_uniform():
    res = []; pre = [LO < HI]; mv = {'x': X, 'x2': X2, 'lo': LO, 'hi': HI}
    _, P = sf(40, X, LO, HI, pre=pre); _, C = sf(41, X, LO, HI, pre=pre); _, C2 = sf(41, X2, LO, HI, pre=pre)
    for pi, p in enumerate(P):
        if p.end is not None: res.append(prove('uniform/pdf/returns[%d]' % pi, p.st.pc, z3.BoolVal(False), 10000, dict(mv, op=40), key='C07/uniform/returns', detail=str(p.end))); continue
        res.append(prove('uniform/pdf-nonnegative[%d]' % pi, p.st.pc, toR(p.ret) >= 0, 10000, dict(mv, op=40), key='C07/uniform/pdf-nonnegative'))
        res.append(prove('uniform/pdf-value[%d]' % pi, p.st.pc, toR(p.ret) == z3.If(z3.Or(X < LO, X > HI), 0, 1 / (HI - LO)), 10000, dict(mv, op=40), key='C07/uniform/pdf-value'))
    for ci, c in enumerate(C):
        if c.end is not None: res.append(prove('uniform/cdf/returns[%d]' % ci, c.st.pc, z3.BoolVal(False), 10000, dict(mv, op=41), key='C07/uniform/returns', detail=str(c.end))); continue
        v = toR(c.ret)
        res.append(prove('uniform/cdf-range[%d]' % ci, c.st.pc, z3.And(v >= 0, v <= 1, z3.Implies(X <= LO, v == 0), z3.Implies(X >= HI, v == 1)), 10000, dict(mv, op=41), key='C07/uniform/cdf-range', sample=(ci == 0)))
        for di, d in enumerate(C2):
            if d.end is not None: continue
            so = z3.Solver(); so.add(*(c.st.pc + d.st.pc + [X <= X2]))
            if so.check() == z3.unsat: continue
            w = toR(d.ret)
            res.append(prove('uniform/cdf-monotone[%d,%d]' % (ci, di), c.st.pc + d.st.pc + [X <= X2], v <= w, 10000, dict(mv, op=41), key='C07/uniform/cdf-monotone'))
            # CDF difference = integral of the density over [x, x2] = length of [x,x2] intersected with [lo,hi] / (hi-lo)
            a_ = z3.If(X > LO, X, LO); b_ = z3.If(X2 < HI, X2, HI); ov = z3.If(b_ > a_, b_ - a_, 0)
            res.append(prove('uniform/cdf-difference-is-integral[%d,%d]' % (ci, di), c.st.pc + d.st.pc + [X <= X2], w - v == ov / (HI - LO), 20000, dict(mv, op=41), key='C07/uniform/cdf-integral'))
    return res

def job_exponential():
    res = []; M = z3.Real('mean'); pre = [M > 0]; mv = {'x': X, 'mean': M}
    _, P = sf(52, X, M, pre=pre); _, C = sf(53, X, M, pre=pre)
    for pi, p in enumerate(P):
        if p.end is not None: res.append(prove('exponential/pdf/returns[%d]' % pi, p.st.pc, z3.BoolVal(False), 10000, dict(mv, op=52), key='C07/exponential/returns', detail=str(p.end))); continue
        res.append(prove('exponential/pdf-nonnegative[%d]' % pi, p.st.pc + expax([p.st]), toR(p.ret) >= 0, 10000, dict(mv, op=52), key='C07/exponential/pdf-nonnegative'))
        for ci, c in enumerate(C):
            if c.end is not None: continue
            so = z3.Solver(); so.add(*(p.st.pc + c.st.pc))
            if so.check() == z3.unsat: continue
            if is_sym(c.ret) and is_sym(p.ret):
                res.append(prove('exponential/dCDF-is-pdf[%d,%d]' % (pi, ci), p.st.pc + c.st.pc + alg_assumptions(p.st), dd(toR(c.ret), X) == toR(p.ret), 20000, dict(mv, op=53), key='C07/exponential/derivative', sample=True))
                ax = expax([c.st]) + [z3.Implies(X >= 0, EXP(e[2]) <= 1) for e in c.st.events if e[0] == 'math' and e[1] == 'exp']   # exp(t) <= 1 for t <= 0: the argument is -x/mean
                res.append(prove('exponential/cdf-range[%d,%d]' % (pi, ci), c.st.pc + ax, z3.And(toR(c.ret) >= 0, toR(c.ret) < 1), 10000, dict(mv, op=53), key='C07/exponential/cdf-range'))
                res.append(prove('exponential/exp-argument-nonpositive[%d,%d]' % (pi, ci), c.st.pc, z3.And(*[e[2] <= 0 for e in c.st.events if e[0] == 'math' and e[1] == 'exp']), 10000, dict(mv, op=53), key='C07/exponential/cdf-range'))
            else:
                res.append(ob('exponential/below-support[%d,%d]' % (pi, ci), 'discharged' if (c.ret == 0.0 and p.ret == 0.0) else 'candidate', key='C07/exponential/support', model=None if (c.ret == 0.0 and p.ret == 0.0) else dict(mv, op=53), detail='x < 0: pdf %s cdf %s' % (p.ret, c.ret)))
    for op, nm in ((52, 'PDF_Exponential'), (53, 'CDF_Exponential'), (54, 'PDF_Maxwell_Boltzmann'), (55, 'CDF_Maxwell_Boltzmann')):
        _, ps = sf(op, X, M, pre=[M <= 0])
        ok = bool(ps) and all(p.end is not None and p.end.kind == 'exit' and any(e[0] == 'diag' for e in p.st.events) for p in ps)
        res.append(ob('guard/%s(parameter<=0)' % nm, 'discharged' if ok else 'candidate', key='C07/guard/' + nm, model=None if ok else {'op': op, 'x': [1, 1], 'mean': [0, 1]}, detail=str([str(p.end) for p in ps][:2])))
    return res

def numerals(t):
    from fractions import Fraction
    out = set(); seen = set()
    def go(u):
        if u.get_id() in seen: return
        seen.add(u.get_id())
        if z3.is_rational_value(u):
            f = Fraction(u.numerator_as_long(), u.denominator_as_long())
            if f not in (0, 1, -1): out.add(abs(f))
        for c in u.children(): go(c)
    go(t); return out

def fit_constant(term, template, K, hyp, name, target, mv, key):
    """term == template(K) for all arguments, for a numeric K taken from the numerals occurring in the term (or a reciprocal / small product of them); and K within 4 ulp of the mathematical constant"""
    from fractions import Fraction
    nums = sorted(numerals(term)); cands = []
    for c in nums: cands += [c, 1 / c]
    for c in nums:
        for d in nums: cands += [c * d, c / d]
    cands = sorted(set(cands), key=lambda c: abs(float(c) - target))[:6]
    for c in cands:
        r = prove(name + '/template', hyp, term == z3.substitute(template, (K, z3.RealVal(str(c)))), 20000, mv, key=key)
        if r['status'] == 'discharged':
            kf = float(c); ok = abs(kf - target) <= 4 * abs(target) * 2.3e-16
            return [r, ob(name + '/constant', 'discharged' if ok else 'candidate', key=key + '/constant', model=None if ok else mv, detail='numeric constant %r, mathematical value %r' % (kf, target))]
    return [ob(name + '/template', 'candidate', key=key, model=mv, detail='the returned term is not the textbook template for any constant occurring in it (tried %s)' % [float(c) for c in cands])]

def job_normal_mb():
    res = []; K = z3.Real('K'); pre = [SG > 0]; mv = {'x': X, 'mu': MU, 'sigma': SG}
    _, P = sf(42, X, MU, SG, pre=pre); _, C = sf(43, X, MU, SG, pre=pre)
    if len(P) == 1 and P[0].end is None and len(C) == 1 and C[0].end is None:
        u = (X - MU) / SG
        res += fit_constant(toR(P[0].ret), K / SG * EXP(-(u * u) / 2), K, pre + alg_assumptions(P[0].st), 'normal/pdf', 1 / math.sqrt(2 * math.pi), dict(mv, op=42), 'C07/normal/pdf')
        res += fit_constant(toR(C[0].ret), (1 + ERF((X - MU) / (K * SG))) / 2, K, pre + alg_assumptions(C[0].st) + [K > 0], 'normal/cdf', math.sqrt(2), dict(mv, op=43), 'C07/normal/cdf')
        res.append(prove('normal/pdf-nonnegative', pre + expax([P[0].st]), toR(P[0].ret) >= 0, 10000, dict(mv, op=42), key='C07/normal/pdf-nonnegative'))
        res.append(prove('normal/cdf-range', pre + [ERF(e[2]) >= -1 for e in C[0].st.events if e[0] == 'math' and e[1] == 'erf'] + [ERF(e[2]) <= 1 for e in C[0].st.events if e[0] == 'math' and e[1] == 'erf'], z3.And(toR(C[0].ret) >= 0, toR(C[0].ret) <= 1), 10000, dict(mv, op=43), key='C07/normal/cdf-range'))
    else: res.append(ob('normal/paths', 'undecided', detail='%s %s' % ([str(p.end) for p in P], [str(p.end) for p in C])))
    Aa = z3.Real('a'); mv2 = {'x': X, 'mean': Aa}
    _, P = sf(54, X, Aa, pre=[Aa > 0, X >= 0]); _, C = sf(55, X, Aa, pre=[Aa > 0, X >= 0])
    if len(P) == 1 and P[0].end is None and len(C) == 1 and C[0].end is None:
        res += fit_constant(toR(P[0].ret), K * X * X / (Aa * Aa * Aa) * EXP(-(X * X) / 2 / (Aa * Aa)), K, [Aa > 0, X >= 0], 'maxwell-boltzmann/pdf', math.sqrt(2 / math.pi), dict(mv2, op=54), 'C07/maxwell-boltzmann/pdf')
        K2 = z3.Real('K2'); tmpl = ERF(X / K2 / Aa) - K * X / Aa * EXP(-(X * X) / 2 / (Aa * Aa))
        t1 = z3.substitute(tmpl, (K2, z3.RealVal(str(__import__('fractions').Fraction(math.sqrt(2))))))
        res += fit_constant(toR(C[0].ret), t1, K, [Aa > 0, X >= 0], 'maxwell-boltzmann/cdf', math.sqrt(2 / math.pi), dict(mv2, op=55), 'C07/maxwell-boltzmann/cdf')
        res.append(prove('maxwell-boltzmann/pdf-nonnegative', [Aa > 0, X >= 0] + expax([P[0].st]), toR(P[0].ret) >= 0, 10000, dict(mv2, op=54), key='C07/maxwell-boltzmann/pdf-nonnegative'))
    _, P = sf(54, X, Aa, pre=[Aa > 0, X < 0]); _, C = sf(55, X, Aa, pre=[Aa > 0, X < 0])
    ok = all(p.end is None and p.ret == 0.0 for p in P + C)
    res.append(ob('maxwell-boltzmann/below-support', 'discharged' if ok else 'candidate', key='C07/maxwell-boltzmann/support', model=None if ok else dict(mv2, op=55), detail='pdf and cdf vanish for x < 0'))
    return res

def job_binomial(n):
    res = []; Pp = z3.Real('p'); pre = [Pp >= 0, Pp <= 1]; pm = []
    for k in range(n + 1):
        _, ps = sf(45, Pp, i=n, j=k, pre=pre)
        if len(ps) != 1 or ps[0].end is not None: return [ob('binomial/n%d/pmf-paths' % n, 'undecided', detail=str([str(p.end) for p in ps]))]
        pm.append(toR(ps[0].ret)); mv = {'p': Pp, 'n': n, 'k': k}
        want = math.comb(n, k) * (Pp ** k if k else 1) * ((1 - Pp) ** (n - k) if n - k else 1)
        res.append(prove('binomial/n%d/pmf-definition[k%d]' % (n, k), pre, pm[k] == want, 20000, dict(mv, op=45), key='C07/binomial/pmf-definition'))
        res.append(prove('binomial/n%d/pmf-nonnegative[k%d]' % (n, k), pre, pm[k] >= 0, 20000, dict(mv, op=45), key='C07/binomial/pmf-nonnegative', tactic='nra'))
        _, cs = sf(46, Pp, i=n, j=k, pre=pre)
        if len(cs) == 1 and cs[0].end is None:
            res.append(prove('binomial/n%d/cdf-is-sum-of-pmf[k%d]' % (n, k), pre, toR(cs[0].ret) == sum(pm[:k + 1]), 20000, dict(mv, op=46), key='C07/binomial/cdf-sum', sample=(n == 3 and k == 2)))
    res.append(prove('binomial/n%d/total-mass-one' % n, pre, sum(pm) == 1, 20000, {'p': Pp, 'n': n, 'k': n, 'op': 46}, key='C07/binomial/total-mass'))
    for op, nm in ((45, 'PMF_Binomial'), (46, 'CDF_Binomial')):
        for badpre, tag in (([Pp < 0], 'p<0'), ([Pp > 1], 'p>1')):
            _, ps = sf(op, Pp, i=n, j=0, pre=badpre)
            ok = bool(ps) and all(p.end is not None and p.end.kind == 'exit' for p in ps)
            res.append(ob('guard/%s(%s)/n%d' % (nm, tag, n), 'discharged' if ok else 'candidate', key='C07/guard/' + nm, model=None if ok else {'op': op, 'p': [-1, 2] if tag == 'p<0' else [3, 2], 'n': n, 'k': 0}, detail=str([str(p.end) for p in ps][:2])))
    return res

def job_poisson_likelihood(nmax, bins):
    res = []; S, Bk = z3.Real('s'), z3.Real('b'); pre = [S > 0, Bk >= 0]; log1 = [LOG(z3.RealVal(1)) == 0]
    for n in range(nmax + 1):
        mv = {'s': S, 'b': Bk, 'n': n}
        _, ll = sf(56, S, Bk, i=n, pre=pre); _, l = sf(57, S, Bk, i=n, pre=pre); _, pmf = sf(47, S + Bk, i=n, pre=pre)
        if not all(len(t) == 1 and t[0].end is None for t in (ll, l, pmf)): res.append(ob('poisson/n%d/paths' % n, 'undecided', detail='paths')); continue
        LL, Lk, PM = toR(ll[0].ret), toR(l[0].ret), toR(pmf[0].ret)
        acc = 0.0
        for j in range(1, n + 1): acc += math.log(j)        # the code accumulates log(j) of concrete j in double arithmetic
        want = n * LOG(S + Bk) - RV(acc) - (S + Bk)
        res.append(prove('poisson/n%d/log-likelihood-definition' % n, pre, LL == want, 10000, dict(mv, op=56), key='C07/poisson/log-likelihood'))
        res.append(prove('poisson/n%d/likelihood-is-exp-of-log' % n, pre, Lk == EXP(LL), 10000, dict(mv, op=57), key='C07/poisson/likelihood-exp'))
        # Likelihood = PMF_Poisson(s+b, n): both are exp of an exponent; the exponents agree up to the rounding of the accumulated log-factorial (<= n ulp of it)
        if Lk.decl().name() == 'exp' and PM.decl().name() == 'exp':
            d = Lk.arg(0) - PM.arg(0); tol = RV((n + 1) * 2.3e-16 * max(acc, 1.0))
            res.append(prove('poisson/n%d/likelihood-is-pmf-at-s+b' % n, pre, z3.And(d <= tol, -d <= tol), 10000, dict(mv, op=57), key='C07/poisson/likelihood-pmf', sample=(n == 2)))
        elif n == 0: res.append(prove('poisson/n0/likelihood-is-pmf-at-s+b', pre, Lk == PM, 10000, dict(mv, op=57), key='C07/poisson/likelihood-pmf'))
        else: res.append(ob('poisson/n%d/likelihood-is-pmf-at-s+b' % n, 'undecided', detail='results are not exp(...) terms'))
    # binned: sum over bins / exp of the sum; missing background = zeros; size mismatch rejected
    for nb in range(1, bins + 1):
        pred = [z3.Real('s%d' % k) for k in range(nb)]; bk = [z3.Real('b%d' % k) for k in range(nb)]; obs = [k + 1 for k in range(nb)]
        def call(logf, bkg, nobs=None):
            no = obs if nobs is None else nobs
            return run('@verif_likelihood_binned', [logf, nb, lambda st: st.put_doubles(pred), lambda st: st.put_ints(no, 8) if no else st.alloc(8), len(bkg), lambda st: st.put_doubles(bkg) if bkg else st.alloc(8)], pre=[p > 0 for p in pred] + [b >= 0 for b in bk])[1]
        def single(s_, n_, b_):
            acc = 0.0
            for j in range(1, n_ + 1): acc += math.log(j)
            return n_ * LOG(s_ + b_) - RV(acc) - (s_ + b_)
        for bkg, tagb in ((bk, 'with-background'), ([], 'default-background')):
            ps = call(1, bkg); tot = sum((single(pred[k], obs[k], bkg[k] if bkg else z3.RealVal(0)) for k in range(nb)), z3.RealVal(0))
            for pi, p in enumerate(ps):
                if p.end is not None: res.append(prove('poisson/binned%d/%s/returns[%d]' % (nb, tagb, pi), p.st.pc, z3.BoolVal(False), 10000, {'nb': nb}, key='C07/poisson/binned', detail=str(p.end))); continue
                res.append(prove('poisson/binned%d/%s/log-is-sum[%d]' % (nb, tagb, pi), p.st.pc, toR(p.ret) == tot, 20000, {'nb': nb}, key='C07/poisson/binned'))
            ps2 = call(0, bkg)
            for pi, p in enumerate(ps2):
                if p.end is None: res.append(prove('poisson/binned%d/%s/likelihood-is-exp[%d]' % (nb, tagb, pi), p.st.pc, toR(p.ret) == EXP(tot), 20000, {'nb': nb}, key='C07/poisson/binned'))
        if nb > 1:
            ps = call(1, bk[:-1])
            ok = bool(ps) and all(p.end is not None and p.end.kind == 'exit' for p in ps)
            res.append(ob('poisson/binned%d/size-mismatch-rejected' % nb, 'discharged' if ok else 'candidate', key='C07/poisson/binned-mismatch', model=None if ok else {'nb': nb}, detail=str([str(p.end) for p in ps][:2])))
    return res

def job_gamma_kernel(kind):
    """the Poisson and chi-square CDFs are the incomplete gamma kernels: their loop-step obligations (C06, same code, same keys) are re-run under this property"""
    import C06
    return C06.job_loop_step(kind)

def jobs(ctx):
    module(ctx); b = BOUNDS[ctx.tier]
    return [(job_uniform, ()), (job_exponential, ()), (job_normal_mb, ())] + [(job_binomial, (n,)) for n in range(0, b['trials'] + 1)] + [(job_poisson_likelihood, (b['counts'], b['bins']))] + [(job_gamma_kernel, (k,)) for k in ('GammaPser', 'GammaQcf')]

def validate(ctx):
    module(ctx); bad = []; n = 0
    for op, a, b, c, i, j in ((40, 0.3, 0, 2, 0, 0), (41, 1.3, 0, 2, 0, 0), (42, 0.7, 0.2, 1.5, 0, 0), (43, 0.7, 0.2, 1.5, 0, 0), (45, 0.3, 0, 0, 7, 3), (46, 0.3, 0, 0, 7, 3), (47, 2.5, 0, 0, 4, 0), (52, 1.1, 2.0, 0, 0, 0), (53, 1.1, 2.0, 0, 0, 0), (54, 0.9, 1.3, 0, 0, 0), (55, 0.9, 1.3, 0, 0, 0), (56, 3.2, 0.4, 0, 5, 0), (57, 3.2, 0.4, 0, 5, 0)):
        _, ps = sf(op, float(a), float(b), float(c), i=i, j=j); r = nsf(ctx, op, a, b, c, i, j); n += 1
        if len(ps) != 1 or ps[0].end is not None or r['status'] != 'ok' or not (ps[0].ret == r['ret'] or abs(ps[0].ret - r['ret']) <= 1e-13 * abs(r['ret'])): bad.append('op %d: interp %s native %s' % (op, ps[0].ret if ps and ps[0].end is None else [str(p.end) for p in ps], r.get('ret', r['status'])))
    if bad: return [ob('translator-validation', 'broken', detail='; '.join(bad[:3]))]
    return [ob('translator-validation', 'discharged', backend='TV', detail='%d concrete distribution calls: interpreter == native' % n)]

def fl(q): return q2f(q) if isinstance(q, list) else float(q)
def replay(ctx, o):
    m = o['model'] or {}; key = o['key']; op = m.get('op')
    if key.startswith('C06/'):
        import C06
        return C06.replay(ctx, o)
    if key.startswith('C07/guard'):
        r = nsf(ctx, op, fl(m.get('p', m.get('x', [1, 1]))), fl(m.get('mean', [0, 1])) if 'mean' in m else 0.0, 0.0, m.get('n', 0), m.get('k', 0)); return r['status'] != 'exit', 'native: %s' % r.get('ret', r['status'])
    if key.startswith('C07/uniform'):
        x, lo, hi = fl(m['x']), fl(m['lo']), fl(m['hi']); x2 = fl(m.get('x2', m['x']))
        if lo >= hi: return False, 'degenerate'
        pdf = nsf(ctx, 40, x, lo, hi)['ret']; c1 = nsf(ctx, 41, x, lo, hi)['ret']; c2 = nsf(ctx, 41, max(x, x2), lo, hi)['ret']
        wp = 0.0 if (x < lo or x > hi) else 1 / (hi - lo); wc = min(1.0, max(0.0, (x - lo) / (hi - lo))); wc2 = min(1.0, max(0.0, (max(x, x2) - lo) / (hi - lo)))
        bad = abs(pdf - wp) > 1e-12 * max(1, wp) or abs(c1 - wc) > 1e-12 or abs(c2 - wc2) > 1e-12 or c2 < c1
        return bad, 'native uniform(%r,%r): pdf(%r)=%r cdf=%r cdf(%r)=%r' % (lo, hi, x, pdf, c1, max(x, x2), c2)
    if key.startswith('C07/exponential'):
        x, mean = fl(m['x']), abs(fl(m['mean'])) or 1.0; h = 1e-6 * mean
        if key == 'C07/exponential/derivative' and x <= h: x = 0.7 * mean      # the derivative is compared away from the kink at 0 (the solver's model may sit on it)
        pdf = nsf(ctx, 52, x, mean)['ret']; d = (nsf(ctx, 53, x + h, mean)['ret'] - nsf(ctx, 53, x - h, mean)['ret']) / (2 * h); c = nsf(ctx, 53, x, mean)['ret']
        bad = (x > h and abs(d - pdf) > 1e-5 * max(pdf, 1e-300)) or pdf < 0 or not (0 <= c <= 1) or (x < 0 and (pdf != 0 or c != 0))
        return bad, 'native exponential(mean %r) at %r: pdf %r, central difference of the CDF %r, CDF %r' % (mean, x, pdf, d, c)
    if key.startswith('C07/normal') or key.startswith('C07/maxwell'):
        worst = 0.0
        for x in (-1.3, 0.2, 0.9, 2.5):
            mu, sg = 0.4, 1.7
            worst = max(worst, abs(nsf(ctx, 42, x, mu, sg)['ret'] - math.exp(-((x - mu) / sg) ** 2 / 2) / math.sqrt(2 * math.pi) / sg), abs(nsf(ctx, 43, x, mu, sg)['ret'] - 0.5 * (1 + math.erf((x - mu) / math.sqrt(2) / sg))))
            if x > 0:
                a = 1.3; worst = max(worst, abs(nsf(ctx, 54, x, a)['ret'] - math.sqrt(2 / math.pi) * x * x / a ** 3 * math.exp(-x * x / 2 / a / a)), abs(nsf(ctx, 55, x, a)['ret'] - (math.erf(x / math.sqrt(2) / a) - math.sqrt(2 / math.pi) * x / a * math.exp(-x * x / 2 / a / a))))
        return worst > 1e-12, 'native normal / Maxwell-Boltzmann against the textbook formulas: worst absolute deviation %.3g' % worst
    if key.startswith('C07/binomial'):
        p, n = fl(m['p']), m['n']
        if not 0 <= p <= 1: return False, 'p outside [0,1]'
        pm = [nsf(ctx, 45, p, i=n, j=k)['ret'] for k in range(n + 1)]; cd = [nsf(ctx, 46, p, i=n, j=k)['ret'] for k in range(n + 1)]
        bad = abs(sum(pm) - 1) > 1e-12 or any(abs(cd[k] - sum(pm[:k + 1])) > 1e-12 for k in range(n + 1)) or any(x < 0 for x in pm) or any(abs(pm[k] - math.comb(n, k) * p ** k * (1 - p) ** (n - k)) > 1e-12 for k in range(n + 1))
        return bad, 'native binomial(n=%d,p=%r): pmf %s cdf %s' % (n, p, pm, cd)
    if key.startswith('C07/poisson'):
        if 's' not in m: return False, 'no scalar model'
        s_, b_, n = abs(fl(m['s'])) or 1.0, abs(fl(m['b'])), m['n']
        ll = nsf(ctx, 56, s_, b_, i=n)['ret']; l = nsf(ctx, 57, s_, b_, i=n)['ret']; pm = nsf(ctx, 47, s_ + b_, i=n)['ret']
        want = n * math.log(s_ + b_) - math.lgamma(n + 1) - (s_ + b_)
        bad = abs(ll - want) > 1e-9 * max(1, abs(want)) or abs(l - math.exp(ll)) > 1e-12 * l or abs(l - pm) > 1e-12 * max(l, 1e-300)
        return bad, 'native Poisson(s=%r,b=%r,n=%d): logL %r (expected %r), L %r, PMF(s+b) %r' % (s_, b_, n, ll, want, l, pm)
    return False, 'no replay rule for ' + key
