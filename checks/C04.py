"""C04 - Vector and matrix algebra obeys the algebraic laws for every conformable shape (DESIGN.md section 2/C04)"""
from la_common import *

EXPLANATION = ('C04: every public Vector/Matrix operation of Linear_Algebra.cpp is run through its real member function / operator for every shape tuple in the bound with symbolic entries; '
               'definedness (returns iff shapes conform, otherwise exit after a diagnostic and before any out-of-bounds access), entries equal to their definitions, '
               'spellings agree, transpose/product/identity laws, predicates, Sub_Matrix/rows/columns/block constructor.')
BOUNDS = {'quick': {'max_dim': 3}, 'thorough': {'max_dim': 4}}
NOT_DECIDED = ['shapes beyond the bound', 'rounding (entries are exact reals; bit-identity is claimed only where result terms are structurally identical up to commutativity)']
ASSUMPTIONS = ['doubles are exact reals', 'shapes enumerated exhaustively up to max_dim, entries symbolic', 'operator new never fails; stream inserters are no-ops']

def canon(t):
    """normal form modulo commutativity of binary + and * only (both are commutative in IEEE-754) -- not associativity"""
    if not is_sym(t): return ('c', t)
    k = t.decl().kind(); ch = [canon(c) for c in t.children()]
    if k in (z3.Z3_OP_ADD, z3.Z3_OP_MUL) and len(ch) == 2: ch = sorted(ch, key=repr)
    return (t.decl().name() if ch else str(t), tuple(ch))

def bit_same(a, b): return same(a, b) or canon(a) == canon(b)

def expect_exit(tag, res, mv, key):
    """request without meaning: every path must end in exit after a diagnostic, nothing returns, nothing is read or written out of bounds"""
    out = []
    for pi, r in enumerate(res):
        if r.end is not None and r.end.kind == 'exit' and any(e[0] == 'diag' for e in r.events): continue
        what = 'returned normally' if r.end is None else str(r.end)
        out.append(prove('%s[%d]' % (tag, pi), r.pc, z3.BoolVal(False), 10000, mv, key=key, detail='non-conformable operands: ' + what))
    if not out: out.append(ob(tag, 'discharged', detail='all %d paths exit after a diagnostic' % len(res), key=key))
    return out

def expect_entries(tag, res, want_shape, want, mv, key, bitwise=False):
    out = []
    rets = [r for r in res if r.end is None]
    for pi, r in enumerate(res):
        if r.end is not None:
            out.append(prove('%s/defined[%d]' % (tag, pi), r.pc, z3.BoolVal(False), 10000, mv, key=key + '/defined', detail='conformable operands but: ' + str(r.end))); continue
        if r.shape[:2] != list(want_shape) or (r.shape[2:] != list(want_shape) and want_shape[1] != 1 and want_shape[0] != 0) :
            out.append(prove('%s/shape[%d]' % (tag, pi), r.pc, z3.BoolVal(False), 10000, mv, key=key + '/shape', detail='result shape %s, expected %s' % (r.shape, want_shape))); continue
        fw = flat(want) if want and isinstance(want[0], list) else list(want)
        for k, (g, w) in enumerate(zip(r.out, fw)):
            if bitwise and not bit_same(g, w):
                out.append(ob('%s/bit-identical[%d,%d]' % (tag, pi, k), 'undecided', detail='terms differ structurally (beyond commutativity)', key=key + '/bits'))
            out.append(eq_ob('%s/entry[%d,%d]' % (tag, pi, k), r.pc, g, w, dict(mv, _want=toR(w), _k=k), key + '/entry', sample=(k == 0 and pi == 0 and '2x3,3x2' in tag)))
    if not rets and not out: out.append(ob(tag + '/reach', 'broken', detail='no path'))
    return out

SUMOPS = [(1, 'Plus', +1), (2, 'Minus', -1), (3, 'operator+', +1), (4, 'operator-', -1), (5, 'operator+=', +1), (6, 'operator-=', -1)]

def job_sums(r1, c1, r2, c2):
    res = []; A = syms('a', r1, c1); B = syms('b', r2, c2); mv = {'A': flat(A), 'B': flat(B), 'shapeA': [r1, c1], 'shapeB': [r2, c2]}
    ref = None
    for op, nm, sg in SUMOPS:
        mv2 = dict(mv); mv2['op'] = op
        tag = 'sum/%s/%dx%d,%dx%d' % (nm, r1, c1, r2, c2)
        it, rs = run_la(op, A, B)
        if (r1, c1) == (r2, c2):
            want = [[A[i][j] + B[i][j] if sg > 0 else A[i][j] - B[i][j] for j in range(c1)] for i in range(r1)]
            res += expect_entries(tag, rs, (r1, c1), want, mv2, 'C04/sum/' + nm, bitwise=True)
        else:
            res += expect_exit(tag + '/rejects', rs, mv2, 'C04/sum/' + nm + '/rejects')
    return res

def job_products(r1, c1, r2, c2):
    res = []; A = syms('a', r1, c1); B = syms('b', r2, c2); mv = {'A': flat(A), 'B': flat(B), 'shapeA': [r1, c1], 'shapeB': [r2, c2]}
    outs = {}
    for op, nm in ((7, 'Product'), (8, 'operator*')):
        mv2 = dict(mv); mv2['op'] = op; tag = 'product/%s/%dx%d,%dx%d' % (nm, r1, c1, r2, c2)
        it, rs = run_la(op, A, B)
        if c1 == r2:
            want = [[sum((A[i][k] * B[k][j] for k in range(c1)), z3.RealVal(0)) for j in range(c2)] for i in range(r1)]
            res += expect_entries(tag, rs, (r1, c2), want, mv2, 'C04/product/' + nm)
            if len(rs) == 1 and rs[0].end is None: outs[nm] = rs[0]
        else: res += expect_exit(tag + '/rejects', rs, mv2, 'C04/product/' + nm + '/rejects')
    if len(outs) == 2:
        ok = all(same(x, y) for x, y in zip(outs['Product'].out, outs['operator*'].out))
        res.append(ob('product/spellings-agree/%dx%d,%dx%d' % (r1, c1, r2, c2), 'discharged' if ok else 'candidate', key='C04/product/spellings', model=None if ok else mv, detail='member and operator give identical terms'))
        # (AB)^T == B^T A^T through the real Transpose and Product; bit-identical up to commutativity of the multiplications
        P = mat(outs['Product'], r1, c2)
        _, t1 = run_la(14, P); _, bt = run_la(14, B); _, at = run_la(14, A)
        if all(len(x) == 1 and x[0].end is None for x in (t1, bt, at)):
            _, t2 = run_la(7, mat(bt[0], c2, r2), mat(at[0], c1, r1))
            if len(t2) == 1 and t2[0].end is None:
                for k, (g, w) in enumerate(zip(t1[0].out, t2[0].out)):
                    if bit_same(g, w): res.append(ob('product/transpose-law/%dx%d,%dx%d[%d]' % (r1, c1, r2, c2, k), 'discharged', key='C04/transpose-law', detail='(AB)^T and B^T A^T entries identical up to commutativity of * => bit-identical'))
                    else: res.append(prove('product/transpose-law/%dx%d,%dx%d[%d]' % (r1, c1, r2, c2, k), [], toR(g) == toR(w), 20000, mv, key='C04/transpose-law'))
            else: res.append(ob('product/transpose-law/%dx%d,%dx%d' % (r1, c1, r2, c2), 'undecided', detail='B^T A^T did not return on one path'))
    return res

def job_unary(r, c):
    res = []; A = syms('a', r, c); s = z3.Real('s'); mv = {'A': flat(A), 'shapeA': [r, c], 's': s}; sh = '%dx%d' % (r, c)
    def one(op, nm, want_shape, want, **kw):
        mv2 = dict(mv); mv2['op'] = op; mv2.update({k: v for k, v in kw.items() if k in ('i', 'j')})
        it, rs = run_la(op, A, **kw); return expect_entries('unary/%s/%s%s' % (nm, sh, ''.join('/%s%s' % (k, v) for k, v in kw.items() if k in 'ij')), rs, want_shape, want, mv2, 'C04/' + nm, bitwise=kw.pop('bitwise', False) if False else False), rs
    sc = [[s * A[i][j] for j in range(c)] for i in range(r)]
    for op, nm in ((9, 'Product(s)'), (10, 'operator*(s)'), (11, 's*M')):
        o, rs = one(op, nm, (r, c), sc, s=s); res += o
        if len(rs) == 1 and rs[0].end is None: res.append(ob('unary/%s/%s/bits' % (nm, sh), 'discharged' if all(bit_same(g, w) for g, w in zip(rs[0].out, flat(sc))) else 'undecided', key='C04/scalar/bits', detail='entries s*a_ij up to commutativity'))
    dv = [[A[i][j] / s for j in range(c)] for i in range(r)]
    for op, nm in ((12, 'Division'), (13, 'operator/')): res += one(op, nm, (r, c), dv, s=s)[0]
    tr = [[A[i][j] for i in range(r)] for j in range(c)]
    o, rs = one(14, 'Transpose', (c, r), tr); res += o
    if len(rs) == 1 and rs[0].end is None:
        _, r2 = run_la(14, mat(rs[0], c, r))
        ok = len(r2) == 1 and r2[0].end is None and r2[0].shape[:2] == [r, c] and all(same(g, w) for g, w in zip(r2[0].out, flat(A)))
        res.append(ob('unary/transpose-involution/%s' % sh, 'discharged' if ok else 'candidate', key='C04/transpose-involution', model=None if ok else mv, detail='(A^T)^T entries are the identical symbols'))
    # A * I == A and I * A == A
    _, idc = run_la(31, shapeA=(c, c)); _, idr = run_la(31, shapeA=(r, r))
    if len(idc) == 1 and idc[0].end is None and len(idr) == 1 and idr[0].end is None:
        Ic = mat(idc[0], c, c); Ir = mat(idr[0], r, r)
        okI = idc[0].shape[:2] == [c, c] and all(Ic[i][j] == (1.0 if i == j else 0.0) for i in range(c) for j in range(c))
        res.append(ob('unary/identity-matrix/%d' % c, 'discharged' if okI else 'candidate', key='C04/identity-matrix', model=None if okI else {'op': 31, 'shapeA': [c, c], 'A': []}, detail='Identity_Matrix entries are exactly 0/1'))
        _, ai = run_la(7, A, Ic); _, ia = run_la(7, Ir, A)
        res += expect_entries('unary/A*I/%s' % sh, ai, (r, c), A, dict(mv, op=7), 'C04/A*I')
        res += expect_entries('unary/I*A/%s' % sh, ia, (r, c), A, dict(mv, op=7), 'C04/I*A')
    # Norm, Trace, predicates
    _, rs = run_la(20, A)
    for pi, q in enumerate(rs):
        if q.end is not None: res.append(prove('unary/Norm/%s/defined[%d]' % (sh, pi), q.pc, z3.BoolVal(False), 10000, dict(mv, op=20), key='C04/Norm/defined', detail=str(q.end))); continue
        n2 = sum((A[i][j] * A[i][j] for i in range(r) for j in range(c)), z3.RealVal(0))
        res.append(prove('unary/Norm/%s[%d]' % (sh, pi), q.pc, z3.And(toR(q.out[0]) >= 0, toR(q.out[0]) * toR(q.out[0]) == n2), 20000, dict(mv, op=20), key='C04/Norm'))
    _, rs = run_la(19, A)
    if r == c: res += expect_entries('unary/Trace/%s' % sh, rs, (1, 1), [sum((A[i][i] for i in range(r)), z3.RealVal(0))], dict(mv, op=19), 'C04/Trace')
    else: res += expect_exit('unary/Trace/%s/rejects' % sh, rs, dict(mv, op=19), 'C04/Trace/rejects')
    preds = {21: ('Symmetric', lambda: z3.And(*[A[i][j] == A[j][i] for i in range(r) for j in range(c)]) if r == c else z3.BoolVal(False)),
             22: ('Antisymmetric', lambda: z3.And(*[A[i][j] == -A[j][i] for i in range(r) for j in range(c)]) if r == c else z3.BoolVal(False)),
             23: ('Diagonal', lambda: z3.And(*([A[i][j] == 0 for i in range(r) for j in range(c) if i != j] + [z3.BoolVal(True)])) if r == c else z3.BoolVal(False)),
             24: ('Square', lambda: z3.BoolVal(r == c))}
    for op, (nm, pred) in preds.items():
        _, rs = run_la(op, A)
        for pi, q in enumerate(rs):
            if q.end is not None: res.append(prove('unary/%s/%s/defined[%d]' % (nm, sh, pi), q.pc, z3.BoolVal(False), 10000, dict(mv, op=op), key='C04/%s/defined' % nm, detail=str(q.end))); continue
            v = q.out[0]
            res.append(prove('unary/%s/%s[%d]' % (nm, sh, pi), q.pc, pred() == (toR(v) == 1), 20000, dict(mv, op=op, _want=z3.If(pred(), z3.RealVal(1), z3.RealVal(0)), _k=0), key='C04/' + nm))
            res.append(prove('unary/%s/%s/boolean[%d]' % (nm, sh, pi), q.pc, z3.Or(toR(v) == 1, toR(v) == 0), 20000, dict(mv, op=op), key='C04/' + nm))
    # rows, columns, sub-matrices, deletion; index == size is the first meaningless request
    for i in range(r + 1):
        _, rs = run_la(26, A, i=i)
        if i < r: res += expect_entries('unary/Return_Row/%s/i%d' % (sh, i), rs, (c, 1), A[i], dict(mv, op=26, i=i), 'C04/Return_Row')
        else: res += expect_exit('unary/Return_Row/%s/i%d/rejects' % (sh, i), rs, dict(mv, op=26, i=i), 'C04/Return_Row/rejects')
        _, rs = run_la(28, A, i=i)
        if i < r: res += expect_entries('unary/Delete_Row/%s/i%d' % (sh, i), rs, (r - 1, c), [A[k] for k in range(r) if k != i], dict(mv, op=28, i=i), 'C04/Delete_Row')
        else: res += expect_exit('unary/Delete_Row/%s/i%d/rejects' % (sh, i), rs, dict(mv, op=28, i=i), 'C04/Delete_Row/rejects')
    for j in range(c + 1):
        _, rs = run_la(27, A, j=j)
        if j < c: res += expect_entries('unary/Return_Column/%s/j%d' % (sh, j), rs, (r, 1), [A[k][j] for k in range(r)], dict(mv, op=27, j=j), 'C04/Return_Column')
        else: res += expect_exit('unary/Return_Column/%s/j%d/rejects' % (sh, j), rs, dict(mv, op=27, j=j), 'C04/Return_Column/rejects')
        _, rs = run_la(29, A, j=j)
        if j < c: res += expect_entries('unary/Delete_Column/%s/j%d' % (sh, j), rs, (r, c - 1), [[A[k][l] for l in range(c) if l != j] for k in range(r)], dict(mv, op=29, j=j), 'C04/Delete_Column')
        else: res += expect_exit('unary/Delete_Column/%s/j%d/rejects' % (sh, j), rs, dict(mv, op=29, j=j), 'C04/Delete_Column/rejects')
    if r >= 2 and c >= 2:
        for i in range(r):
            for j in range(c):
                _, rs = run_la(25, A, i=i, j=j)
                res += expect_entries('unary/Sub_Matrix/%s/%d,%d' % (sh, i, j), rs, (r - 1, c - 1), [[A[k][l] for l in range(c) if l != j] for k in range(r) if k != i], dict(mv, op=25, i=i, j=j), 'C04/Sub_Matrix')
    # element access and assignment
    for i in range(r):
        for j in range(c):
            _, rs = run_la(34, A, i=i, j=j); res += expect_entries('unary/brackets/%s/%d,%d' % (sh, i, j), rs, (1, 1), [A[i][j]], dict(mv, op=34, i=i, j=j), 'C04/brackets')
    return res

def job_diag(n):
    res = []; d = [z3.Real('d%d' % i) for i in range(n)]; mv = {'A': d, 'shapeA': [n, 1], 'op': 32}
    _, rs = run_la(32, d, vecA=True)
    res += expect_entries('diag-ctor/%d' % n, rs, (n, n), [[d[i] if i == j else 0.0 for j in range(n)] for i in range(n)], mv, 'C04/diag-ctor')
    return res

def job_matvec(r, c, n):
    res = []; A = syms('a', r, c); v = [z3.Real('v%d' % i) for i in range(n)]; mv = {'A': flat(A), 'B': v, 'shapeA': [r, c], 'shapeB': [n, 1]}
    sh = '%dx%d,%d' % (r, c, n)
    for op, nm in ((15, 'Product(v)'), (16, 'operator*(v)')):
        _, rs = run_la(op, A, v, vecB=True)
        if n == c: res += expect_entries('matvec/%s/%s' % (nm, sh), rs, (r, 1), [sum((A[i][k] * v[k] for k in range(c)), z3.RealVal(0)) for i in range(r)], dict(mv, op=op), 'C04/matvec/' + nm)
        else: res += expect_exit('matvec/%s/%s/rejects' % (nm, sh), rs, dict(mv, op=op), 'C04/matvec/%s/rejects' % nm)
    _, rs = run_la(17, A, v, vecB=True)
    if n == r: res += expect_entries('matvec/v*M/%s' % sh, rs, (c, 1), [sum((v[k] * A[k][j] for k in range(r)), z3.RealVal(0)) for j in range(c)], dict(mv, op=17), 'C04/matvec/v*M')
    else: res += expect_exit('matvec/v*M/%s/rejects' % sh, rs, dict(mv, op=17), 'C04/matvec/v*M/rejects')
    # coincide with the matrix product of the column / row matrix (through the real Product)
    if n == c:
        _, p1 = run_la(7, A, [[x] for x in v]); _, p2 = run_la(15, A, v, vecB=True)
        if len(p1) == 1 and len(p2) == 1 and p1[0].end is None and p2[0].end is None:
            ok = all(bit_same(g, w) for g, w in zip(p1[0].out, p2[0].out))
            res.append(ob('matvec/equals-column-matrix-product/%s' % sh, 'discharged' if ok else 'undecided', key='C04/matvec/as-matrix', detail='M*v and M*(n x 1 matrix) give identical terms'))
    return res

def job_vec(n1, n2):
    res = []; a = [z3.Real('u%d' % i) for i in range(n1)]; b = [z3.Real('w%d' % i) for i in range(n2)]; s = z3.Real('s')
    mv = {'A': a, 'B': b, 'shapeA': [n1, 1], 'shapeB': [n2, 1], 's': s}; sh = '%d,%d' % (n1, n2)
    V = lambda op, **kw: run_la(op, a, b, vecA=True, vecB=True, **kw)[1]
    dot = sum((a[i] * b[i] for i in range(min(n1, n2))), z3.RealVal(0))
    for op, nm in ((40, 'Dot'), (41, 'operator*')):
        if n1 == n2: res += expect_entries('vec/%s/%s' % (nm, sh), V(op), (1, 1), [dot], dict(mv, op=op), 'C04/vec/' + nm)
        else: res += expect_exit('vec/%s/%s/rejects' % (nm, sh), V(op), dict(mv, op=op), 'C04/vec/%s/rejects' % nm)
    for op, nm, f in ((43, 'operator+', lambda x, y: x + y), (44, 'operator-', lambda x, y: x - y), (45, 'operator+=', lambda x, y: x + y), (46, 'operator-=', lambda x, y: x - y)):
        if n1 == n2: res += expect_entries('vec/%s/%s' % (nm, sh), V(op), (n1, 1), [f(a[i], b[i]) for i in range(n1)], dict(mv, op=op), 'C04/vec/' + nm, bitwise=True)
        else: res += expect_exit('vec/%s/%s/rejects' % (nm, sh), V(op), dict(mv, op=op), 'C04/vec/%s/rejects' % nm)
    if n1 == 3 and n2 == 3:
        res += expect_entries('vec/Cross/%s' % sh, V(42), (3, 1), [a[1] * b[2] - a[2] * b[1], a[2] * b[0] - a[0] * b[2], a[0] * b[1] - a[1] * b[0]], dict(mv, op=42), 'C04/vec/Cross')
    elif n1 != 3: res += expect_exit('vec/Cross/%s/rejects' % sh, V(42), dict(mv, op=42), 'C04/vec/Cross/rejects')
    else: res += expect_exit('vec/Cross/%s/rejects-rhs' % sh, V(42), dict(mv, op=42), 'C04/vec/Cross/rejects-rhs')
    res += expect_entries('vec/Outer/%s' % sh, run_la(18, a, b, vecA=True, vecB=True)[1], (n1, n2), [[a[i] * b[j] for j in range(n2)] for i in range(n1)], dict(mv, op=18), 'C04/vec/Outer')
    if n1 == n2:
        res += expect_entries('vec/v*s/%d' % n1, V(47, s=s), (n1, 1), [x * s for x in a], dict(mv, op=47), 'C04/vec/v*s')
        res += expect_entries('vec/s*v/%d' % n1, V(48, s=s), (n1, 1), [x * s for x in a], dict(mv, op=48), 'C04/vec/s*v')
        res += expect_entries('vec/v÷s/%d' % n1, V(49, s=s), (n1, 1), [x / s for x in a], dict(mv, op=49), 'C04/vec/v÷s')
        for pi, q in enumerate(V(50)):
            if q.end is not None: res.append(prove('vec/Norm/%d/defined[%d]' % (n1, pi), q.pc, z3.BoolVal(False), 10000, dict(mv, op=50), key='C04/vec/Norm/defined', detail=str(q.end))); continue
            res.append(prove('vec/Norm/%d[%d]' % (n1, pi), q.pc, z3.And(toR(q.out[0]) >= 0, toR(q.out[0]) * toR(q.out[0]) == sum((x * x for x in a), z3.RealVal(0))), 20000, dict(mv, op=50), key='C04/vec/Norm'))
        for op, nm in ((51, 'Normalized'), (52, 'Normalize')):
            for pi, q in enumerate(V(op)):
                if q.end is not None: res.append(prove('vec/%s/%d/defined[%d]' % (nm, n1, pi), q.pc, z3.BoolVal(False), 10000, dict(mv, op=op), key='C04/vec/%s/defined' % nm, detail=str(q.end))); continue
                nz = [z3.Or(*[x != 0 for x in a])]
                res.append(prove('vec/%s/%d/unit[%d]' % (nm, n1, pi), q.pc + nz, sum((toR(x) * toR(x) for x in q.out), z3.RealVal(0)) == 1, 30000, dict(mv, op=op), key='C04/vec/' + nm))
                for k in range(n1):
                    res.append(prove('vec/%s/%d/parallel[%d,%d]' % (nm, n1, pi, k), q.pc + nz, z3.And(toR(q.out[k]) * a[0] == toR(q.out[0]) * a[k], toR(q.out[k]) * a[k] >= 0), 30000, dict(mv, op=op), key='C04/vec/' + nm))
        for i in range(n1 + 1):
            rs = V(53, i=i)
            if i < n1: res += expect_entries('vec/brackets/%d/i%d' % (n1, i), rs, (1, 1), [a[i]], dict(mv, op=53, i=i), 'C04/vec/brackets')
            else: res += expect_exit('vec/brackets/%d/i%d/rejects' % (n1, i), rs, dict(mv, op=53, i=i), 'C04/vec/brackets/rejects')
    return res

def job_block(r1, c1, r2, c2):
    res = []; A = syms('a', r1, c1); B = syms('b', r1, c2); C = syms('c', r2, c1); D = syms('d', r2, c2)
    mv = {'A': flat(A), 'B': flat(B), 'C': flat(C), 'D': flat(D), 'shapeA': [r1, c1], 'shapeB': [r2, c2], 'op': 30}
    _, rs = run_la(30, A, B, C=C, D=D, shapeB=(r2, c2))
    want = [A[i] + B[i] for i in range(r1)] + [C[i] + D[i] for i in range(r2)]
    res += expect_entries('block-ctor/%dx%d,%dx%d' % (r1, c1, r2, c2), rs, (r1 + r2, c1 + c2), want, mv, 'C04/block-ctor')
    return res

def jobs(ctx):
    module(ctx); n = BOUNDS[ctx.tier]['max_dim']; J = []; R = range(1, n + 1)
    for r1 in R:
        for c1 in R:
            J.append((job_unary, (r1, c1)))
            for r2 in R:
                for c2 in R:
                    J.append((job_sums, (r1, c1, r2, c2))); J.append((job_products, (r1, c1, r2, c2)))
            for m in R: J.append((job_matvec, (r1, c1, m)))
    for a in R:
        J.append((job_diag, (a,)))
        for b in R: J.append((job_vec, (a, b)))
    for r1 in (1, 2):
        for c1 in (1, 2):
            for r2 in (1, 2):
                for c2 in (1, 2): J.append((job_block, (r1, c1, r2, c2)))
    return J

def validate(ctx):
    module(ctx); bad = []; n = 0
    A = [[1.5, -2.0, 0.25], [3.0, 4.5, -1.0]]; B = [[0.5, 1.0], [-1.5, 2.0], [7.0, -3.0]]; S = [[2.0, 1.0], [1.0, 3.0]]
    cases = [(7, A, B, {}), (14, A, None, {}), (9, A, None, {'s': 1.7}), (12, A, None, {'s': 1.7}), (20, A, None, {}), (19, S, None, {}), (60, S, None, {}), (62, S, None, {}), (25, B, None, {'i': 1, 'j': 0}), (1, S, S, {}), (6, S, S, {}),
             (21, S, None, {}), (27, A, None, {'j': 2})]
    for op, a, b, kw in cases:
        _, rs = run_la(op, a, b, **kw); r = native_la(ctx, op, a, b, **kw); n += 1
        if len(rs) != 1 or rs[0].end is not None or r['status'] != 'ok': bad.append('op %d: interp %s native %s' % (op, [str(x.end) for x in rs], r['status'])); continue
        k = rs[0].shape[0] * rs[0].shape[1]
        if rs[0].shape[:2] != list(r['shape'][:2]) or any(abs(x - y) > 1e-12 * max(abs(x), abs(y), 1e-300) for x, y in zip(rs[0].out, r['out'][:k])): bad.append('op %d: %s vs %s' % (op, rs[0].out, r['out'][:k]))
    if bad: return [ob('translator-validation', 'broken', detail='; '.join(bad[:4]))]
    return [ob('translator-validation', 'discharged', backend='TV', detail='%d concrete matrix operations: interpreter == native' % n)]

def replay(ctx, o):
    m = o['model'] or {}
    if 'op' not in m: return False, 'no model'
    sa = m['shapeA']; sb = m.get('shapeB', [0, 0]); op = m['op']
    vec_ops = set(range(40, 58)) | {18}
    def get(k, sh, isvec):
        if k not in m or not m[k]: return None
        v = [fl(q) for q in m[k]]
        if isvec: return v
        return [[v[i * sh[1] + j] for j in range(sh[1])] for i in range(sh[0])]
    vecA = op in vec_ops or op == 32; vecB = op in vec_ops or op in (15, 16, 17)
    A = get('A', sa, vecA); B = get('B', sb, vecB)
    kw = {}
    if op == 30: kw = {'C': get('C', [sb[0], sa[1]], False), 'D': get('D', sb, False), 'shapeB': tuple(sb)}; B = get('B', [sa[0], sb[1]], False)
    r = native_la(ctx, op, A, B, s=fl(m['s']) if 's' in m else 0.0, i=m.get('i', 0), j=m.get('j', 0), shapeA=None if A is not None else tuple(sa), vecA=vecA, vecB=vecB, **kw)
    key = o['key']
    if key.endswith('/rejects') or key.endswith('/rejects-rhs'):
        if r['status'] == 'exit' and r.get('code', 0) != 0: return False, 'native call exits with status %s as required' % r['code']
        return True, 'non-conformable request (op %d, shapes %s %s) did not stop the process: %s' % (op, sa, sb, {k: r.get(k) for k in ('status', 'code', 'shape')})
    if key.endswith('/defined'):
        return (r['status'] != 'ok'), 'conformable request (op %d, shapes %s %s): native %s' % (op, sa, sb, {k: r.get(k) for k in ('status', 'code')})
    if r['status'] != 'ok': return True, 'native call on a valid request ended: %s' % r
    # value-level: recompute the definition in double arithmetic
    out = r['out'][:r['shape'][0] * r['shape'][1]]
    if '_want' in m and isinstance(m['_want'], list) and m['_k'] < len(out):
        w = q2f(m['_want']); g = out[m['_k']]
        return abs(g - w) > 1e-9 * max(abs(g), abs(w), 1e-300), 'native result entry %d = %r, definition gives %r (op %d, shapes %s %s)' % (m['_k'], g, w, op, sa, sb)
    return False, 'native result %s shape %s (entry-level replay compares against the definition only for definedness/shape keys)' % (out[:6], r['shape'])
