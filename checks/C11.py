"""C11 - Minimisers never end worse than they started (DESIGN.md section 2/C11)"""
import itertools, math
import z3
from llsym import *
from check import *
import native as nat

EXPLANATION = ('C11: real Bracket_Method::Bracket, Brent::Minimize, Find_Minimum/Find_Maximum and the three Minimization::minimize overloads with an uninterpreted objective, all paths up to a bound on the number of objective evaluations: '
               'Bracket returns a bracketing triple (fb <= fa, fb <= fc, bx between ax and cx, stored values are the objective at the stored points); Brent returns the point of least value seen, inside the bracket; '
               'inductive step over the Brent loop from an arbitrary state satisfying its invariant (module variant lowered with loop rotation disabled): evaluation inside the current bracket, best value never increases, invariant re-established - for every number of iterations; '
               'Find_Minimum is never worse than both starting abscissae; Find_Maximum(f) and Find_Minimum(-f) give identical terms; Nelder-Mead: reported fmin / y / simplex are the objective at the reported points, best-first, never worse than the best initial vertex, returned only when the spread of the vertex values passes the relative test against ftol; the convenience overloads start from point + delta*e_i.')
BOUNDS = {'quick': {'bracket_evals': 5, 'brent_evals': 3, 'findmin_evals': 5, 'nm_dims': [1, 2], 'nm_extra_evals': 3}, 'thorough': {'bracket_evals': 6, 'brent_evals': 3, 'findmin_evals': 5, 'nm_dims': [1, 2, 3], 'nm_extra_evals': 4}}
NOT_DECIDED = ['all convergence-distance clauses (returned point within the tolerance-implied distance of the true minimiser)', 'behaviour beyond the evaluation bound (paths with more evaluations are cut)']
ASSUMPTIONS = ['objective uninterpreted; doubles exact reals', 'paths are explored up to the stated number of objective evaluations; tolerances symbolic (so that returning paths exist at every depth)']

SRCS = ['Special_Functions.cpp', 'Utilities.cpp', 'Linear_Algebra.cpp', 'Integration.cpp', 'Statistics.cpp']
NATIVE_SRCS = ['Special_Functions.cpp', 'Utilities.cpp', 'Linear_Algebra.cpp', 'Integration.cpp', 'Statistics.cpp', 'Natural_Units.cpp']
KEEP = ['verif_c11_bracket', 'verif_c11_brent', 'verif_c11_findmin', 'verif_c11_findmax', 'verif_c11_nm']
G = {}
TL = [1]      # exploration time budget factor: 1 in the quick tier, 4 in the thorough tier (set in jobs())
def module(ctx):
    if 'm' not in G:
        G['m'] = ctx.lower(SRCS, 'C11.cpp', KEEP)
        G['m_norot'] = ctx.lower(SRCS, 'C11.cpp', KEEP, extra=['-mllvm', '-rotation-max-header-size=0'])      # same sources, loop rotation disabled: the loop headers carry the source-level loop state (used by the loop-step job only)
    return G['m']
def native(ctx): return ctx.native(NATIVE_SRCS, 'C11.cpp')
from num_common import user_f, user_fv, calls, F1
def run(fname, args, intercept, pre=(), limits=None, **kw):
    it = Interp(G['m'], intercept=intercept, limits=limits, **kw); st = it.new_state(); st.pc += list(pre)
    args = [a(st) if callable(a) else a for a in args]
    return it, it.execute(fname, args, st)

A, B, TOL = z3.Real('a'), z3.Real('b'), z3.Real('tol')
def between(lo, x, hi): return z3.Or(z3.And(lo < x, x < hi), z3.And(hi < x, x < lo))
def mvc(p, **kw):
    cs = calls(p.st); d = {'calls_x': [c[1][0] for c in cs], 'calls_f': [c[2] for c in cs]}; d.update(kw); return d

def job_bracket(K):
    res = []; tag = 'bracket/K%d' % K; outp = {}
    def out(st): outp['a'] = st.alloc(48); return outp['a']
    _, paths = run('@verif_c11_bracket', [A, B, out], user_f(maxcalls=K), pre=[A != B], limits=Limits(max_paths=3000, feas_ms=300, max_seconds=400 * TL[0]))
    nret = 0
    for pi, p in enumerate(paths):
        if p.end is not None:
            if p.end.kind != 'cutoff': res.append(prove('%s/no-%s[%d]' % (tag, p.end.kind, pi), p.st.pc, z3.BoolVal(False), 20000, mvc(p, a=A, b=B), key='C11/bracket/' + p.end.kind, detail=str(p.end)))
            continue
        nret += 1; ax, bx, cx, fa, fb, fc = [toR(p.st.load(outp['a'] + 8 * i, 8, True)) for i in range(6)]; mv = mvc(p, a=A, b=B)
        hyp = p.st.pc + alg_assumptions(p.st)
        res.append(prove('%s/values-are-objective[%d]' % (tag, pi), hyp, z3.And(fa == F1(ax), fb == F1(bx), fc == F1(cx)), 30000, mv, key='C11/bracket/values'))
        res.append(prove('%s/middle-lowest[%d]' % (tag, pi), hyp, z3.And(fb <= fa, fb <= fc), 30000, mv, key='C11/bracket/middle-lowest', sample=(nret == 1)))
        res.append(prove('%s/middle-between[%d]' % (tag, pi), hyp, between(ax, bx, cx), 60000, mv, key='C11/bracket/ordering', tactic='nra'))
        res.append(prove('%s/not-worse-than-start[%d]' % (tag, pi), hyp, z3.And(fb <= F1(A), fb <= F1(B)), 30000, mv, key='C11/bracket/descent'))
    res.append(ob(tag + '/coverage', 'discharged' if nret else 'broken', key='C11/coverage', detail='%d returning of %d paths' % (nret, len(paths))))
    return res

def job_brent(K):
    res = []; tag = 'brent/K%d' % K; AX, BX, CX = z3.Real('ax'), z3.Real('bx'), z3.Real('cx'); outp = {}
    def out(st): outp['a'] = st.alloc(16); return outp['a']
    pre = [between(AX, BX, CX), TOL > 0]
    _, paths = run('@verif_c11_brent', [AX, BX, CX, TOL, out], user_f(maxcalls=K), pre=pre, limits=Limits(max_paths=3000, feas_ms=300, max_seconds=400 * TL[0]))
    nret = 0; lo = z3.If(AX < CX, AX, CX); hi = z3.If(AX < CX, CX, AX)
    for pi, p in enumerate(paths):
        if p.end is not None:
            if p.end.kind != 'cutoff': res.append(prove('%s/no-%s[%d]' % (tag, p.end.kind, pi), p.st.pc, z3.BoolVal(False), 20000, mvc(p, ax=AX, bx=BX, cx=CX, tol=TOL), key='C11/brent/' + p.end.kind, detail=str(p.end)))
            continue
        nret += 1; xm, fm = [toR(p.st.load(outp['a'] + 8 * i, 8, True)) for i in range(2)]; mv = mvc(p, ax=AX, bx=BX, cx=CX, tol=TOL); cs = calls(p.st); hyp = p.st.pc + alg_assumptions(p.st)
        res.append(prove('%s/reports-objective-at-result[%d]' % (tag, pi), hyp, z3.And(toR(p.ret) == xm, fm == F1(xm)), 30000, mv, key='C11/brent/state-consistent'))
        res.append(prove('%s/least-value-seen[%d]' % (tag, pi), hyp, z3.And(*[fm <= toR(c[2]) for c in cs]), 60000, mv, key='C11/brent/least-value-seen', sample=(nret == 1)))
        res.append(prove('%s/inside-bracket[%d]' % (tag, pi), hyp, z3.And(lo <= xm, xm <= hi), 60000, mv, key='C11/brent/inside-bracket', tactic='nra'))
        res.append(prove('%s/evaluates-inside-bracket[%d]' % (tag, pi), hyp, z3.And(*[z3.And(lo <= toR(c[1][0]), toR(c[1][0]) <= hi) for c in cs]), 60000, mv, key='C11/brent/evaluates-inside', tactic='nra'))
    res.append(ob(tag + '/coverage', 'discharged' if nret else 'broken', key='C11/coverage', detail='%d returning of %d paths' % (nret, len(paths))))
    return res

def job_brent_step():
    """inductive step over Brent's loop (module lowered with loop rotation disabled, so that the loop header carries exactly the source-level state a, b, x, w, v, fx, fw, fv, d, e, iter):
       from an ARBITRARY state satisfying the invariant (original bracket [lo,hi] contains a <= x <= b and w, v; f-values are the objective at their points; fx <= fw, fx <= fv) one real iteration
       evaluates the objective inside [a,b], returns x / fx on termination, and re-establishes the invariant at the back edge with the best value not increased.  Covers every number of iterations."""
    res = []; tag = 'brent/loop-step'; mod = G['m_norot']; AX, BX, CX = z3.Real('ax'), z3.Real('bx'), z3.Real('cx'); outp = {}
    Aq, Bq, Xq, Wq, Vq, Dq, Eq = [z3.Real('h_' + n) for n in ('a', 'b', 'x', 'w', 'v', 'd', 'e')]; It = z3.Int('h_iter'); fresh = {}
    fns = [k for k in mod.funcs if 'Brent8Minimize' in k]
    if len(fns) != 1: return [ob(tag + '/function', 'broken', detail=str(fns))]
    f = mod.funcs[fns[0]]; need = ('a', 'b', 'x', 'w', 'v', 'fx', 'fw', 'fv', 'd', 'e', 'iter')
    heads = [b for b in loop_headers(f) if set(I.dest.lstrip('%').split('.')[0] for I in f.blocks[b] if I.op == 'phi') == set(need)]
    if len(heads) != 1: return [ob(tag + '/loop-state', 'undecided', key='C11/brent/loop-step', detail='no loop header carrying exactly %s: %s' % (need, [(b, sorted(set(I.dest for I in f.blocks[b] if I.op == 'phi'))) for b in loop_headers(f)]))]
    LO = z3.If(AX < CX, AX, CX); HI = z3.If(AX < CX, CX, AX)
    def handler(it, f_, blk, regs, st):
        val = {'a': Aq, 'b': Bq, 'x': Xq, 'w': Wq, 'v': Vq, 'fx': F1(Xq), 'fw': F1(Wq), 'fv': F1(Vq), 'd': Dq, 'e': Eq, 'iter': It}
        for I in f_.blocks[blk]:
            if I.op == 'phi': base = I.dest.lstrip('%').split('.')[0]; regs[I.dest] = val[base]; fresh[base] = I.dest
        st.pc += [LO <= Aq, Aq <= Xq, Xq <= Bq, Bq <= HI, LO <= Wq, Wq <= HI, LO <= Vq, Vq <= HI, F1(Xq) <= F1(Wq), F1(Xq) <= F1(Vq), It >= 0, It <= 99]
        st.events.append(('havoc', len([e for e in st.events if e[0] == 'call'])))
    def out(st): outp['a'] = st.alloc(16); return outp['a']
    it = Interp(mod, intercept=user_f(maxcalls=4), limits=Limits(max_paths=3000, feas_ms=500, max_seconds=500 * TL[0])); it.havoc[(fns[0], heads[0])] = handler
    st = it.new_state(); st.pc += [between(AX, BX, CX), TOL > 0]
    ps = it.execute('@verif_c11_brent', [AX, BX, CX, TOL, out(st)], st)
    mv0 = {'ax': AX, 'bx': BX, 'cx': CX, 'tol': TOL, 'h_a': Aq, 'h_b': Bq, 'h_x': Xq, 'h_w': Wq, 'h_v': Vq, 'h_fx': F1(Xq), 'h_fw': F1(Wq), 'h_fv': F1(Vq), 'h_d': Dq, 'h_e': Eq, 'h_iter': It, 'loop_step': 1}; nret = nback = 0
    for pi, p in enumerate(ps):
        hv = [e for e in p.st.events if e[0] == 'havoc']
        if not hv: continue
        cs = calls(p.st)[hv[0][1]:]; hyp = p.st.pc + alg_assumptions(p.st); mv = dict(mv0, calls_x=[c[1][0] for c in cs], calls_f=[c[2] for c in cs])
        for ci, c in enumerate(cs):
            res.append(prove('%s/evaluates-inside-current-bracket[%d,%d]' % (tag, pi, ci), hyp, z3.And(Aq <= toR(c[1][0]), toR(c[1][0]) <= Bq), 60000, mv, key='C11/brent/loop-step/evaluates-inside', tactic='nra'))
        if p.end is None:
            nret += 1; xm, fm = [toR(p.st.load(outp['a'] + 8 * i, 8, True)) for i in range(2)]
            res.append(prove('%s/returns-the-current-best-point[%d]' % (tag, pi), hyp, z3.And(toR(p.ret) == Xq, xm == Xq, fm == F1(Xq)), 30000, mv, key='C11/brent/loop-step/return', tactic='nra'))
        elif p.end.kind == 'backedge':
            nback += 1; be = [e for e in p.st.events if e[0] == 'backedge'][-1][2]; g = lambda k: toR(be[fresh[k]])
            inv = [Aq <= g('a'), g('a') <= g('x'), g('x') <= g('b'), g('b') <= Bq, LO <= g('w'), g('w') <= HI, LO <= g('v'), g('v') <= HI,
                   g('fx') == F1(g('x')), g('fw') == F1(g('w')), g('fv') == F1(g('v')), g('fx') <= g('fw'), g('fx') <= g('fv'), g('fx') <= F1(Xq), toI(be[fresh['iter']]) == It + 1] + [g('fx') <= toR(c[2]) for c in cs]
            res.append(prove('%s/back-edge-re-establishes-the-invariant[%d]' % (tag, pi), hyp, z3.And(*inv), 90000, mv, key='C11/brent/loop-step/invariant', tactic='nra', sample=(nback == 1)))
        elif p.end.kind == 'exit':
            res.append(prove('%s/exit-only-at-the-iteration-cap[%d]' % (tag, pi), hyp, It == 99, 30000, mv, key='C11/brent/loop-step/exit'))
        elif p.end.kind != 'cutoff':
            res.append(prove('%s/no-%s[%d]' % (tag, p.end.kind, pi), hyp, z3.BoolVal(False), 20000, mv, key='C11/brent/' + p.end.kind, detail=str(p.end)))
    res.append(ob(tag + '/coverage', 'discharged' if nret and nback else 'broken', key='C11/coverage', detail='%d returning, %d back-edge paths from the arbitrary state (%d paths)' % (nret, nback, len(ps))))
    return res

def job_findmin(K):
    res = []; tag = 'findmin/K%d' % K
    _, paths = run('@verif_c11_findmin', [A, B, TOL], user_f(maxcalls=K), pre=[A != B, TOL > 0], limits=Limits(max_paths=4000, feas_ms=300, max_seconds=300 * TL[0]))
    nret = 0
    for pi, p in enumerate(paths):
        if p.end is not None:
            if p.end.kind != 'cutoff': res.append(prove('%s/no-%s[%d]' % (tag, p.end.kind, pi), p.st.pc, z3.BoolVal(False), 20000, mvc(p, a=A, b=B, tol=TOL), key='C11/findmin/' + p.end.kind, detail=str(p.end)))
            continue
        nret += 1; r = toR(p.ret); mv = mvc(p, a=A, b=B, tol=TOL); hyp = p.st.pc + alg_assumptions(p.st)
        res.append(prove('%s/not-worse-than-start[%d]' % (tag, pi), hyp, z3.And(F1(r) <= F1(A), F1(r) <= F1(B)), 60000, mv, key='C11/findmin/descent', sample=(nret == 1)))
    res.append(ob(tag + '/coverage', 'discharged' if nret else 'broken', key='C11/coverage', detail='%d returning of %d paths' % (nret, len(paths))))
    # Find_Maximum(f) == Find_Minimum(-f)
    _, P = run('@verif_c11_findmax', [A, B, TOL], user_f(maxcalls=K), pre=[A != B, TOL > 0], limits=Limits(max_paths=4000, feas_ms=300, max_seconds=300 * TL[0]))
    _, Q = run('@verif_c11_findmin', [A, B, TOL], user_f(fn=lambda x: -F1(toR(x)), maxcalls=K), pre=[A != B, TOL > 0], limits=Limits(max_paths=4000, feas_ms=300, max_seconds=300 * TL[0]))
    n = 0
    for pi, p in enumerate(P):
        if p.end is not None: continue
        for qi, q in enumerate(Q):
            if q.end is not None: continue
            so = z3.Solver(); so.set('timeout', 2000); so.add(*(p.st.pc + q.st.pc))
            if so.check() == z3.unsat: continue
            n += 1
            if is_sym(p.ret) and is_sym(q.ret) and p.ret.eq(q.ret): res.append(ob('%s/max-is-min-of-negative[%d,%d]' % (tag, pi, qi), 'discharged', key='C11/findmax', detail='identical result terms'))
            else: res.append(prove('%s/max-is-min-of-negative[%d,%d]' % (tag, pi, qi), p.st.pc + q.st.pc, toR(p.ret) == toR(q.ret), 30000, mvc(p, a=A, b=B, tol=TOL), key='C11/findmax'))
            if n >= 60: break
        if n >= 60: break
    if n == 0: res.append(ob(tag + '/max/pairs', 'broken', detail='no feasible pair'))
    return res

def FVn(nd): return z3.Function('FV%d' % nd, *([z3.RealSort()] * (nd + 1)))
def job_nm(nd, mode, extra):
    res = []; tag = 'nelder-mead/dim%d/mode%d' % (nd, mode); FN = FVn(nd); FT = z3.Real('ftol'); outp = {}
    npts = nd + 1
    if mode == 0:
        PP = [[z3.Real('p%d_%d' % (i, j)) for j in range(nd)] for i in range(npts)]; DL = [0.0]; start = PP
        ppv = [x for r in PP for x in r]
    else:
        P0 = [z3.Real('p%d' % j) for j in range(nd)]; DL = [z3.Real('d0')] if mode == 1 else [z3.Real('d%d' % j) for j in range(nd)]
        start = [list(P0)] + [[P0[j] + ((DL[0] if mode == 1 else DL[i]) if j == i else 0) for j in range(nd)] for i in range(nd)]; ppv = P0
    def xm(st): outp['x'] = st.alloc(8 * nd); return outp['x']
    def stt(st): outp['s'] = st.alloc(8 * (3 + nd + npts * nd)); return outp['s']
    inter = user_fv(lambda comps: FN(*[toR(c) for c in comps]), maxcalls=npts + extra)
    _, paths = run('@verif_c11_nm', [mode, nd, lambda st: st.put_doubles(ppv), lambda st: st.put_doubles(DL), FT, xm, stt], inter, pre=[FT > 0], limits=Limits(max_paths=4000, feas_ms=1000, max_seconds=300 * TL[0], max_steps=20000000))
    nret = 0
    for pi, p in enumerate(paths):
        cs = calls(p.st); mv = {'start': [x for r in start for x in r], 'ftol': FT, 'nd': nd, 'mode': mode, 'calls_x': [list(c[1]) for c in cs][:0], 'vals': [c[2] for c in cs]}
        if p.end is not None:
            if p.end.kind != 'cutoff': res.append(prove('%s/no-%s[%d]' % (tag, p.end.kind, pi), p.st.pc, z3.BoolVal(False), 20000, mv, key='C11/nm/' + p.end.kind, detail=str(p.end)))
            continue
        nret += 1; hyp = p.st.pc + alg_assumptions(p.st)
        xmin = [toR(p.st.load(outp['x'] + 8 * j, 8, True)) for j in range(nd)]; S = [toR(p.st.load(outp['s'] + 8 * k, 8, True)) for k in range(3 + nd + npts * nd)]
        fmin = S[0]; y = S[1:1 + npts]; simp = [[S[2 + nd + i * nd + j] for j in range(nd)] for i in range(npts)]
        if nret <= 40 or pi % 7 == 0:
            res.append(prove('%s/initial-simplex[%d]' % (tag, pi), hyp, z3.And(*[toR(cs[i][1][j]) == toR(start[i][j]) for i in range(npts) for j in range(nd)]), 30000, mv, key='C11/nm/initial-simplex'))
            res.append(prove('%s/state-consistent[%d]' % (tag, pi), hyp, z3.And(fmin == y[0], fmin == FN(*xmin), *([y[i] == FN(*simp[i]) for i in range(npts)] + [xmin[j] == simp[0][j] for j in range(nd)])), 60000, mv, key='C11/nm/state-consistent', sample=(nret == 1)))
            res.append(prove('%s/best-first[%d]' % (tag, pi), hyp, z3.And(*[y[0] <= y[i] for i in range(npts)]), 60000, mv, key='C11/nm/best-first'))
            res.append(prove('%s/not-worse-than-start[%d]' % (tag, pi), hyp, z3.And(*[fmin <= FN(*[toR(t) for t in start[i]]) for i in range(npts)]), 60000, mv, key='C11/nm/descent'))
            # termination certificate: the routine returns (below the evaluation cap) only when the spread of the objective over the final simplex is below ftol, relative to the magnitudes (Numerical Recipes' rtol with TINY = 1e-10)
            hi_ = y[0]
            for t in y[1:]: hi_ = z3.If(t >= hi_, t, hi_)
            ab = lambda t: z3.If(t >= 0, t, -t)
            res.append(prove('%s/returns-only-with-a-small-spread[%d]' % (tag, pi), hyp, 2 * ab(hi_ - y[0]) < FT * (ab(hi_) + ab(y[0]) + RV(1e-10)), 60000, mv, key='C11/nm/termination'))
    res.append(ob(tag + '/coverage', 'discharged' if nret else 'broken', key='C11/coverage', detail='%d returning of %d paths' % (nret, len(paths))))
    return res

def jobs(ctx):
    module(ctx); b = BOUNDS[ctx.tier]; TL[0] = 1 if ctx.quick() else 4
    J = [(job_brent_step, ()), (job_bracket, (b['bracket_evals'],)), (job_brent, (b['brent_evals'],)), (job_findmin, (b['findmin_evals'],))]
    for nd in b['nm_dims']:
        for mode in (0, 1, 2): J.append((job_nm, (nd, mode, b['nm_extra_evals'] if nd < 3 else 2)))
    return J

def validate(ctx):
    import ctypes
    module(ctx); so = native(ctx); bad = []; n = 0
    for f, a, b, tol in ((lambda x: (x - 1.3) ** 2 + 0.5, 0.0, 1.0, 1e-8), (lambda x: math.cosh(x + 0.7), 3.0, 2.0, 1e-6), (lambda x: x ** 4 - x, -1.0, -0.5, 1e-9)):
        _, ps = run('@verif_c11_findmin', [a, b, tol], user_f(fn=f), limits=Limits(max_steps=20000000)); r = nat.call(so, 'verif_c11_findmin', [a, b, tol], fcb=f); n += 1
        if len(ps) != 1 or ps[0].end is not None or r['status'] != 'ok' or ps[0].ret != r['ret']: bad.append('Find_Minimum case %d: interp %s native %s' % (n, ps[0].ret if ps and ps[0].end is None else [str(p.end) for p in ps], r.get('ret', r['status'])))
    sigv = ctypes.CFUNCTYPE(ctypes.c_double, ctypes.POINTER(ctypes.c_double), ctypes.c_ulong)
    q = lambda c: (c[0] - 1.0) ** 2 + 3.0 * (c[1] + 0.5) ** 2 + 0.3 * c[0] * c[1]
    _, ps = run('@verif_c11_nm', [1, 2, lambda st: st.put_doubles([0.2, 0.1]), lambda st: st.put_doubles([0.5]), 1e-10, lambda st: st.alloc(16), lambda st: st.alloc(8 * 11)], user_fv(lambda comps: q(comps)), limits=Limits(max_steps=40000000))
    r = nat.call(so, 'verif_c11_nm', [('i32', 1), ('u32', 2), ('dbl[]', [0.2, 0.1]), ('dbl[]', [0.5]), 1e-10, ('dbl[]', [0.0, 0.0]), ('dbl[]', [0.0] * 11)], restype='void', fcb=lambda p, k: q([p[i] for i in range(k)]), fcb_name='verif_fv_ptr', fcb_sig=sigv); n += 1
    if len(ps) != 1 or ps[0].end is not None or r['status'] != 'ok': bad.append('Nelder-Mead: %s / %s' % ([str(p.end) for p in ps], r['status']))
    if bad: return [ob('translator-validation', 'broken', detail='; '.join(bad[:3]))]
    return [ob('translator-validation', 'discharged', backend='TV', detail='%d concrete minimisations: interpreter == native (bit-identical results for Find_Minimum)' % n)]

def replay(ctx, o):
    import ctypes
    from C02 import table_cb
    so = native(ctx); m = o['model'] or {}; key = o['key']
    if m.get('loop_step'):
        # the model is an arbitrary loop state of Brent (not reachable through the public entry by construction of a single call): native confirmation = the same clauses observed on a battery of objectives, brackets and tolerances
        tested = 0
        for f in (lambda x: (x - 0.3) ** 2, lambda x: math.cosh(x - 1.7), lambda x: abs(x + 0.4) ** 1.5, lambda x: x ** 4 - x, lambda x: -math.exp(-(x - 2.0) ** 2)):
            for (ax, bx, cx) in ((-3.0, 0.5, 4.0), (4.0, 0.5, -3.0), (-1.0, -0.9, 5.0), (0.0, 2.9, 3.0)):
                for tol in (1e-2, 1e-5, 1e-9):
                    if not (f(bx) <= f(ax) and f(bx) <= f(cx)): continue
                    r = nat.call(so, 'verif_c11_brent', [ax, bx, cx, tol, ('dbl[]', [0.0, 0.0])], fcb=f); tested += 1
                    lo, hi = min(ax, cx), max(ax, cx)
                    if r['status'] != 'ok': return True, 'native Brent on (%r,%r,%r), tol %r: %s' % (ax, bx, cx, tol, r['status'])
                    xm, fm = r['arrays'][0]; least = min(c[1] for c in r['calls']); out = [c[0][0] for c in r['calls'] if not (lo <= c[0][0] <= hi)]
                    if out or not (lo <= xm <= hi) or fm != f(xm) or fm > least:
                        return True, 'native Brent on (%r,%r,%r), tol %r: x_min=%r f_min=%r, least value seen %r, evaluations outside the bracket %s' % (ax, bx, cx, tol, xm, fm, least, out)
        return False, 'native Brent on %d objective / bracket / tolerance combinations: every evaluation and the result inside the bracket, f_min is the least value seen' % tested
    if key.startswith('C11/nm'):
        nd, mode = m['nd'], m['mode']; start = [q2f(q) for q in m['start']]; npts = nd + 1
        sigv = ctypes.CFUNCTYPE(ctypes.c_double, ctypes.POINTER(ctypes.c_double), ctypes.c_ulong)
        # a multimodal but smooth test objective; the model's own uninterpreted values cannot be reproduced by a closed form, so the native run checks the same clauses on this objective from the model's start
        obj = lambda c: sum((c[j] - 0.3 * (j + 1)) ** 2 * (1 + 0.5 * math.sin(3 * c[j])) for j in range(nd)) + 0.1 * math.cos(5 * sum(c))
        if mode == 0: pp = start; dl = [0.0]
        else:
            pp = start[:nd]; dl = [start[nd * (i + 1) + i] - start[i] for i in range(nd)]
            if mode == 1: dl = [dl[0]]
        if key == 'C11/nm/termination':
            # bowls with a negative minimum value, started on simplices whose values straddle zero (the spread test mixes signs there): the returned vertex values must satisfy the spread test
            for ndd, st_, dl_ in ((1, [1.0], [1.0]), (2, [1.0, 0.0], [1.0, 1.0]), (2, [0.2, 0.1], [0.5, 0.5]), (3, [1.0, 0.0, 0.0], [1.0, 1.0, 1.0])):
                off = 2.5; ob_ = lambda c: sum(x * x for x in c) - off
                def fo(p, k, ob_=ob_): return ob_([p[i] for i in range(k)])
                for ftol in (1e-3, 1e-8):
                    r = nat.call(so, 'verif_c11_nm', [('i32', 2), ('u32', ndd), ('dbl[]', st_), ('dbl[]', dl_), ftol, ('dbl[]', [0.0] * ndd), ('dbl[]', [0.0] * (3 + ndd + (ndd + 1) * ndd))], restype='void', fcb=fo, fcb_name='verif_fv_ptr', fcb_sig=sigv)
                    if r['status'] != 'ok': continue
                    yy = r['arrays'][3][1:2 + ndd]; hi_, lo_ = max(yy), min(yy); rt = 2 * abs(hi_ - lo_) / (abs(hi_) + abs(lo_) + 1e-10)
                    if not rt < ftol: return True, 'native Nelder-Mead on sum x^2 - 2.5 from %s (deltas %s), ftol %g returned after %d evaluations with vertex values %s: relative spread %.3g' % (st_, dl_, ftol, len(r['calls']), yy, rt)
            return False, 'native Nelder-Mead on bowls with a negative minimum: every return satisfies the spread test'
        seen = []
        def fv(p, k): c = [p[i] for i in range(k)]; v = obj(c); seen.append((c, v)); return v
        r = nat.call(so, 'verif_c11_nm', [('i32', mode), ('u32', nd), ('dbl[]', pp), ('dbl[]', dl), 1e-8, ('dbl[]', [0.0] * nd), ('dbl[]', [0.0] * (3 + nd + npts * nd))], restype='void', fcb=fv, fcb_name='verif_fv_ptr', fcb_sig=sigv)
        if r['status'] != 'ok': return False, 'native Nelder-Mead ended: ' + r['status']
        xmin = r['arrays'][2]; S = r['arrays'][3]; fmin = S[0]; y = S[1:1 + npts]; simp = [S[2 + nd + i * nd: 2 + nd + (i + 1) * nd] for i in range(npts)]
        docv = [[start[i * nd + j] for j in range(nd)] for i in range(npts)]
        bad = []
        if abs(fmin - obj(xmin)) > 1e-12 * max(1, abs(fmin)) or fmin != y[0] or xmin != simp[0]: bad.append('reported state inconsistent: fmin=%r f(xmin)=%r y0=%r' % (fmin, obj(xmin), y[0]))
        if any(abs(y[i] - obj(simp[i])) > 1e-12 * max(1, abs(y[i])) for i in range(npts)): bad.append('y[i] != f(vertex i)')
        if any(y[0] > y[i] for i in range(npts)): bad.append('not best-first')
        if any(fmin > obj(v) + 1e-12 for v in docv): bad.append('fmin=%r worse than a documented start vertex (%s)' % (fmin, [obj(v) for v in docv]))
        return bool(bad), 'native Nelder-Mead (mode %d, dim %d) from %s: %s' % (mode, nd, docv, '; '.join(bad) or 'all clauses hold on the test objective')
    if 'calls_x' not in m: return False, 'no model'
    f = table_cb([q2f(q) for q in m['calls_x']], [q2f(q) for q in m['calls_f']])
    if key.startswith('C11/bracket'):
        a, b = q2f(m['a']), q2f(m['b']); r = nat.call(so, 'verif_c11_bracket', [a, b, ('dbl[]', [0.0] * 6)], restype='void', fcb=f)
        if r['status'] != 'ok': return False, 'native Bracket: ' + r['status']
        ax, bx, cx, fa, fb, fc = r['arrays'][0]
        bad = not (fb <= fa and fb <= fc and (ax < bx < cx or cx < bx < ax) and fb <= f(a) and fb <= f(b))
        return bad, 'native Bracket(%r,%r) -> (ax,bx,cx)=(%r,%r,%r), (fa,fb,fc)=(%r,%r,%r)' % (a, b, ax, bx, cx, fa, fb, fc)
    if key.startswith('C11/brent'):
        ax, bx, cx, tol = [q2f(m[k]) for k in ('ax', 'bx', 'cx', 'tol')]; r = nat.call(so, 'verif_c11_brent', [ax, bx, cx, tol, ('dbl[]', [0.0, 0.0])], fcb=f)
        if r['status'] != 'ok': return False, 'native Brent: ' + r['status']
        xm, fm = r['arrays'][0]; least = min(c[1] for c in r['calls'])
        bad = fm > least or not (min(ax, cx) <= xm <= max(ax, cx)) or any(not (min(ax, cx) <= c[0][0] <= max(ax, cx)) for c in r['calls'])
        return bad, 'native Brent on (%r,%r,%r): x_min=%r f_min=%r, least value seen %r' % (ax, bx, cx, xm, fm, least)
    a, b, tol = q2f(m['a']), q2f(m['b']), q2f(m['tol'])
    r = nat.call(so, 'verif_c11_findmin', [a, b, tol], fcb=f)
    if r['status'] != 'ok': return False, 'native Find_Minimum: ' + r['status']
    fr = f(r['ret']); least = min(c[1] for c in r['calls'])
    if key == 'C11/findmax':
        r2 = nat.call(so, 'verif_c11_findmax', [a, b, tol], fcb=lambda x: -f(x)); return r2.get('ret') != r['ret'], 'native Find_Maximum(-f)=%r vs Find_Minimum(f)=%r' % (r2.get('ret'), r['ret'])
    return (fr > f(a) or fr > f(b) or fr > least), 'native Find_Minimum(%r,%r): f(result)=%r, f(a)=%r, f(b)=%r, least value seen %r' % (a, b, fr, f(a), f(b), least)
