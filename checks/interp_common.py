"""Shared by C01, C08, C09: the Interpolation objects, the representation invariant I, symbolic differentiation."""
import z3
from llsym import *
from check import *

SRCS = ['Numerics.cpp', 'Special_Functions.cpp', 'Utilities.cpp']
KEEP = ['verif_c01_build', 'verif_c01_layout', 'verif_c01_eval', 'verif_c01_call', 'verif_c01_deriv', 'verif_c01_locate', 'verif_c08_integrate', 'verif_c08_locmin', 'verif_c08_locmax',
        'verif_c08_globmin', 'verif_c08_globmax', 'verif_c08_setpref', 'verif_c08_multiply', 'verif_c09_copy', 'verif_c01_build2d', 'verif_c01_eval2d', 'verif_c08_globmin2d',
        'verif_c08_globmax2d', 'verif_c08_setpref2d', 'verif_c08_multiply2d', 'verif_c01_setcache2d', 'verif_c09_new', 'verif_c10_ctor', 'verif_c10_ctor2d', 'verif_c10_ctor_units']
NATIVE_SRCS = ['Numerics.cpp', 'Special_Functions.cpp', 'Utilities.cpp', 'Linear_Algebra.cpp', 'Integration.cpp', 'Statistics.cpp', 'Natural_Units.cpp']

GMOD = {}
def module(ctx):
    if 'm' not in GMOD: GMOD['m'] = ctx.lower(SRCS, 'C01.cpp', KEEP)
    return GMOD['m']
def native(ctx):
    return ctx.native(NATIVE_SRCS, 'C01.cpp')

def Abs(x): return z3.If(x >= 0, x, -x)
def Min(a, b): return z3.If(a <= b, a, b)
def Max(a, b): return z3.If(a >= b, a, b)

def layout(mod):
    it = Interp(mod); st = it.new_state()
    out = st.alloc(8 * 16)
    it.execute('@verif_c01_layout', [out], st)
    v = [st.load(out + 8 * i, 8) for i in range(16)]
    known_end = max(v[1:12]) + 24
    names = ['size', 'N', 'x_values', 'function_values', 'prefactor', 'a', 'b', 'c', 'd', 'jLast', 'correlated_calls', 'domain', 'size2d', 'x_int', 'y_int', 'prefactor2d']
    L = dict(zip(names, v))
    # layout guard: the free-field harnesses enumerate the object state member by member; a member they do not know makes their claims incomplete
    known_bytes = 4 + 4 + 24 * 2 + 8 + 24 * 4 + 4 + 1 + 3 + 24      # N, pad, x_values, function_values, prefactor, a..d, jLast, correlated_calls, pad, domain
    L['complete'] = (v[0] == known_bytes)
    return L

class Obj: pass

def layout_guard(L, what):
    if L['complete']: return []
    return [ob('layout-guard/' + what, 'undecided', detail='class Interpolation has members unknown to the representation invariant (sizeof %d): free-field (inductive) obligations are not run; history obligations on real-constructor objects still are' % L['size'])]

# ---- histories on real-constructor objects
OPS = {'interpolate': ('@verif_c01_eval', 1, []), 'derivative1': ('@verif_c01_deriv', 1, [1]), 'derivative0': ('@verif_c01_deriv', 1, [0]), 'integrate': ('@verif_c08_integrate', 2, []), 'locate': ('@verif_c01_locate', 1, []),
       'local_min': ('@verif_c08_locmin', 2, []), 'local_max': ('@verif_c08_locmax', 2, []), 'global_min': ('@verif_c08_globmin', 0, []), 'global_max': ('@verif_c08_globmax', 0, []),
       'set_prefactor': ('@verif_c08_setpref', 1, []), 'multiply': ('@verif_c08_multiply', 1, [])}
NATIVE_OP = {'interpolate': 0, 'derivative1': 1, 'derivative0': 5, 'integrate': 10, 'local_min': 11, 'local_max': 12, 'global_min': 13, 'global_max': 14, 'locate': 20, 'set_prefactor': 30, 'multiply': 31, 'copy': 40}

def run_history(mod, N, seq, prefix=''):
    """seq: list of (opname, [arg terms]); real constructor on symbolic tables, then the operations in order.  Returns (xs, ys, list of (state, last result))"""
    it = Interp(mod, limits=Limits(feas_ms=300)); st = it.new_state()      # short feasibility budget: 'unknown' keeps the path (sound, more paths)
    xs = [z3.Real('x%d' % i) for i in range(N)]; ys = [z3.Real('y%d' % i) for i in range(N)]
    for i in range(N - 1): st.pc.append(xs[i] < xs[i + 1])
    ps = it.execute('@verif_c09_new', [N, st.put_doubles(xs), st.put_doubles(ys)], st)
    live = [p for p in ps if p.end is None]
    if not live or len(live) != len(ps): raise Unsupported('constructor paths: %s' % [str(p.end) for p in ps])
    frontier = [(p.st, p.ret, None) for p in live]
    for name, args in seq:
        nxt = []
        for st_, obj, last in frontier:
            if name == 'copy':
                # copy-assign into a default-constructed second object and continue on the copy
                st2 = st_.fork(); L = layout(mod)
                dst = mkobj(it, st2, L, 3, 0, 0, tag='cp')
                q = it.execute('@verif_c09_copy', [dst.addr, obj], st2)
                nxt += [(p.st, dst.addr, last) for p in q if p.end is None]; continue
            fn, na, extra = OPS[name]
            for p in it.execute(fn, [obj] + list(args) + extra, st_.fork()):
                if p.end is None: nxt.append((p.st, obj, p.ret if p.ret is not None else last))
                elif p.end.kind != 'exit': raise Unsupported('history op %s ended with %s' % (name, p.end))
        frontier = nxt
        if len(frontier) > 600: raise Unsupported('history frontier too large')
    return xs, ys, frontier


def mkobj(it, st, L, N, jLast=0, corr=0, tag='', pref=None, coeffs=None):
    """Interpolation object with free symbolic fields (tables, coefficients, prefactor) and a given cache state"""
    o = Obj(); o.N = N
    o.xs = [z3.Real('x%s%d' % (tag, i)) for i in range(N)]; o.ys = [z3.Real('y%s%d' % (tag, i)) for i in range(N)]
    if coeffs is None:
        o.a = [z3.Real('a%s%d' % (tag, i)) for i in range(N - 1)]; o.b = [z3.Real('b%s%d' % (tag, i)) for i in range(N - 1)]
        o.c = [z3.Real('c%s%d' % (tag, i)) for i in range(N - 1)]; o.d = [z3.Real('d%s%d' % (tag, i)) for i in range(N - 1)]
    else: o.a, o.b, o.c, o.d = coeffs
    o.pref = z3.Real('pref' + tag) if pref is None else pref
    o.addr = st.alloc(L['size'])
    st.store(o.addr + L['N'], 4, N)
    std_vector_double(st, it.mod, o.addr + L['x_values'], o.xs)
    std_vector_double(st, it.mod, o.addr + L['function_values'], o.ys)
    st.store(o.addr + L['prefactor'], 8, o.pref)
    for nm in 'abcd': std_vector_double(st, it.mod, o.addr + L[nm], getattr(o, nm))
    st.store(o.addr + L['jLast'], 4, jLast); st.store(o.addr + L['correlated_calls'], 1, corr)
    std_vector_double(st, it.mod, o.addr + L['domain'], [o.xs[0], o.xs[N - 1]])
    o.order = [o.xs[i] < o.xs[i + 1] for i in range(N - 1)]
    return o

def seg_terms(o, j):
    h = o.xs[j + 1] - o.xs[j]; dl = o.ys[j + 1] - o.ys[j]
    m0 = o.c[j]; m1 = 3 * o.a[j] * h * h + 2 * o.b[j] * h + o.c[j]
    return h, dl, m0, m1

def inv_segment(o, j):
    """conjuncts of the representation invariant I that concern segment j"""
    h, dl, m0, m1 = seg_terms(o, j)
    return [o.d[j] == o.ys[j],
            o.a[j] * h * h * h + o.b[j] * h * h + o.c[j] * h + o.d[j] == o.ys[j + 1],
            m0 * dl >= 0, m1 * dl >= 0, Abs(m0) * h <= 3 * Abs(dl), Abs(m1) * h <= 3 * Abs(dl)]

def inv_link(o, j):
    """C1 continuity between segment j and j+1"""
    h, dl, m0, m1 = seg_terms(o, j)
    return [m1 == o.c[j + 1]]

def cubic(o, j, x):
    t = x - o.xs[j]
    return o.a[j] * t * t * t + o.b[j] * t * t + o.c[j] * t + o.d[j]

def which_segment(pc, o, x, lin_only=True):
    """the segment index j with pc => x_j <= x <= x_{j+1}; None if none is implied"""
    for j in range(o.N - 1):
        so = z3.Solver(); so.set('timeout', 5000); so.add(*pc); so.add(z3.Not(z3.And(o.xs[j] <= x, x <= o.xs[j + 1])))
        if so.check() == z3.unsat: return j
    return None

# ---- formal differentiation of polynomial/rational z3 terms
def ddx(t, x):
    if t.eq(x): return z3.RealVal(1)
    if z3.is_rational_value(t) or z3.is_int_value(t): return z3.RealVal(0)
    if z3.is_const(t): return z3.RealVal(0)
    k = t.decl().kind(); ch = t.children()
    if k == z3.Z3_OP_ADD:
        r = ddx(ch[0], x)
        for c in ch[1:]: r = r + ddx(c, x)
        return r
    if k == z3.Z3_OP_SUB:
        r = ddx(ch[0], x)
        for c in ch[1:]: r = r - ddx(c, x)
        return r
    if k == z3.Z3_OP_UMINUS: return -ddx(ch[0], x)
    if k == z3.Z3_OP_MUL:
        r = None
        for i in range(len(ch)):
            term = ddx(ch[i], x)
            for j2 in range(len(ch)):
                if j2 != i: term = term * ch[j2]
            r = term if r is None else r + term
        return r
    if k == z3.Z3_OP_DIV:
        u, v = ch
        return (ddx(u, x) * v - u * ddx(v, x)) / (v * v)
    if k == z3.Z3_OP_TO_REAL: return z3.RealVal(0)
    if k == z3.Z3_OP_ITE: return z3.If(ch[0], ddx(ch[1], x), ddx(ch[2], x))
    raise Unsupported('cannot differentiate ' + t.decl().name())

def mentions(t, x):
    if t.eq(x): return True
    return any(mentions(c, x) for c in t.children())
