"""Shared by C04, C05, C15, C16 (and the C10 shape guards): driving harness/LA.cpp's verif_la on the real Linear_Algebra.cpp"""
import itertools
import z3
from llsym import *
from check import *
import native as nat

SRCS = ['Linear_Algebra.cpp', 'Special_Functions.cpp']
NATIVE_SRCS = ['Numerics.cpp', 'Special_Functions.cpp', 'Utilities.cpp', 'Linear_Algebra.cpp', 'Integration.cpp', 'Statistics.cpp', 'Natural_Units.cpp']
G = {}
def module(ctx):
    if 'm' not in G: G['m'] = ctx.lower(SRCS, 'LA.cpp', ['verif_la'])
    return G['m']
def native(ctx): return ctx.native(NATIVE_SRCS, 'LA.cpp')

def syms(name, r, c): return [[z3.Real('%s%d_%d' % (name, i, j)) for j in range(c)] for i in range(r)]
def flat(M): return [x for row in M for x in row]

class Res:
    pass

def run_la(op, A=None, B=None, s=0.0, i=0, j=0, C=None, D=None, shapeA=None, shapeB=None, intercept=None, pre=(), limits=None, vecA=False, vecB=False, havoc=None):
    """A, B: lists of rows (matrices) or flat lists with vecA/vecB; returns (interp, list of Res)"""
    mod = G['m']; it = Interp(mod, intercept=intercept, limits=limits); st = it.new_state()
    if havoc: it.havoc.update(havoc)
    st.pc += list(pre)
    def prep(M, shape, isvec):
        if M is None: return (0, 0, st.alloc(8)) if shape is None else (shape[0], shape[1], st.alloc(8))
        if isvec: return len(M), 1, st.put_doubles(M) if M else st.alloc(8)
        r = len(M); c = len(M[0]) if r else 0
        if shape is not None: r, c = shape
        fl = flat(M)
        return r, c, (st.put_doubles(fl) if fl else st.alloc(8))
    r1, c1, pa = prep(A, shapeA, vecA); r2, c2, pb = prep(B, shapeB, vecB)
    pc_ = st.put_doubles(flat(C)) if C else st.alloc(8); pd = st.put_doubles(flat(D)) if D else st.alloc(8)
    out = st.alloc(8 * 64); shp = st.alloc(4 * 4)
    paths = it.execute('@verif_la', [op & 0xffffffff, r1, c1, pa, r2, c2, pb, s, i & 0xffffffff, j & 0xffffffff, pc_, pd, out, shp], st)
    res = []
    for p in paths:
        r = Res(); r.st = p.st; r.pc = p.st.pc; r.end = p.end; r.events = p.st.events
        if p.end is None:
            r.shape = [p.st.load(shp + 4 * k, 4) for k in range(4)]
            n = r.shape[0] * r.shape[1]
            r.out = [p.st.load(out + 8 * k, 8, True) for k in range(n)]
            r.rawout = out
        res.append(r)
    return it, res

def mat(r, rows, cols): return [[r.out[i * cols + j] for j in range(cols)] for i in range(rows)]

def same(a, b):
    """structural identity of two values"""
    if is_sym(a) and is_sym(b): return a.eq(b)
    if is_sym(a) or is_sym(b): return False
    return a == b

def eq_ob(name, pc, got, want, mv, key, timeout=20000, sample=False):
    """entry equals its definition: structural identity or solver-proved equality"""
    if same(got, want): return ob(name, 'discharged', detail='structurally identical to the definition', key=key)
    return prove(name, pc, toR(got) == toR(want), timeout, mv, key=key, sample=sample)

def native_la(ctx, op, A, B=None, s=0.0, i=0, j=0, C=None, D=None, shapeA=None, shapeB=None, vecA=False, vecB=False, read_globals=()):
    so = native(ctx)
    def prep(M, shape, isvec):
        if M is None: return (shape or (0, 0)) + ([0.0],) if shape else (0, 0, [0.0])
        if isvec: return (len(M), 1, list(M) or [0.0])
        r = len(M); c = len(M[0]) if r else 0
        if shape: r, c = shape
        return (r, c, flat(M) or [0.0])
    r1, c1, fa = prep(A, shapeA, vecA); r2, c2, fb = prep(B, shapeB, vecB)
    r = nat.call(so, 'verif_la', [('i32', op), ('u32', r1), ('u32', c1), ('dbl[]', fa), ('u32', r2), ('u32', c2), ('dbl[]', fb), float(s), ('u32', i), ('u32', j),
                                  ('dbl[]', flat(C) if C else [0.0]), ('dbl[]', flat(D) if D else [0.0]), ('dbl[]', [0.0] * 64), ('u32[]', [0] * 4)], restype='int', read_globals=read_globals)
    if r['status'] == 'ok':
        r['shape'] = r['arrays'][5]; r['out'] = r['arrays'][4]
    return r

def fl(q): return q2f(q) if isinstance(q, list) else float(q)
def model_mat(m, k, r, c):
    v = [fl(q) for q in m[k]]
    return [[v[i * c + j] for j in range(c)] for i in range(r)]
