"""C08 - Interpolation integrals and extrema are those of the interpolated curve (DESIGN.md section 2/C08)"""
from interp_common import *
import native as nat

EXPLANATION = ('C08: real Interpolation::Integrate on an object with free fields: result equals the exact integral of the located segment cubics (reference antiderivative built by the checker), '
               'd/dx2 = Interpolate(x2), zero on equal limits, antisymmetric; Local/Global extrema (1D, 2D) equal the min/max over {curve at the limits} U {prefactor*knot values inside}, '
               'which by C01 (monotone between knots) are the extrema of the curve, for a prefactor of either sign.')
BOUNDS = {'quick': {'N': [3, 4], 'grid2d': [[3, 3]]}, 'thorough': {'N': [3, 4, 5, 6], 'grid2d': [[3, 3], [3, 4], [4, 4]]}}
NOT_DECIDED = ['rounding', 'N beyond the bound']
ASSUMPTIONS = ['doubles are exact reals', 'object state: any table with strictly increasing abscissae, free coefficients constrained by value continuity (d[j]=y[j], cubic(x[j+1])=y[j+1]) where noted, free prefactor of either sign',
               'that the min/max over end values and interior knots is the min/max of the curve relies on C01 (segment monotone between its end values)']

QX1, QX2 = z3.Real('q1'), z3.Real('q2')

def _obj(N, jl, corr, cont=False):
    mod = GMOD['m']; L = GMOD['L']; it = Interp(mod); st = it.new_state(); o = mkobj(it, st, L, N, jl, corr); st.pc += o.order
    if cont:
        for j in range(N - 1): st.pc += inv_segment(o, j)[:2]
    return it, st, o

def _zone(o, j, x):
    N = o.N; c01 = RV(1e-2)
    return z3.Or(z3.And(o.xs[j] <= x, x <= o.xs[j + 1]), z3.And(j == 0, x < o.xs[0], o.xs[0] - x < c01 * (o.xs[1] - o.xs[0])),
                 z3.And(j == N - 2, x > o.xs[N - 1], x - o.xs[N - 1] < c01 * (o.xs[N - 1] - o.xs[N - 2])))
def _seg(pc, o, x):
    for j in range(o.N - 1):
        so = z3.Solver(); so.set('timeout', 5000); so.add(*pc); so.add(z3.Not(_zone(o, j, x)))
        if so.check() == z3.unsat: return j
    return None
def antider(o, j, x):
    t = x - o.xs[j]
    return o.a[j] / 4 * t * t * t * t + o.b[j] / 3 * t * t * t + o.c[j] / 2 * t * t + o.d[j] * t

def job_integrate(N, jl, corr):
    res = []; tag = 'integrate/N%d/j%d/c%d' % (N, jl, corr)
    it, st, o = _obj(N, jl, corr)
    mv = {'xs': o.xs, 'ys': o.ys, 'a': o.a, 'b': o.b, 'c': o.c, 'd': o.d, 'pref': o.pref, 'x1': QX1, 'x2': QX2, 'N': N, 'jLast': jl, 'corr': corr, 'op': 10}
    paths = it.execute('@verif_c08_integrate', [o.addr, QX1, QX2], st)
    it2, st2, o2 = _obj(N, jl, corr)
    rev = it2.execute('@verif_c08_integrate', [o2.addr, QX2, QX1], st2)
    nret = 0
    for pi, p in enumerate(paths):
        pc = p.st.pc
        if p.end is not None:
            if p.end.kind == 'exit':
                out = lambda x: z3.Or(x < o.xs[0], x > o.xs[N - 1])
                res.append(prove('%s/exit-only-outside[%d]' % (tag, pi), pc, z3.Or(out(QX1), out(QX2)), 10000, mv, key='C08/integrate/exit-only-outside'))
            else: res.append(prove('%s/no-%s[%d]' % (tag, p.end.kind, pi), pc, z3.BoolVal(False), 10000, mv, key='C08/integrate/' + p.end.kind, detail=str(p.end)))
            continue
        nret += 1; v = toR(p.ret)
        lo = z3.If(QX1 <= QX2, QX1, QX2); hi = z3.If(QX1 <= QX2, QX2, QX1)
        j1 = _seg(pc, o, lo); j2 = _seg(pc, o, hi)
        if j1 is None or j2 is None or j2 < j1:
            res.append(ob('%s/segments[%d]' % (tag, pi), 'undecided', detail='segments of the limits not implied by the path (%s,%s)' % (j1, j2))); continue
        ref = z3.RealVal(0)
        for j in range(j1, j2 + 1):
            left = lo if j == j1 else o.xs[j]; right = hi if j == j2 else o.xs[j + 1]
            ref = ref + (antider(o, j, right) - antider(o, j, left))
        ref = z3.If(QX1 <= QX2, o.pref * ref, -o.pref * ref)
        res.append(prove('%s/exact-integral[%d,seg%d..%d]' % (tag, pi, j1, j2), pc, v == ref, 60000, mv, key='C08/integrate/exact', sample=(pi == 0 and N == 3 and jl == 0 and corr == 0)))
        res.append(prove('%s/equal-limits-zero[%d]' % (tag, pi), pc + [QX1 == QX2], v == 0, 30000, mv, key='C08/integrate/equal-limits'))
        # derivative with respect to the upper limit is the interpolant (formal derivative of the returned term)
        try:
            dv = ddx(v, QX2)
            res.append(prove('%s/d-dx2-is-interpolate[%d]' % (tag, pi), pc + [QX1 != QX2] + [c for j in range(N - 1) for c in inv_segment(o, j)[:2]], dv == z3.If(QX1 <= QX2, o.pref * cubic(o, j2, QX2), o.pref * cubic(o, j1, QX2)), 60000, mv, key='C08/integrate/derivative'))
        except Unsupported as e:
            res.append(ob('%s/d-dx2-is-interpolate[%d]' % (tag, pi), 'undecided', detail=str(e)))
        for qi, r in enumerate(rev):
            if r.end is not None: continue
            so = z3.Solver(); so.set('timeout', 5000); so.add(*(pc + r.st.pc))
            if so.check() == z3.unsat: continue
            res.append(prove('%s/antisymmetric[%d,%d]' % (tag, pi, qi), pc + r.st.pc, v == -toR(r.ret), 60000, mv, key='C08/integrate/antisymmetric'))
    if nret == 0: res.append(ob(tag + '/reach', 'broken', detail='no returning path'))
    return res

def job_local(N, jl, corr, which):
    """Local_Minimum / Local_Maximum == min / max over S = {F(x1), F(x2)} U {pref*y_k : x1 <= x_k <= x2}"""
    res = []; tag = 'local_%s/N%d/j%d/c%d' % (which, N, jl, corr)
    it, st, o = _obj(N, jl, corr, cont=True)
    st.pc += [QX1 >= o.xs[0], QX2 <= o.xs[N - 1]]
    mv = {'xs': o.xs, 'ys': o.ys, 'a': o.a, 'b': o.b, 'c': o.c, 'd': o.d, 'pref': o.pref, 'x1': QX1, 'x2': QX2, 'N': N, 'jLast': jl, 'corr': corr, 'op': 11 if which == 'min' else 12}
    paths = it.execute('@verif_c08_locmin' if which == 'min' else '@verif_c08_locmax', [o.addr, QX1, QX2], st)
    le = (lambda a, b: a <= b) if which == 'min' else (lambda a, b: a >= b)
    nret = 0
    for pi, p in enumerate(paths):
        pc = p.st.pc
        if p.end is not None:
            if p.end.kind == 'exit':
                res.append(prove('%s/exit-only-misordered[%d]' % (tag, pi), pc, QX2 < QX1, 10000, mv, key='C08/local/exit-only-misordered'))
            else: res.append(prove('%s/no-%s[%d]' % (tag, p.end.kind, pi), pc, z3.BoolVal(False), 10000, mv, key='C08/local/' + p.end.kind, detail=str(p.end)))
            continue
        nret += 1; v = toR(p.ret)
        j1 = _seg(pc, o, QX1); j2 = _seg(pc, o, QX2)
        if j1 is None or j2 is None: res.append(ob('%s/segments[%d]' % (tag, pi), 'undecided', detail='segments not implied')); continue
        F1 = o.pref * cubic(o, j1, QX1); F2 = o.pref * cubic(o, j2, QX2)
        res.append(prove('%s/bounds-left-end[%d]' % (tag, pi), pc, le(v, F1), 30000, mv, key='C08/local/%s/bounds-end' % which))
        res.append(prove('%s/bounds-right-end[%d]' % (tag, pi), pc, le(v, F2), 30000, mv, key='C08/local/%s/bounds-end' % which))
        for k in range(N):
            res.append(prove('%s/bounds-knot%d[%d]' % (tag, k, pi), pc + [QX1 <= o.xs[k], o.xs[k] <= QX2], le(v, o.pref * o.ys[k]), 30000, mv, key='C08/local/%s/bounds-knot' % which, sample=(pi == 0 and k == 1 and N == 3 and jl == 0 and corr == 0)))
        att = [v == F1, v == F2] + [z3.And(QX1 <= o.xs[k], o.xs[k] <= QX2, v == o.pref * o.ys[k]) for k in range(N)]
        res.append(prove('%s/attained[%d]' % (tag, pi), pc, z3.Or(*att), 30000, mv, key='C08/local/%s/attained' % which))
    if nret == 0: res.append(ob(tag + '/reach', 'broken', detail='no returning path'))
    return res

def job_global(N, which):
    res = []; tag = 'global_%s/N%d' % (which, N)
    it, st, o = _obj(N, 0, 0, cont=True)
    mv = {'xs': o.xs, 'ys': o.ys, 'a': o.a, 'b': o.b, 'c': o.c, 'd': o.d, 'pref': o.pref, 'x1': 0.0, 'x2': 0.0, 'N': N, 'jLast': 0, 'corr': 0, 'op': 13 if which == 'min' else 14}
    paths = it.execute('@verif_c08_globmin' if which == 'min' else '@verif_c08_globmax', [o.addr], st)
    le = (lambda a, b: a <= b) if which == 'min' else (lambda a, b: a >= b)
    for pi, p in enumerate(paths):
        if p.end is not None:
            res.append(prove('%s/no-%s[%d]' % (tag, p.end.kind, pi), p.st.pc, z3.BoolVal(False), 10000, mv, key='C08/global/' + p.end.kind, detail=str(p.end))); continue
        v = toR(p.ret)
        for k in range(N):
            res.append(prove('%s/bounds-knot%d[%d]' % (tag, k, pi), p.st.pc, le(v, o.pref * o.ys[k]), 30000, mv, key='C08/global/%s/bounds-knot' % which))
        res.append(prove('%s/attained[%d]' % (tag, pi), p.st.pc, z3.Or(*[v == o.pref * o.ys[k] for k in range(N)]), 30000, mv, key='C08/global/%s/attained' % which))
    return res

def job_global2d(NX, NY, which, via):
    """2D Global_* against prefactor * grid values; prefactor set by Set_Prefactor or by Multiply after Set_Prefactor"""
    mod = GMOD['m']; res = []; tag = 'global2d_%s/%dx%d/%s' % (which, NX, NY, via)
    it = Interp(mod); st = it.new_state()
    xs = [z3.Real('x%d' % i) for i in range(NX)]; ys = [z3.Real('y%d' % i) for i in range(NY)]; fs = [z3.Real('f%d' % i) for i in range(NX * NY)]
    for i in range(NX - 1): st.pc.append(xs[i] < xs[i + 1])
    for i in range(NY - 1): st.pc.append(ys[i] < ys[i + 1])
    p = it.execute('@verif_c01_build2d', [NX, NY, st.put_doubles(xs), st.put_doubles(ys), st.put_doubles(fs), -1.0, -1.0, -1.0], st)
    if len(p) != 1 or p[0].end is not None: return [ob(tag + '/ctor', 'undecided', detail=str(p))]
    st = p[0].st; objp = p[0].ret; pr = z3.Real('pref'); m2 = z3.Real('mult')
    it.execute('@verif_c08_setpref2d', [objp, pr], st); eff = pr
    if via == 'multiply': it.execute('@verif_c08_multiply2d', [objp, m2], st); eff = pr * m2
    mv = {'xs': xs, 'ys': ys, 'fs': fs, 'pref': eff, 'NX': NX, 'NY': NY, 'op': 13 if which == 'min' else 14}
    paths = it.execute('@verif_c08_globmin2d' if which == 'min' else '@verif_c08_globmax2d', [objp], st)
    le = (lambda a, b: a <= b) if which == 'min' else (lambda a, b: a >= b)
    for pi, q in enumerate(paths):
        if q.end is not None:
            res.append(prove('%s/no-%s[%d]' % (tag, q.end.kind, pi), q.st.pc, z3.BoolVal(False), 10000, mv, key='C08/global2d/' + q.end.kind, detail=str(q.end))); continue
        v = toR(q.ret)
        for k in range(NX * NY):
            res.append(prove('%s/bounds-node%d[%d]' % (tag, k, pi), q.st.pc, le(v, eff * fs[k]), 30000, mv, key='C08/global2d/%s/bounds-node' % which))
        res.append(prove('%s/attained[%d]' % (tag, pi), q.st.pc, z3.Or(*[v == eff * f for f in fs]), 30000, mv, key='C08/global2d/%s/attained' % which))
    return res

HP, HM = z3.Real('hp'), z3.Real('hm')
SEQS = {'set': [('set_prefactor', [HP])], 'multiply': [('multiply', [HM])], 'set,multiply': [('set_prefactor', [HP]), ('multiply', [HM])], 'multiply,multiply': [('multiply', [HP]), ('multiply', [HM])],
        'multiply,set': [('multiply', [HM]), ('set_prefactor', [HP])], 'set,eval,multiply': [('set_prefactor', [HP]), ('interpolate', [z3.Real('h1')]), ('multiply', [HM])]}
EFF = {'set': HP, 'multiply': HM, 'set,multiply': HP * HM, 'multiply,multiply': HP * HM, 'multiply,set': HP, 'set,eval,multiply': HP * HM}

def job_history_extrema(N, sname, which):
    """real-constructor object, a sequence of Set_Prefactor/Multiply calls, then Global_Minimum/Maximum: equals min/max of (effective prefactor * knot values)"""
    mod = GMOD['m']; res = []; tag = 'history-global_%s/N%d/%s' % (which, N, sname)
    xs, ys, fr = run_history(mod, N, SEQS[sname] + [('global_' + which, [])])
    eff = EFF[sname]; le = (lambda a, b: a <= b) if which == 'min' else (lambda a, b: a >= b)
    mv = {'xs': xs, 'ys': ys, 'hp': HP, 'hm': HM, 'N': N, 'seq': sname, 'which': which}
    dom = [z3.Real('h1') >= xs[0], z3.Real('h1') <= xs[N - 1]]
    for pi, (st, _, v) in enumerate(fr):
        v = toR(v)
        for k in range(N): res.append(prove('%s/bounds-knot%d[%d]' % (tag, k, pi), st.pc + dom, le(v, eff * ys[k]), 30000, mv, key='C08/history-global/%s/bounds-knot' % which))
        res.append(prove('%s/attained[%d]' % (tag, pi), st.pc + dom, z3.Or(*[v == eff * y for y in ys]), 30000, mv, key='C08/history-global/%s/attained' % which))
    if not fr: res.append(ob(tag + '/reach', 'broken', detail='no path'))
    return res

def jobs(ctx):
    GMOD['L'] = layout(module(ctx)); b = BOUNDS[ctx.tier]; J = []
    for sn in SEQS:
        for w in ('min', 'max'): J.append((job_history_extrema, (3, sn, w)))
    for nx, ny in b['grid2d']:
        for w in ('min', 'max'):
            for via in ('set', 'multiply'): J.append((job_global2d, (nx, ny, w, via)))
    if not GMOD['L']['complete']: return J + [(layout_guard, (GMOD['L'], 'C08'))]
    for N in b['N']:
        for jl, corr in [(0, 0), (N - 2, 1)] + ([(1, 1)] if N > 3 else []):
            J.append((job_integrate, (N, jl, corr)))
            for w in ('min', 'max'): J.append((job_local, (N, jl, corr, w)))
        for w in ('min', 'max'): J.append((job_global, (N, w)))
    return J

def validate(ctx):
    mod = module(ctx); so = native(ctx); L = layout(mod); bad = []; n = 0
    xs = [0.0, 0.5, 2.5, 2.75, 7.0]; ys = [1.0, 3.0, -2.0, -2.0, 5.5]; N = 5
    r = nat.call(so, 'verif_c01_build', [('u32', N), ('dbl[]', xs), ('dbl[]', ys), -1.0, -1.0] + [('dbl[]', [0.0] * N)] * 6 + [('dbl[]', [0.0] * 8)], restype='void')
    A, B, C, D = [r['arrays'][2 + k][:N - 1] for k in range(4)]
    for pref in (1.0, -2.0):
        for (x1, x2) in ((0.1, 6.0), (2.6, 2.7), (0.5, 2.75), (6.5, 0.2), (3.0, 3.0)):
            for op, fn in ((10, '@verif_c08_integrate'), (11, '@verif_c08_locmin'), (12, '@verif_c08_locmax')):
                it = Interp(mod); st = it.new_state(); o = mkobj(it, st, L, N, 1, 1, pref=pref, coeffs=(A, B, C, D))
                for i in range(N): st.mem[st.load(o.addr + L['x_values'], 8) + 8 * i] = (8, xs[i]); st.mem[st.load(o.addr + L['function_values'], 8) + 8 * i] = (8, ys[i])
                dm = st.load(o.addr + L['domain'], 8); st.mem[dm] = (8, xs[0]); st.mem[dm + 8] = (8, xs[-1])
                q = it.execute(fn, [o.addr, x1, x2], st)
                rr = nat.call(so, 'verif_c01_raw', [('u32', N), ('dbl[]', xs), ('dbl[]', ys), ('dbl[]', A), ('dbl[]', B), ('dbl[]', C), ('dbl[]', D), pref, ('u32', 1), ('i32', 1), ('i32', op), x1, x2])
                n += 1
                mine = 'exit' if q[0].end is not None and q[0].end.kind == 'exit' else q[0].ret; theirs = 'exit' if rr['status'] == 'exit' else rr.get('ret')
                if mine != theirs and not (isinstance(mine, float) and isinstance(theirs, float) and abs(mine - theirs) <= 1e-12 * max(abs(mine), abs(theirs))): bad.append('op %d (%r,%r) pref %r: interp %s native %s' % (op, x1, x2, pref, mine, theirs))
    if bad: return [ob('translator-validation', 'broken', detail='; '.join(bad[:4]))]
    return [ob('translator-validation', 'discharged', backend='TV', detail='%d concrete Integrate/Local_* calls: interpreter == native' % n)]

def replay(ctx, o):
    so = native(ctx); m = o['model'] or {}; key = o['key']
    if 'xs' not in m: return False, 'no model'
    xs = [q2f(q) for q in m['xs']]; ys = [q2f(q) for q in m['ys']]
    if key.startswith('C08/history-global'):
        if any(a >= b for a, b in zip(xs, xs[1:])): return False, 'abscissae collapse'
        hp, hm = q2f(m['hp']), q2f(m['hm']); seq = m['seq']; ops = []; a = []
        for nme in seq.split(','):
            ops.append({'set': 30, 'multiply': 31, 'eval': 0}[nme]); a.append({'set': hp, 'multiply': (hm if (nme == 'multiply' and not (seq == 'multiply,multiply' and len(ops) == 1)) else hp), 'eval': 0.5 * (xs[0] + xs[1])}[nme])
        ops.append(13 if m['which'] == 'min' else 14); a.append(0.0)
        r = nat.call(so, 'verif_c09_history', [('u32', len(xs)), ('dbl[]', xs), ('dbl[]', ys), ('u32', len(ops)), ('i32[]', ops), ('dbl[]', a), ('dbl[]', [0.0] * len(ops))])
        if r['status'] != 'ok': return True, 'native history ended: %s' % r['status']
        eff = {'set': hp, 'multiply': hm, 'set,multiply': hp * hm, 'multiply,multiply': hp * hm, 'multiply,set': hp, 'set,eval,multiply': hp * hm}[seq]
        vals = [eff * y for y in ys]; tru = min(vals) if m['which'] == 'min' else max(vals); sc = max(abs(t) for t in vals) or 1.0
        return abs(r['ret'] - tru) > 1e-9 * sc, 'native [%s] then Global_%s = %r; effective prefactor %r times knot values gives %r' % (seq, m['which'], r['ret'], eff, tru)
    if any(a >= b for a, b in zip(xs, xs[1:])): return False, 'abscissae collapse in double precision'
    pref = q2f(m['pref'])
    if key.startswith('C08/global2d'):
        NX, NY = m['NX'], m['NY']; fs = [q2f(q) for q in m['fs']]
        r = nat.call(so, 'verif_c01_raw2d', [('u32', NX), ('u32', NY), ('dbl[]', xs), ('dbl[]', ys), ('dbl[]', fs), pref, ('u32', 0), ('i32', 0), ('u32', 0), ('i32', 0), ('i32', m['op']), 0.0, 0.0])
        if r['status'] != 'ok': return True, 'native 2D Global extremum ended: %s' % r
        vals = [pref * f for f in fs]; v = r['ret']; tru = min(vals) if m['op'] == 13 else max(vals); sc = max(abs(t) for t in vals) or 1.0
        bad = (v > tru + 1e-9 * sc) if m['op'] == 13 else (v < tru - 1e-9 * sc)
        bad = bad or abs(v - tru) > 1e-9 * sc
        return bad, 'native 2D Global_%s = %r with prefactor %r; grid nodes times prefactor have %s %r' % ('Minimum' if m['op'] == 13 else 'Maximum', v, pref, 'min' if m['op'] == 13 else 'max', tru)
    N = len(xs); co = [[q2f(q) for q in m[k]] for k in 'abcd']
    x1 = q2f(m['x1']) if isinstance(m['x1'], list) else 0.0; x2 = q2f(m['x2']) if isinstance(m['x2'], list) else 0.0
    def call(op, a, b=0.0):
        return nat.call(so, 'verif_c01_raw', [('u32', N), ('dbl[]', xs), ('dbl[]', ys)] + [('dbl[]', c) for c in co] + [pref, ('u32', m['jLast']), ('i32', m['corr']), ('i32', op), a, b])
    r = call(m['op'], x1, x2)
    if key.startswith('C08/integrate'):
        if r['status'] != 'ok': return xs[0] <= min(x1, x2) and max(x1, x2) <= xs[-1], 'native Integrate(%r,%r) ended: %s' % (x1, x2, r)
        # exact reference in rational arithmetic from the model
        from fractions import Fraction as Fr
        X = [Fr(*q) for q in m['xs']]; CO = [[Fr(*q) for q in m[k]] for k in 'abcd']; P = Fr(*m['pref']); a1 = Fr(*m['x1']); a2 = Fr(*m['x2'])
        lo, hi = min(a1, a2), max(a1, a2); tot = Fr(0)
        for j in range(N - 1):
            l = max(lo, X[j]) if j > 0 else lo; h = min(hi, X[j + 1]) if j < N - 2 else hi
            if j == 0: l = lo if lo < X[1] else None
            if l is None or h is None or h <= l: continue
            F = lambda x: CO[0][j] / 4 * (x - X[j]) ** 4 + CO[1][j] / 3 * (x - X[j]) ** 3 + CO[2][j] / 2 * (x - X[j]) ** 2 + CO[3][j] * (x - X[j])
            tot += F(h) - F(l)
        ref = float(P * tot * (1 if a1 <= a2 else -1)); v = r['ret']
        sc = max(abs(ref), abs(v), abs(pref) * max(abs(t) for t in ys + [1e-300]) * abs(x2 - x1), 1e-300)
        return abs(v - ref) > 1e-8 * sc, 'native Integrate(%r,%r) = %r, exact integral of the segment cubics = %r' % (x1, x2, v, ref)
    if r['status'] != 'ok': return (x1 <= x2 and xs[0] <= x1 and x2 <= xs[-1]), 'native extremum call ended: %s' % r
    v = r['ret']; ismin = m['op'] in (11, 13)
    if m['op'] in (11, 12):
        pts = [x1, x2] + [t for t in xs if x1 <= t <= x2]
    else: pts = list(xs)
    vals = []
    for t in pts:
        rr = call(0, t)
        if rr['status'] == 'ok': vals.append((rr['ret'], t))
    if not vals: return False, 'could not evaluate the curve natively'
    tru, at = (min(vals) if ismin else max(vals)); sc = max(abs(t[0]) for t in vals) or 1.0
    bad = (v > tru + 1e-9 * sc) if ismin else (v < tru - 1e-9 * sc)
    notatt = abs(v - tru) > 1e-9 * sc
    return (bad or notatt), 'native %s(%r,%r) = %r but Interpolate(%r) = %r (prefactor %r)' % ({11: 'Local_Minimum', 12: 'Local_Maximum', 13: 'Global_Minimum', 14: 'Global_Maximum'}[m['op']], x1, x2, v, at, tru, pref)
