"""C01 - Interpolants reproduce the data and never overshoot it (DESIGN.md section 2/C01)"""
import itertools, math
from fractions import Fraction
from interp_common import *
import native as nat

EXPLANATION = ('C01: ctor |- I (real Interpolation constructor on symbolic tables), I |- segment facts (real Interpolate/Derivative on an object with free fields, '
               'every cache state), formal derivatives, line and parabola reproduction, bilinear 2D facts.')
BOUNDS = {'quick': {'N': [3, 4, 5], 'N_eval': [3, 4], 'grids': [[3, 3], [3, 4]], 'unit_factors': 'symbolic >0 at N=3,4'},
          'thorough': {'N': [3, 4, 5, 6, 7], 'N_eval': [3, 4, 5, 6], 'grids': [[3, 3], [3, 4], [4, 4]], 'unit_factors': 'symbolic >0 at N=3..5'}}
NOT_DECIDED = ['effect of floating-point rounding (spacing ratios 1e9, ordinates 1e+-20, nextafter neighbours of knots)', 'N beyond the bound (coefficients of segment j depend on points j-1..j+2 only: argument, not solver result)']
ASSUMPTIONS = ['doubles are exact reals (EA back end)', 'std::cout/cerr inserters are no-ops returning the stream', 'operator new never fails',
               'clang++-14 -O1 IR semantics stand for the library (native g++ -O2 build is cross-checked on concrete tables every run)']

def _names(N): return ([3, 4, 5] if N == 'quick' else [3, 4, 5, 6, 7])

# ------------------------------------------------------------------ ctor |- I
def run_ctor(mod, N, units=False, ydata=None, extra_pc=()):
    it = Interp(mod); st = it.new_state()
    xs = [z3.Real('x%d' % i) for i in range(N)]
    ys = ydata(xs) if ydata else [z3.Real('y%d' % i) for i in range(N)]
    for i in range(N - 1): st.pc.append(xs[i] < xs[i + 1])
    st.pc.extend(extra_pc)
    xdim = z3.Real('xdim') if units else -1.0; fdim = z3.Real('fdim') if units else -1.0
    if units: st.pc += [xdim > 0, fdim > 0]
    pxs, pys = st.put_doubles(xs), st.put_doubles(ys)
    outs = [st.out_doubles(N) for _ in range(6)]; misc = st.out_doubles(8)
    grabbed = {}
    paths = it.execute('@verif_c01_build', [N, pxs, pys, xdim, fdim] + outs + [misc], st)
    return it, xs, ys, xdim, fdim, outs, misc, paths

def job_ctor(N, units):
    mod = GMOD['m']; res = []; tag = 'ctor/N%d%s' % (N, '/units' if units else '')
    it, xs, ys, xdim, fdim, outs, misc, paths = run_ctor(mod, N, units)
    live = [p for p in paths if p.end is None]
    if len(live) != 1 or len(paths) != 1:
        return [ob(tag + '/paths', 'candidate' if any(p.end is not None and p.end.kind in ('exit', 'oob', 'uninit') for p in paths) else 'undecided',
                   detail='constructor on a valid table gave %d returning and %d ended paths: %s' % (len(live), len(paths) - len(live), [str(p.end) for p in paths if p.end][:3]),
                   model={'N': N}, key='C01/ctor-valid-table-returns')]
    st = live[0].st
    mv = {'xs': xs, 'ys': ys, 'xdim': xdim, 'fdim': fdim, 'N': N}
    res.append(check_sat('witness/' + tag, st.pc))
    A, B, C, D = [st.get_doubles(o, N - 1) for o in outs[:4]]
    XV = st.get_doubles(outs[4], N); FV = st.get_doubles(outs[5], N); M = st.get_doubles(misc, 8)
    pc = st.pc
    P = lambda nm, claim, t=20000, smp=False: res.append(prove('%s/%s' % (tag, nm), pc, claim, t, mv, key='C01/ctor/' + nm.split('[')[0], sample=smp))
    # stored tables: abscissae scaled by x_dim, ordinates by f_dim (or unchanged)
    for i in range(N):
        P('xv[%d]' % i, toR(XV[i]) == (xs[i] * xdim if units else xs[i])); P('fv[%d]' % i, toR(FV[i]) == (ys[i] * fdim if units else ys[i]))
    P('fields', z3.And(toR(M[0]) == N, toR(M[1]) == toR(XV[0]), toR(M[2]) == toR(XV[N - 1]), toR(M[3]) == 1, toR(M[4]) == 0, toR(M[5]) == 0, toR(M[6]) == N - 1, toR(M[7]) == 2))
    H = [toR(XV[j + 1]) - toR(XV[j]) for j in range(N - 1)]; DL = [toR(FV[j + 1]) - toR(FV[j]) for j in range(N - 1)]
    # end slope of each segment; chained: first m1(j) == c[j+1], the last one is introduced as its own symbol
    mlast = z3.Real('mlast')
    hl = H[N - 2]; pcl = pc + [mlast == 3 * toR(A[N - 2]) * hl * hl + 2 * toR(B[N - 2]) * hl + toR(C[N - 2])]
    for j in range(N - 1):
        h = H[j]
        P('d[%d]=y' % j, toR(D[j]) == toR(FV[j]), smp=(j == 0 and N == 3 and not units))
        P('value-continuity[%d]' % j, toR(A[j]) * h * h * h + toR(B[j]) * h * h + toR(C[j]) * h + toR(D[j]) == toR(FV[j + 1]))
        if j < N - 2: P('C1-continuity[%d]' % j, 3 * toR(A[j]) * h * h + 2 * toR(B[j]) * h + toR(C[j]) == toR(C[j + 1]))
    # limiter facts per knot slope against both adjacent segments
    slopes = [toR(C[k]) for k in range(N - 1)] + [mlast]
    for k in range(N):
        for j in ([k - 1] if k > 0 else []) + ([k] if k < N - 1 else []):
            base = pcl if k == N - 1 else pc
            res.append(prove('%s/limiter-sign[k%d,seg%d]' % (tag, k, j), base, slopes[k] * DL[j] >= 0, 30000, mv, key='C01/ctor/limiter-sign'))
            res.append(prove('%s/limiter-3x[k%d,seg%d]' % (tag, k, j), base, Abs(slopes[k]) * H[j] <= 3 * Abs(DL[j]), 30000, mv, key='C01/ctor/limiter-3x'))
    res += divisor_obligations(tag, st, model_vars=mv, key='C01/ctor/division-by-zero')
    return res

def job_ctor_line(N):
    """straight-line data: every slope equals alpha, a=b=0  (with the cubic-form identity of job_eval this is exact reproduction)"""
    mod = GMOD['m']; res = []; tag = 'line/N%d' % N
    al, be = z3.Real('alpha'), z3.Real('beta')
    it, xs, ys, xdim, fdim, outs, misc, paths = run_ctor(mod, N, False, ydata=lambda xs: [al * x + be for x in xs])
    live = [p for p in paths if p.end is None]
    if len(live) != 1: return [ob(tag + '/paths', 'undecided', detail='%d paths' % len(paths))]
    st = live[0].st; mv = {'xs': xs, 'alpha': al, 'beta': be, 'N': N}
    A, B, C, D = [st.get_doubles(o, N - 1) for o in outs[:4]]
    for j in range(N - 1):
        res.append(prove('%s/c[%d]=alpha' % (tag, j), st.pc, toR(C[j]) == al, 20000, mv, key='C01/line/slope'))
        res.append(prove('%s/a[%d]=0' % (tag, j), st.pc, toR(A[j]) == 0, 20000, mv, key='C01/line/a'))
        res.append(prove('%s/b[%d]=0' % (tag, j), st.pc, toR(B[j]) == 0, 20000, mv, key='C01/line/b'))
    return res

def job_ctor_parabola(N):
    """parabola data with inactive limiter: slopes are the true derivative at every knot (both boundary formulas), a=0, b=alpha"""
    mod = GMOD['m']; res = []; tag = 'parabola/N%d' % N
    al, be, ga = z3.Real('alpha'), z3.Real('beta'), z3.Real('gamma')
    xs0 = [z3.Real('x%d' % i) for i in range(N)]
    f = lambda x: al * x * x + be * x + ga
    tk = [2 * al * x + be for x in xs0]                                   # true slope at knot
    sec = [al * (xs0[j] + xs0[j + 1]) + be for j in range(N - 1)]          # secant slope of the parabola
    pre = [al != 0]
    sgn_ = z3.Real('sgn'); pre += [z3.Or(sgn_ == 1, sgn_ == -1)]
    for j in range(N - 1): pre.append(sgn_ * sec[j] > 0)
    for k in range(N):
        pre.append(sgn_ * tk[k] > 0)
        for j in ([k - 1] if k > 0 else []) + ([k] if k < N - 1 else []): pre.append(sgn_ * tk[k] <= 2 * sgn_ * sec[j])
    it, xs, ys, xdim, fdim, outs, misc, paths = run_ctor(mod, N, False, ydata=lambda xs: [f(x) for x in xs], extra_pc=pre)
    live = [p for p in paths if p.end is None]
    if len(live) != 1: return [ob(tag + '/paths', 'undecided', detail='%d paths' % len(paths))]
    st = live[0].st; mv = {'xs': xs, 'alpha': al, 'beta': be, 'gamma': ga, 'N': N}
    # substitute: the ctor ran on fresh x symbols named identically (x0..), so xs0 == xs
    A, B, C, D = [st.get_doubles(o, N - 1) for o in outs[:4]]
    res.append(check_sat('witness/' + tag, st.pc))
    for j in range(N - 1):
        res.append(prove('%s/c[%d]=true-slope' % (tag, j), st.pc, toR(C[j]) == 2 * al * xs[j] + be, 60000, mv, key='C01/parabola/slope'))
        res.append(prove('%s/b[%d]=alpha' % (tag, j), st.pc, toR(B[j]) == al, 60000, mv, key='C01/parabola/b'))
        res.append(prove('%s/a[%d]=0' % (tag, j), st.pc, toR(A[j]) == 0, 60000, mv, key='C01/parabola/a'))
    return res

# ------------------------------------------------------------------ I |- segment facts
def job_eval(N, jLast, corr):
    mod = GMOD['m']; L = GMOD['L']; res = []; tag = 'eval/N%d/j%d/c%d' % (N, jLast, corr)
    x = z3.Real('x')
    def fresh():
        it = Interp(mod); st = it.new_state(); o = mkobj(it, st, L, N, jLast, corr)
        st.pc += o.order; return it, st, o
    # (1) Interpolate over the domain and the extrapolation zone
    it, st, o = fresh()
    paths = it.execute('@verif_c01_eval', [o.addr, x], st)
    mvb = lambda o: {'xs': o.xs, 'ys': o.ys, 'a': o.a, 'b': o.b, 'c': o.c, 'd': o.d, 'pref': o.pref, 'x': x, 'N': N, 'jLast': jLast, 'corr': corr}
    mv = mvb(o); nret = 0
    c01 = RV(1e-2)        # the literal 1e-2 as the double it is
    tol_l = c01 * (o.xs[1] - o.xs[0]); tol_r = c01 * (o.xs[N - 1] - o.xs[N - 2])
    def used_segment(pc, v, k=0):
        """the segment whose cubic (k-th formal derivative) the returned term is, and proof that x lies in it"""
        for j in range(N - 1):
            cur = o.pref * cubic(o, j, x)
            for _ in range(k): cur = ddx(cur, x)
            so = z3.Solver(); so.set('timeout', 10000); so.add(*pc); so.add(v != cur)
            if so.check() == z3.unsat: return j
        return None
    for pi, p in enumerate(paths):
        pc = p.st.pc
        if p.end is not None:
            if p.end.kind == 'exit':
                # exits only outside the tolerance zone, after a diagnostic
                res.append(prove('%s/exit-only-outside[%d]' % (tag, pi), pc, z3.Or(x <= o.xs[0] - tol_l, x >= o.xs[N - 1] + tol_r), 10000, mv, key='C01/eval/exit-only-outside'))
                if not any(e[0] == 'diag' for e in p.st.events): res.append(ob('%s/exit-diagnostic[%d]' % (tag, pi), 'candidate', model={'note': 'exit without diagnostic'}, key='C01/eval/exit-diagnostic'))
            else:
                res.append(prove('%s/no-%s[%d]' % (tag, p.end.kind, pi), pc, z3.BoolVal(False), 10000, mv, key='C01/eval/' + p.end.kind, detail=str(p.end)))
            continue
        nret += 1; v = toR(p.ret)
        j = used_segment(pc, v)
        if j is None:
            res.append(prove('%s/cubic-form[%d]' % (tag, pi), pc, z3.Or(*[v == o.pref * cubic(o, jj, x) for jj in range(N - 1)]), 20000, mv, key='C01/eval/cubic-form')); continue
        res.append(ob('%s/cubic-form[%d,seg%d]' % (tag, pi, j), 'discharged', detail='returned term equals prefactor * cubic of segment %d' % j, key='C01/eval/cubic-form'))
        # the located segment contains x, or x is in the 1% zone next to the edge segment
        inseg = z3.And(o.xs[j] <= x, x <= o.xs[j + 1])
        zone = z3.Or(z3.And(j == 0, x < o.xs[0], o.xs[0] - x < tol_l), z3.And(j == N - 2, x > o.xs[N - 1], x - o.xs[N - 1] < tol_r))
        res.append(prove('%s/located[%d,seg%d]' % (tag, pi, j), pc, z3.Or(inseg, zone), 10000, mv, key='C01/eval/located', sample=(pi == 0 and jLast == 0 and corr == 0 and N == 3)))
        I = inv_segment(o, j)
        lo = Min(o.ys[j], o.ys[j + 1]); hi = Max(o.ys[j], o.ys[j + 1])
        res.append(prove('%s/between[%d,seg%d]' % (tag, pi, j), pc + I + [inseg], z3.If(o.pref >= 0, z3.And(o.pref * lo <= v, v <= o.pref * hi), z3.And(o.pref * hi <= v, v <= o.pref * lo)), 60000, mv, key='C01/eval/between'))
        res.append(prove('%s/knot-value[%d,seg%d]' % (tag, pi, j), pc + I + [x == o.xs[j]], v == o.pref * o.ys[j], 20000, mv, key='C01/eval/knot-value'))
        res.append(prove('%s/knot-value-right[%d,seg%d]' % (tag, pi, j), pc + I + [x == o.xs[j + 1]], v == o.pref * o.ys[j + 1], 20000, mv, key='C01/eval/knot-value'))
    if nret == 0: res.append(ob(tag + '/reach', 'broken', detail='no returning path'))
    # (2) derivatives: formal derivatives of the returned curve; monotone
    for k in (0, 1, 2, 3, 4):
        it, st, o = fresh(); mv = mvb(o)
        st.pc += [x >= o.xs[0], x <= o.xs[N - 1]]
        paths = it.execute('@verif_c01_deriv', [o.addr, x, k], st)
        for pi, p in enumerate(paths):
            if p.end is not None:
                res.append(prove('%s/deriv%d-no-%s[%d]' % (tag, k, p.end.kind, pi), p.st.pc, z3.BoolVal(False), 10000, mv, key='C01/deriv/' + p.end.kind, detail=str(p.end))); continue
            if k == 4:
                res.append(prove('%s/deriv4-zero[%d]' % (tag, pi), p.st.pc, toR(p.ret) == 0, 10000, mv, key='C01/deriv/formal-4')); continue
            j = used_segment(p.st.pc, toR(p.ret), k)
            if j is None:
                res.append(prove('%s/deriv%d-formal[%d]' % (tag, k, pi), p.st.pc, z3.BoolVal(False), 10000, mv, key='C01/deriv/formal-%d' % k, detail='returned term is not the %d-th formal derivative of any segment cubic' % k)); continue
            res.append(ob('%s/deriv%d-formal[%d,seg%d]' % (tag, k, pi, j), 'discharged', detail='returned term equals the formal derivative', key='C01/deriv/formal-%d' % k))
            res.append(prove('%s/deriv%d-located[%d,seg%d]' % (tag, k, pi, j), p.st.pc, z3.And(o.xs[j] <= x, x <= o.xs[j + 1]), 10000, mv, key='C01/deriv/located'))
            if k == 1:
                I = inv_segment(o, j)
                res.append(prove('%s/monotone[%d,seg%d]' % (tag, pi, j), p.st.pc + I, toR(p.ret) * (o.ys[j + 1] - o.ys[j]) * o.pref >= 0, 60000, mv, key='C01/eval/monotone'))
    return res

# ------------------------------------------------------------------ 2D
def job_2d(NX, NY, jx, cx, jy, cy, bilinear):
    mod = GMOD['m']; res = []; tag = '2d/%dx%d/cache%d%d%d%d%s' % (NX, NY, jx, cx, jy, cy, '/bilinear' if bilinear else '')
    it = Interp(mod); st = it.new_state()
    xs = [z3.Real('x%d' % i) for i in range(NX)]; ys = [z3.Real('y%d' % i) for i in range(NY)]
    al, be, ga, de = [z3.Real(n) for n in ('al', 'be', 'ga', 'de')]
    fs = [[(al + be * xs[i] + ga * ys[j] + de * xs[i] * ys[j]) if bilinear else z3.Real('f%d_%d' % (i, j)) for j in range(NY)] for i in range(NX)]
    for i in range(NX - 1): st.pc.append(xs[i] < xs[i + 1])
    for i in range(NY - 1): st.pc.append(ys[i] < ys[i + 1])
    p = it.execute('@verif_c01_build2d', [NX, NY, st.put_doubles(xs), st.put_doubles(ys), st.put_doubles([f for r in fs for f in r]), -1.0, -1.0, -1.0], st)
    live = [q for q in p if q.end is None]
    if len(live) != 1 or len(p) != 1: return [ob(tag + '/ctor-paths', 'undecided', detail='%d paths, ended: %s' % (len(p), [str(q.end) for q in p if q.end][:2]))]
    st = live[0].st; objp = live[0].ret
    pref = z3.Real('pref')
    it.execute('@verif_c08_setpref2d', [objp, pref], st)
    it.execute('@verif_c01_setcache2d', [objp, jx, cx, jy, cy], st)
    x, y = z3.Real('x'), z3.Real('y')
    st.pc += [x >= xs[0], x <= xs[NX - 1], y >= ys[0], y <= ys[NY - 1]]
    mv = {'xs': xs, 'ys': ys, 'fs': [f for r in fs for f in r], 'pref': pref, 'x': x, 'y': y, 'NX': NX, 'NY': NY, 'cache': [jx, cx, jy, cy]}
    if bilinear: mv.update({'al': al, 'be': be, 'ga': ga, 'de': de})
    paths = it.execute('@verif_c01_eval2d', [objp, x, y], st)
    res.append(check_sat('witness/' + tag, st.pc))
    for pi, q in enumerate(paths):
        if q.end is not None:
            res.append(prove('%s/no-%s[%d]' % (tag, q.end.kind, pi), q.st.pc, z3.BoolVal(False), 10000, mv, key='C01/2d/' + q.end.kind, detail=str(q.end))); continue
        v = toR(q.ret); pc = q.st.pc
        if bilinear:
            res.append(prove('%s/reproduces[%d]' % (tag, pi), pc, v == pref * (al + be * x + ga * y + de * x * y), 60000, mv, key='C01/2d/bilinear')); continue
        # locate cell
        cell = None
        for i in range(NX - 1):
            for j in range(NY - 1):
                so = z3.Solver(); so.set('timeout', 5000); so.add(*pc); so.add(z3.Not(z3.And(xs[i] <= x, x <= xs[i + 1], ys[j] <= y, y <= ys[j + 1])))
                if so.check() == z3.unsat: cell = (i, j); break
            if cell: break
        if cell is None: res.append(ob('%s/cell[%d]' % (tag, pi), 'undecided', detail='cell not implied')); continue
        i, j = cell
        cs = [fs[i][j], fs[i + 1][j], fs[i][j + 1], fs[i + 1][j + 1]]
        lo = Min(Min(cs[0], cs[1]), Min(cs[2], cs[3])); hi = Max(Max(cs[0], cs[1]), Max(cs[2], cs[3]))
        res.append(prove('%s/within-corners[%d,cell%d_%d]' % (tag, pi, i, j), pc, z3.If(pref >= 0, z3.And(pref * lo <= v, v <= pref * hi), z3.And(pref * hi <= v, v <= pref * lo)), 60000, mv, key='C01/2d/within-corners'))
        # nodes
        for (ii, jj) in ((i, j), (i + 1, j), (i, j + 1), (i + 1, j + 1)):
            res.append(prove('%s/node[%d,%d_%d]' % (tag, pi, ii, jj), pc + [x == xs[ii], y == ys[jj]], v == pref * fs[ii][jj], 30000, mv, key='C01/2d/node'))
        # edges: on x == x_i (resp. y == y_j) the value is the 1D linear interpolation along the edge, whichever cell was chosen => continuity
        for ii in (i, i + 1):
            u = (y - ys[j]) / (ys[j + 1] - ys[j])
            res.append(prove('%s/edge-x[%d,%d]' % (tag, pi, ii), pc + [x == xs[ii]], v == pref * ((1 - u) * fs[ii][j] + u * fs[ii][j + 1]), 30000, mv, key='C01/2d/edge'))
        for jj in (j, j + 1):
            t = (x - xs[i]) / (xs[i + 1] - xs[i])
            res.append(prove('%s/edge-y[%d,%d]' % (tag, pi, jj), pc + [y == ys[jj]], v == pref * ((1 - t) * fs[i][jj] + t * fs[i + 1][jj]), 30000, mv, key='C01/2d/edge'))
        res += divisor_obligations('%s/p%d' % (tag, pi), q.st, model_vars=mv, key='C01/2d/division-by-zero')
    return res

def job_located(N, jLast, corr):
    """larger tables: from every cache state Interpolate returns prefactor * cubic of a segment that contains x (or the 1% zone) -- the part of the eval obligations that depends on the index search"""
    mod = GMOD['m']; L = GMOD['L']; res = []; tag = 'located/N%d/j%d/c%d' % (N, jLast, corr); x = z3.Real('x')
    it = Interp(mod); st = it.new_state(); o = mkobj(it, st, L, N, jLast, corr); st.pc += o.order
    mv = {'xs': o.xs, 'ys': o.ys, 'a': o.a, 'b': o.b, 'c': o.c, 'd': o.d, 'pref': o.pref, 'x': x, 'N': N, 'jLast': jLast, 'corr': corr}
    c01 = RV(1e-2); tol_l = c01 * (o.xs[1] - o.xs[0]); tol_r = c01 * (o.xs[N - 1] - o.xs[N - 2])
    for pi, p in enumerate(it.execute('@verif_c01_eval', [o.addr, x], st)):
        if p.end is not None:
            if p.end.kind != 'exit': res.append(prove('%s/no-%s[%d]' % (tag, p.end.kind, pi), p.st.pc, z3.BoolVal(False), 10000, mv, key='C01/eval/' + p.end.kind, detail=str(p.end)))
            continue
        v = toR(p.ret); j = None
        for jj in range(N - 1):
            if v.eq(o.pref * cubic(o, jj, x)): j = jj; break
        if j is None:
            for jj in range(N - 1):
                so = z3.Solver(); so.set('timeout', 5000); so.add(*p.st.pc); so.add(v != o.pref * cubic(o, jj, x))
                if so.check() == z3.unsat: j = jj; break
        if j is None: res.append(prove('%s/cubic-form[%d]' % (tag, pi), p.st.pc, z3.BoolVal(False), 10000, mv, key='C01/eval/cubic-form', detail='returned term is no segment cubic')); continue
        inseg = z3.And(o.xs[j] <= x, x <= o.xs[j + 1])
        zone = z3.Or(z3.And(j == 0, x < o.xs[0], o.xs[0] - x < tol_l), z3.And(j == N - 2, x > o.xs[N - 1], x - o.xs[N - 1] < tol_r))
        res.append(prove('%s/located[%d,seg%d]' % (tag, pi, j), p.st.pc, z3.Or(inseg, zone), 10000, mv, key='C01/eval/located'))
    return res

def jobs(ctx):
    mod = module(ctx); GMOD['L'] = layout(mod)
    b = BOUNDS[ctx.tier]; J = []
    for N in b['N']:
        J.append((job_ctor, (N, False)))
        J.append((job_ctor_line, (N,)))
        if N <= (5 if ctx.quick() else 6): J.append((job_ctor_parabola, (N,)))
    for N in ([3, 4] if ctx.quick() else [3, 4, 5]): J.append((job_ctor, (N, True)))
    for N in b['N_eval']:
        for jl in range(N - 1):
            for corr in (0, 1): J.append((job_eval, (N, jl, corr)))
    for N in range(max(b['N_eval']) + 1, 13 if ctx.quick() else 25):
        for jl in range(N - 1):
            for corr in (0, 1): J.append((job_located, (N, jl, corr)))
    for (nx, ny) in b['grids']:
        for jx in range(nx - 1):
            for jy in range(ny - 1):
                for cx, cy in ((0, 0), (1, 1), (0, 1), (1, 0)):
                    J.append((job_2d, (nx, ny, jx, cx, jy, cy, False)))
        J.append((job_2d, (nx, ny, 0, 0, 0, 0, True)))
        J.append((job_2d, (nx, ny, nx - 2, 1, ny - 2, 1, True)))
    return J

# ------------------------------------------------------------------ translator validation and replay
TV_TABLES = [([0.0, 1.0, 2.0, 3.0, 4.0], [0.0, 1.0, 4.0, 9.0, 16.0]), ([0.0, 0.5, 2.5, 2.75, 7.0, 9.5], [1.0, 3.0, -2.0, -2.0, 5.5, 5.0]), ([-2.0, -1.0, 3.0], [4.0, 4.0, -1.0])]
def _close(a, b): return a == b or abs(a - b) <= 1e-12 * max(abs(a), abs(b), 1e-300) or (a != a and b != b)

def validate(ctx):
    mod = module(ctx); so = native(ctx); L = layout(mod); bad = []; n = 0
    for xs, ys in TV_TABLES:
        N = len(xs)
        it = Interp(mod); st = it.new_state()
        outs = [st.out_doubles(N) for _ in range(6)]; misc = st.out_doubles(8)
        p = it.execute('@verif_c01_build', [N, st.put_doubles(xs), st.put_doubles(ys), -1.0, -1.0] + outs + [misc], st)
        r = nat.call(so, 'verif_c01_build', [('u32', N), ('dbl[]', xs), ('dbl[]', ys), -1.0, -1.0] + [('dbl[]', [0.0] * N)] * 6 + [('dbl[]', [0.0] * 8)], restype='void')
        if r['status'] != 'ok' or p[0].end is not None: bad.append('build %s native=%s interp=%s' % (xs, r['status'], p[0].end)); continue
        for k in range(4):
            mine = p[0].st.get_doubles(outs[k], N - 1); theirs = r['arrays'][2 + k][:N - 1]; n += N - 1
            if not all(_close(a, b) for a, b in zip(mine, theirs)): bad.append('coeff table %d of %s: %s vs %s' % (k, xs, mine, theirs))
        A, B, C, D = [r['arrays'][2 + k][:N - 1] for k in range(4)]
        for jl in range(N - 1):
            for corr in (0, 1):
                for x in [xs[0], xs[-1], xs[1], 0.5 * (xs[0] + xs[1]), 0.3 * xs[-2] + 0.7 * xs[-1], xs[0] - 0.005 * (xs[1] - xs[0])]:
                    for op, fn, extra in ((0, '@verif_c01_eval', []), (1, '@verif_c01_deriv', [1]), (2, '@verif_c01_deriv', [2])):
                        it = Interp(mod); st = it.new_state()
                        o = mkobj(it, st, L, N, jl, corr, pref=1.5, coeffs=(A, B, C, D))
                        # concrete tables
                        for i in range(N): st.mem[st.load(o.addr + L['x_values'], 8) + 8 * i] = (8, xs[i]); st.mem[st.load(o.addr + L['function_values'], 8) + 8 * i] = (8, ys[i])
                        dm = st.load(o.addr + L['domain'], 8); st.mem[dm] = (8, xs[0]); st.mem[dm + 8] = (8, xs[-1])
                        q = it.execute(fn, [o.addr, x] + extra, st)
                        rr = nat.call(so, 'verif_c01_raw', [('u32', N), ('dbl[]', xs), ('dbl[]', ys), ('dbl[]', A), ('dbl[]', B), ('dbl[]', C), ('dbl[]', D), 1.5, ('u32', jl), ('i32', corr), ('i32', op), x, 0.0])
                        n += 1
                        if q[0].end is not None or rr['status'] != 'ok' or not _close(q[0].ret, rr['ret']): bad.append('op %d x=%r jl=%d corr=%d: interp %s native %s' % (op, x, jl, corr, q[0], rr))
    if bad: return [ob('translator-validation', 'broken', detail='; '.join(bad[:4]))]
    return [ob('translator-validation', 'discharged', backend='TV', detail='%d concrete values: interpreter on clang -O1 IR == native g++ -O2 build (rel 1e-12)' % n)]

def _tab(m, k): return [q2f(q) for q in m[k]]

def replay(ctx, o):
    """native re-execution of a solver model; confirmed only if the violated claim is violated with a margin in double arithmetic"""
    so = native(ctx); m = o['model'] or {}; name = o['name']; key = o['key']
    if 'xs' not in m: return False, 'no model to replay'
    xs = _tab(m, 'xs'); N = len(xs)
    if any(xs[i] >= xs[i + 1] for i in range(N - 1)): return False, 'model abscissae collapse in double precision'
    if key.startswith('C01/ctor') or key.startswith('C01/line') or key.startswith('C01/parabola'):
        if 'ys' in m: ys = _tab(m, 'ys')
        elif 'gamma' in m: ys = [q2f(m['alpha']) * x * x + q2f(m['beta']) * x + q2f(m['gamma']) for x in xs]
        else: ys = [q2f(m['alpha']) * x + q2f(m['beta']) for x in xs]
        xd = q2f(m['xdim']) if isinstance(m.get('xdim'), list) else -1.0; fd = q2f(m['fdim']) if isinstance(m.get('fdim'), list) else -1.0
        r = nat.call(so, 'verif_c01_build', [('u32', N), ('dbl[]', xs), ('dbl[]', ys), xd, fd] + [('dbl[]', [0.0] * N)] * 6 + [('dbl[]', [0.0] * 8)], restype='void')
        if r['status'] != 'ok': return True, 'native constructor on a valid table: %s' % r
        A, B, C, D, XV, FV = r['arrays'][2:8]
        # evaluate the whole invariant natively, report the worst violation
        worst = 0.0; what = ''
        def viol(v, scale, w):
            nonlocal worst, what
            if scale > 0 and v / scale > worst: worst = v / scale; what = w
        for j in range(N - 1):
            h = XV[j + 1] - XV[j]; dl = FV[j + 1] - FV[j]; sc = max(abs(FV[j]), abs(FV[j + 1]), abs(dl), 1e-300)
            viol(abs(D[j] - FV[j]), sc, 'd[%d]' % j)
            viol(abs(A[j] * h ** 3 + B[j] * h * h + C[j] * h + D[j] - FV[j + 1]), sc, 'value continuity %d' % j)
            m1 = 3 * A[j] * h * h + 2 * B[j] * h + C[j]; ssc = max(abs(dl / h), 1e-300)
            if j < N - 2: viol(abs(m1 - C[j + 1]), max(abs(m1), abs(C[j + 1]), ssc), 'C1 continuity %d' % j)
            for mm, w in ((C[j], 'start'), (m1, 'end')):
                viol(max(0.0, -(mm * dl)) / max(abs(dl), 1e-300), ssc, 'slope sign %s %d' % (w, j)); viol(max(0.0, abs(mm) * h - 3 * abs(dl)), abs(dl) if dl else sc, 'limiter %s %d' % (w, j))
            if key.startswith('C01/line'): viol(abs(C[j] - q2f(m['alpha'])) + abs(A[j]) * h * h + abs(B[j]) * h, max(abs(q2f(m['alpha'])), 1e-300), 'line slope %d' % j)
            if key.startswith('C01/parabola'):
                t = 2 * q2f(m['alpha']) * xs[j] + q2f(m['beta']); viol(abs(C[j] - t) + abs(A[j]) * h * h + abs(B[j] - q2f(m['alpha'])) * h, max(abs(t), 1e-300), 'parabola slope %d' % j)
        return (worst > 1e-9), 'native constructor, worst relative invariant violation %.3g (%s) on xs=%s ys=%s' % (worst, what, xs, ys)
    if key.startswith('C01/eval') or key.startswith('C01/deriv'):
        ys = _tab(m, 'ys'); A, B, C, D = [_tab(m, k) for k in 'abcd']; x = q2f(m['x']); pref = q2f(m['pref'])
        if all(v == 0 for v in A + B + C + D):
            # structural candidates come without a solver model (all fields zero): use generic non-degenerate coefficients, a query point inside a segment and a non-trivial prefactor so that every term of the cubic shows
            A = [0.3 + 0.1 * j for j in range(len(A))]; B = [-0.7 + 0.2 * j for j in range(len(B))]; C = [1.1 - 0.3 * j for j in range(len(C))]; D = [0.5 * j for j in range(len(D))]
            if not (xs[0] < x < xs[-1]) or x in xs: x = xs[0] + 0.37 * (xs[1] - xs[0])
            if pref in (0.0, 1.0): pref = 1.5
        if key in ('C01/eval/located', 'C01/deriv/located'):
            r = nat.call(so, 'verif_c01_raw', [('u32', N), ('dbl[]', xs), ('dbl[]', ys), ('dbl[]', A), ('dbl[]', B), ('dbl[]', C), ('dbl[]', D), pref, ('u32', m['jLast']), ('i32', m['corr']), ('i32', 20), x, 0.0])
            if r['status'] != 'ok': return xs[0] <= x <= xs[-1], 'native Locate(%r) ended: %s' % (x, r['status'])
            j = int(r['ret']); ok = 0 <= j <= N - 2 and (xs[j] <= x <= xs[j + 1] or (j == 0 and x < xs[0]) or (j == N - 2 and x > xs[-1]))
            return (not ok), 'native Locate(%r) from cache state (jLast=%d, correlated=%d) on xs=%s returned %d' % (x, m['jLast'], m['corr'], xs, j)
        opn = 0
        if 'deriv' in name: opn = int(name.split('deriv')[1][0]) or 5
        if 'monotone' in name: opn = 1
        r = nat.call(so, 'verif_c01_raw', [('u32', N), ('dbl[]', xs), ('dbl[]', ys), ('dbl[]', A), ('dbl[]', B), ('dbl[]', C), ('dbl[]', D), pref, ('u32', m['jLast']), ('i32', m['corr']), ('i32', opn), x, 0.0])
        if r['status'] != 'ok':
            inside = xs[0] <= x <= xs[-1]
            return inside, 'native call ended with %s for x=%r (inside domain: %s)' % (r, x, inside)
        v = r['ret']
        j = max(0, min(N - 2, max(i for i in range(N) if xs[i] <= x) if x >= xs[0] else 0))
        if x == xs[j] and j > 0 and m['jLast'] < j: pass
        t = x - xs[j]; cub = pref * (A[j] * t ** 3 + B[j] * t * t + C[j] * t + D[j])
        sc = max(abs(pref) * max(abs(y) for y in ys), 1e-300)
        if 'between' in name:
            lo, hi = sorted((pref * ys[j], pref * ys[j + 1])); ex = max(lo - v, v - hi, 0.0)
            # only meaningful if the model's coefficients satisfy I in double arithmetic; the model is exact, so accept a margin
            return ex > 1e-9 * sc, 'native Interpolate(%r)=%r, bracket [%r,%r], excess %.3g' % (x, v, lo, hi, ex)
        if 'monotone' in name:
            return v * (ys[j + 1] - ys[j]) * pref < -1e-9 * sc * sc, 'native Derivative(%r,1)=%r against delta %r' % (x, v, ys[j + 1] - ys[j])
        if opn in (1, 2, 3, 4, 5):
            kk = 0 if opn == 5 else opn
            ref = [cub, pref * (3 * A[j] * t * t + 2 * B[j] * t + C[j]), pref * (6 * A[j] * t + 2 * B[j]), pref * 6 * A[j], 0.0][kk]
            return abs(v - ref) > 1e-9 * max(abs(ref), abs(v), 1e-300), 'native Derivative(%r,%d)=%r, formal derivative of the cubic %r' % (x, kk, v, ref)
        return abs(v - cub) > 1e-9 * max(abs(cub), abs(v), 1e-300), 'native Interpolate(%r)=%r, cubic of segment %d gives %r' % (x, v, j, cub)
    if key.startswith('C01/2d'):
        ys = _tab(m, 'ys'); NX, NY = m['NX'], m['NY']; x, y, pref = q2f(m['x']), q2f(m['y']), q2f(m['pref'])
        if 'al' in m:
            al, be, ga, de = [q2f(m[k]) for k in ('al', 'be', 'ga', 'de')]; fs = [al + be * xs[i] + ga * ys[j] + de * xs[i] * ys[j] for i in range(NX) for j in range(NY)]
        else: fs = _tab(m, 'fs')
        c = m['cache']
        r = nat.call(so, 'verif_c01_raw2d', [('u32', NX), ('u32', NY), ('dbl[]', xs), ('dbl[]', ys), ('dbl[]', fs), pref, ('u32', c[0]), ('i32', c[1]), ('u32', c[2]), ('i32', c[3]), ('i32', 0), x, y])
        if r['status'] != 'ok': return True, 'native 2D evaluation inside the domain ended with %s' % r
        v = r['ret']
        i = max(0, min(NX - 2, max(k for k in range(NX) if xs[k] <= x))); j = max(0, min(NY - 2, max(k for k in range(NY) if ys[k] <= y)))
        t = (x - xs[i]) / (xs[i + 1] - xs[i]); u = (y - ys[j]) / (ys[j + 1] - ys[j]); F = lambda a, b: fs[a * NY + b]
        ref = pref * ((1 - t) * (1 - u) * F(i, j) + t * (1 - u) * F(i + 1, j) + t * u * F(i + 1, j + 1) + (1 - t) * u * F(i, j + 1))
        return abs(v - ref) > 1e-9 * max(abs(ref), abs(v), 1e-300), 'native 2D Interpolate(%r,%r)=%r, bilinear reference %r' % (x, y, v, ref)
    return False, 'no replay rule for ' + key
