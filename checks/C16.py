"""C16 - Rotations and spherical coordinates are geometrically correct for every axis (DESIGN.md section 2/C16)"""
from la_common import *
from interp_common import ddx

EXPLANATION = ('C16: real Rotation_Matrix (2D, 3D with symbolic non-zero axis of any length) and Spherical_Coordinates (with and without axis): sin/cos are intercepted and replaced by symbol pairs (s,c) with s^2+c^2=1; '
               'orthogonality, determinant, fixed axis, right-handed turn, angle addition through the real matrix product; spherical vector: components, norm, polar angle from the axis, right-handed azimuth, every divisor non-zero for every non-zero axis.')
BOUNDS = {'quick': {}, 'thorough': {}}
NOT_DECIDED = ['loss of accuracy for axes within 1e-12 of +-z (cancellation in 1-ev_z^2): rounding', 'accuracy of libm sin/cos']
ASSUMPTIONS = ['doubles are exact reals', 'sin(t), cos(t) are any pair with s^2+c^2=1 (per distinct argument); theta in [0,pi] is expressed as sin(theta) >= 0', 'axis symbolic with |axis| != 0; sqrt via witness']

def trig(table):
    """intercepts for sin/cos: table maps the argument term (by identity) to (s,c)"""
    def find(a):
        for k, v in table:
            if (is_sym(a) and is_sym(k) and a.eq(k)) or (not is_sym(a) and not is_sym(k) and a == k): return v
        raise Unsupported('sin/cos of an unexpected argument %s' % a)
    fs = lambda it, args, st, d: [(st, find(args[0])[0])]; fc = lambda it, args, st, d: [(st, find(args[0])[1])]
    return {'@sin': fs, '@cos': fc, '@llvm.sin.f64': fs, '@llvm.cos.f64': fc}

def angle(nm):
    a = z3.Real(nm); s, c = z3.Real('sin_' + nm), z3.Real('cos_' + nm)
    return a, s, c, [s * s + c * c == 1]

def job_rot2d():
    res = []; a, sa, ca, ax = angle('alpha'); b, sb, cb, bx = angle('beta'); g = z3.Real('gamma')
    tab = [(a, (sa, ca)), (b, (sb, cb)), (g, (sa * cb + ca * sb, ca * cb - sa * sb))]
    mv = {'alpha_sin': sa, 'alpha_cos': ca, 'beta_sin': sb, 'beta_cos': cb, 'op': 83}
    def R(x):
        _, rs = run_la(83, s=x, i=2, intercept=trig(tab))
        if len(rs) != 1 or rs[0].end is not None: raise Unsupported('Rotation_Matrix(.,2) paths: %s' % [str(q.end) for q in rs])
        return mat(rs[0], 2, 2)
    Ra, Rb, Rg = R(a), R(b), R(g)
    want = [[ca, -sa], [sa, ca]]
    for i in range(2):
        for j in range(2):
            res.append(eq_ob('rot2d/entries[%d,%d]' % (i, j), ax, Ra[i][j], want[i][j], mv, 'C16/rot2d/entries', sample=(i == 0 and j == 1)))
            res.append(prove('rot2d/orthogonal[%d,%d]' % (i, j), ax, sum(toR(Ra[k][i]) * toR(Ra[k][j]) for k in range(2)) == (1 if i == j else 0), 20000, mv, key='C16/rot2d/orthogonal'))
    res.append(prove('rot2d/det', ax, toR(Ra[0][0]) * toR(Ra[1][1]) - toR(Ra[0][1]) * toR(Ra[1][0]) == 1, 20000, mv, key='C16/rot2d/det'))
    _, pr = run_la(7, Ra, Rb)
    P = mat(pr[0], 2, 2)
    for i in range(2):
        for j in range(2): res.append(prove('rot2d/angle-addition[%d,%d]' % (i, j), ax + bx, toR(P[i][j]) == toR(Rg[i][j]), 20000, mv, key='C16/rot2d/angle-addition'))
    # other dimensions are rejected
    for dim in (1, 4, 0):
        _, rs = run_la(83, s=a, i=dim, intercept=trig(tab))
        ok = all(q.end is not None and q.end.kind == 'exit' and any(e[0] == 'diag' for e in q.events) for q in rs)
        res.append(ob('rot/dim%d-rejected' % dim, 'discharged' if ok else 'candidate', key='C16/rot/dim-rejected', model=None if ok else {'dim': dim, 'op': 83}, detail='exits after a diagnostic'))
    return res

def _rot3d_basic(ra, Ra, hyp, mv, n, sa, ca, sfx):
    res = []
    res += divisor_obligations('rot3d' + sfx, ra.st, pre=[], model_vars=mv, key='C16/rot3d/division-by-zero')
    for i in range(3):
        for j in range(3):
            res.append(prove('rot3d%s/orthogonal[%d,%d]' % (sfx, i, j), hyp, sum(toR(Ra[k][i]) * toR(Ra[k][j]) for k in range(3)) == (1 if i == j else 0), 60000, mv, key='C16/rot3d/orthogonal', tactic='nra', sample=(i == 0 and j == 0)))
    det = sum(toR(Ra[0][p[0]]) * toR(Ra[1][p[1]]) * toR(Ra[2][p[2]]) * (1 if sum(1 for x in range(3) for y in range(x + 1, 3) if p[x] > p[y]) % 2 == 0 else -1) for p in itertools.permutations(range(3)))
    res.append(prove('rot3d%s/det' % sfx, hyp, det == 1, 120000, mv, key='C16/rot3d/det', tactic='nra'))
    for i in range(3):
        res.append(prove('rot3d%s/axis-fixed[%d]' % (sfx, i), hyp, sum(toR(Ra[i][k]) * n[k] for k in range(3)) == n[i], 60000, mv, key='C16/rot3d/axis-fixed', tactic='nra'))
    # right-handed turn of perpendicular vectors: R v = c v + s (n^ x v)  <=>  |n| R v = |n| c v + s (n x v)
    v = [z3.Real('v%d' % i) for i in range(3)]; perp = [sum(n[k] * v[k] for k in range(3)) == 0]
    ws = [d[1] for d in ra.st.defs if d[0] == 'sqrt']
    if ws: nrm = ws[0]
    else:
        nrm = z3.Real('axis_norm'); hyp = hyp + [nrm > 0, nrm * nrm == sum(x * x for x in n)]      # a path that never took the norm of the axis: the claim is still about the given axis
    cr = [n[1] * v[2] - n[2] * v[1], n[2] * v[0] - n[0] * v[2], n[0] * v[1] - n[1] * v[0]]
    for i in range(3):
        res.append(prove('rot3d%s/right-handed[%d]' % (sfx, i), hyp + perp, nrm * sum(toR(Ra[i][k]) * v[k] for k in range(3)) == nrm * ca * v[i] + sa * cr[i], 120000, dict(mv, v=v), key='C16/rot3d/right-handed', tactic='nra'))

    return res

def job_rot3d(part):
    res = []; a, sa, ca, ax = angle('alpha'); b, sb, cb, bx = angle('beta'); g = z3.Real('gamma')
    tab = [(a, (sa, ca)), (b, (sb, cb)), (g, (sa * cb + ca * sb, ca * cb - sa * sb))]
    n = [z3.Real('n%d' % i) for i in range(3)]; nz = [z3.Or(*[x != 0 for x in n])]
    mv = {'sin': sa, 'cos': ca, 'axis': n, 'op': 80, 'sinb': sb, 'cosb': cb}
    def Rall(x):
        _, rs = run_la(80, B=n, vecB=True, s=x, i=3, intercept=trig(tab), pre=nz)
        return [q for q in rs if q.end is None]
    def R(x):
        rs = Rall(x)
        if len(rs) != 1: raise Unsupported('Rotation_Matrix(.,3,axis): %d returning paths' % len(rs))
        return rs[0], mat(rs[0], 3, 3)
    if part == 'basic':
        # every returning path of the call is held to the claims under its own path condition (a code path that treats some non-zero axes differently is examined, not skipped)
        allp = Rall(a)
        if not allp: return [ob('rot3d/reach', 'broken', detail='no returning path')]
        for pidx, ra in enumerate(allp):
            res += _rot3d_basic(ra, mat(ra, 3, 3), alg_assumptions(ra.st) + ax + nz + (list(ra.pc) if len(allp) > 1 else []), mv, n, sa, ca, '' if len(allp) == 1 else '/path%d' % pidx)
        for k in (2, 4):
            _, rs = run_la(80, B=[z3.Real('m%d' % i) for i in range(k)], vecB=True, s=a, i=3, intercept=trig(tab))
            ok = all(q.end is not None and q.end.kind == 'exit' for q in rs)
            res.append(ob('rot3d/axis-size-%d-rejected' % k, 'discharged' if ok else 'candidate', key='C16/rot3d/axis-size-rejected', model=None if ok else {'op': 80, 'axis_size': k}))
        return res
    ra, Ra = R(a)
    hyp = alg_assumptions(ra.st) + ax + nz
    if False: pass
    else:
        rb, Rb = R(b); rg, Rg = R(g)
        _, pr = run_la(7, Ra, Rb); P = mat(pr[0], 3, 3)
        hyp2 = hyp + alg_assumptions(rb.st) + alg_assumptions(rg.st) + bx
        # the three runs normalise the same axis: identify their norm witnesses
        w = [[d[1] for d in r.st.defs if d[0] == 'sqrt'][0] for r in (ra, rb, rg)]
        hyp2 += [w[0] == w[1], w[0] == w[2]]
        i, j = part
        res.append(prove('rot3d/angle-addition[%d,%d]' % (i, j), hyp2, toR(P[i][j]) == toR(Rg[i][j]), 300000, mv, key='C16/rot3d/angle-addition', tactic='nra'))
    return res

def job_spherical_plain():
    res = []; t, st_, ct, tx = angle('theta'); p, sp, cp, px = angle('phi'); r = z3.Real('r')
    _, rs = run_la(81, A=[r, t, p], vecA=True, intercept=trig([(t, (st_, ct)), (p, (sp, cp))]))
    mv = {'r': r, 'op': 81}
    if len(rs) != 1 or rs[0].end is not None: return [ob('spherical/plain/paths', 'undecided', detail=str([str(q.end) for q in rs]))]
    want = [r * st_ * cp, r * st_ * sp, r * ct]
    for k in range(3): res.append(eq_ob('spherical/plain[%d]' % k, [], rs[0].out[k], want[k], mv, 'C16/spherical/plain'))
    return res

def job_spherical_axis(region):
    """region: 'generic' (axis not parallel to z), '+z', '-z'"""
    res = []; t, st_, ct, tx = angle('theta'); p, sp, cp, px = angle('phi'); r = z3.Real('r')
    n = [z3.Real('n%d' % i) for i in range(3)]
    pre = {'generic': [z3.Or(n[0] != 0, n[1] != 0)], '+z': [n[0] == 0, n[1] == 0, n[2] > 0], '-z': [n[0] == 0, n[1] == 0, n[2] < 0]}[region]
    _, rs = run_la(82, A=[r, t, p], vecA=True, B=n, vecB=True, intercept=trig([(t, (st_, ct)), (p, (sp, cp))]), pre=pre)
    mv = {'r': r, 'sin_theta': st_, 'cos_theta': ct, 'sin_phi': sp, 'cos_phi': cp, 'axis': n, 'op': 82}
    nret = 0
    for pi, q in enumerate(rs):
        tag = 'spherical/axis/%s[%d]' % (region, pi)
        if q.end is not None:
            res.append(prove(tag + '/returns', q.pc, z3.BoolVal(False), 20000, mv, key='C16/spherical/axis/returns', detail=str(q.end))); continue
        nret += 1
        res += divisor_obligations(tag, q.st, pre=tx + px + [st_ >= 0] + pre, model_vars=mv, key='C16/spherical/axis/division-by-zero', timeout_ms=60000, tactic='nra')
        # theta in [0,pi]: sin(theta) >= 0 and the code's sqrt(1-cos^2) is that sine
        hyp = alg_assumptions(q.st) + tx + px + [st_ >= 0, r > 0] + pre + [c for c in q.pc if True]
        u = [toR(x) for x in q.out]
        nrm2 = sum(x * x for x in n)
        res.append(prove(tag + '/norm', hyp, sum(x * x for x in u) == r * r, 120000, mv, key='C16/spherical/axis/norm', tactic='nra'))
        # polar angle from the axis: u . n = r cos(theta) |n|   (squared form plus sign)
        dot = sum(u[k] * n[k] for k in range(3))
        res.append(prove(tag + '/polar-angle', hyp, z3.And(dot * dot == r * r * ct * ct * nrm2, dot * ct >= 0), 120000, mv, key='C16/spherical/axis/polar-angle', tactic='nra'))
        # right-handed azimuth: d u / d phi = n^ x u  <=>  |n|^2 (du/dphi)^2-form; use  |n| du/dphi = n x u  squared componentwise with sign via dot product
        du = []
        for k in range(3):
            e = u[k]
            du.append(ddx(e, cp) * (-sp) + ddx(e, sp) * cp)
        cr = [n[1] * u[2] - n[2] * u[1], n[2] * u[0] - n[0] * u[2], n[0] * u[1] - n[1] * u[0]]
        # d u / d phi = n^ x u  <=>  |n| du/dphi = n x u, with |n| the square-root witness of the real Norm()
        nw = [d[1] for d in q.st.defs if d[0] == 'sqrt']
        if not nw: res.append(ob(tag + '/right-handed', 'undecided', detail='norm witness not found')); continue
        for k in range(3):
            res.append(prove(tag + '/right-handed[%d]' % k, hyp, nw[0] * du[k] == cr[k], 60000 if GT['t'] == 'quick' else 300000, mv, key='C16/spherical/axis/right-handed', tactic='nra'))
    if nret == 0 and not res: res.append(ob('spherical/axis/%s/reach' % region, 'broken', detail='no path'))
    return res

GT = {'t': 'quick'}
def jobs(ctx):
    module(ctx); GT['t'] = ctx.tier
    J = [(job_rot2d, ()), (job_rot3d, ('basic',)), (job_spherical_plain, ()), (job_spherical_axis, ('generic',)), (job_spherical_axis, ('+z',)), (job_spherical_axis, ('-z',))]
    if not ctx.quick():
        for i in range(3):
            for j in range(3): J.append((job_rot3d, ((i, j),)))
    else: J.append((job_rot3d, ((0, 1),)))
    return J

def validate(ctx):
    import math
    module(ctx); bad = []; n = 0
    for op, kw in ((83, dict(s=0.7, i=2)), (80, dict(B=[1.0, -2.0, 0.5], vecB=True, s=1.1, i=3)), (81, dict(A=[2.0, 0.4, 1.3], vecA=True)), (82, dict(A=[2.0, 0.4, 1.3], vecA=True, B=[0.3, -0.2, 0.9], vecB=True)), (82, dict(A=[2.0, 0.4, 1.3], vecA=True, B=[0.0, 0.0, 2.0], vecB=True))):
        _, rs = run_la(op, **kw); r = native_la(ctx, op, kw.get('A'), kw.get('B'), s=kw.get('s', 0.0), i=kw.get('i', 0), vecA=kw.get('vecA', False), vecB=kw.get('vecB', False)); n += 1
        if len(rs) != 1 or rs[0].end is not None or r['status'] != 'ok': bad.append('op %d: %s / %s' % (op, [str(x.end) for x in rs], r['status'])); continue
        k = rs[0].shape[0] * rs[0].shape[1]
        if any(abs(x - y) > 1e-12 * max(abs(x), abs(y), 1e-300) for x, y in zip(rs[0].out, r['out'][:k])): bad.append('op %d: %s vs %s' % (op, rs[0].out, r['out'][:k]))
    if bad: return [ob('translator-validation', 'broken', detail='; '.join(bad[:4]))]
    return [ob('translator-validation', 'discharged', backend='TV', detail='%d concrete rotation / spherical-coordinate calls: interpreter == native' % n)]

def replay(ctx, o):
    import math
    m = o['model'] or {}; key = o['key']
    if key.startswith('C16/spherical/axis') and 'axis' in m:
        ax = [fl(q) for q in m['axis']]
        if all(x == 0 for x in ax): return False, 'zero axis in the model'
        ct = max(-1.0, min(1.0, fl(m['cos_theta']))); th = math.acos(ct); ph = math.atan2(fl(m['sin_phi']), fl(m['cos_phi'])); r0 = abs(fl(m['r'])) or 1.0
        r = native_la(ctx, 82, [r0, th, ph], ax, vecA=True, vecB=True)
        if r['status'] != 'ok': return True, 'native Spherical_Coordinates(%r,%r,%r,axis=%s): %s' % (r0, th, ph, ax, r['status'])
        u = r['out'][:3]; nn = math.sqrt(sum(x * x for x in ax))
        if any(x != x for x in u): return True, 'native Spherical_Coordinates(%r,%r,%r,axis=%s) = %s (NaN)' % (r0, th, ph, ax, u)
        errn = abs(math.sqrt(sum(x * x for x in u)) - r0); errp = abs(sum(u[k] * ax[k] for k in range(3)) / nn - r0 * math.cos(th))
        if 'right-handed' in key:
            # pick an interior polar angle so that the azimuthal motion is visible, compare the central difference in phi with n^ x u
            th2 = th if 0.2 < th < 2.9 else 1.0; h = 1e-6
            up = native_la(ctx, 82, [r0, th2, ph + h], ax, vecA=True, vecB=True)['out'][:3]; um = native_la(ctx, 82, [r0, th2, ph - h], ax, vecA=True, vecB=True)['out'][:3]
            u0 = native_la(ctx, 82, [r0, th2, ph], ax, vecA=True, vecB=True)['out'][:3]
            du = [(a - b) / (2 * h) for a, b in zip(up, um)]; nh = [x / nn for x in ax]
            cr = [nh[1] * u0[2] - nh[2] * u0[1], nh[2] * u0[0] - nh[0] * u0[2], nh[0] * u0[1] - nh[1] * u0[0]]
            err = max(abs(a - b) for a, b in zip(du, cr))
            return err > 1e-4 * r0, 'native d/dphi Spherical_Coordinates(%r,%r,phi=%r,axis=%s) = %s but n^ x u = %s' % (r0, th2, ph, ax, du, cr)
        return (errn > 1e-9 * r0 or errp > 1e-9 * r0), 'native result %s: |u|-r = %.3g, u.n^ - r cos(theta) = %.3g' % (u, errn, errp)
    if key == 'C16/spherical/plain':
        worst = (0.0, None)
        for (r0, th, ph) in ((1.0, 0.7, 0.3), (2.5, 2.1, -1.2), (0.4, 1.3, 2.8), (3.0, 0.2, 4.0)):
            r = native_la(ctx, 81, [r0, th, ph], vecA=True)
            if r['status'] != 'ok': return True, 'native Spherical_Coordinates(%r,%r,%r): %s' % (r0, th, ph, r['status'])
            want = [r0 * math.sin(th) * math.cos(ph), r0 * math.sin(th) * math.sin(ph), r0 * math.cos(th)]; e = max(abs(a - b) for a, b in zip(r['out'][:3], want))
            if e > worst[0]: worst = (e, (r0, th, ph, r['out'][:3], want))
        return worst[0] > 1e-12, 'native Spherical_Coordinates(r,theta,phi) against r (sin theta cos phi, sin theta sin phi, cos theta): worst deviation %.3g at %s' % (worst[0], worst[1])
    if key.startswith('C16/rot3d') and 'axis' in m:
        ax = [fl(q) for q in m['axis']]
        if all(x == 0 for x in ax): return False, 'zero axis'
        al = math.atan2(fl(m['sin']), fl(m['cos']))
        r = native_la(ctx, 80, None, ax, s=al, i=3, vecB=True)
        if r['status'] != 'ok': return True, 'native Rotation_Matrix ended: %s' % r['status']
        R = [r['out'][3 * i:3 * i + 3] for i in range(3)]; nn = math.sqrt(sum(x * x for x in ax)); nh = [x / nn for x in ax]
        worst = max(abs(sum(R[k][i] * R[k][j] for k in range(3)) - (i == j)) for i in range(3) for j in range(3))
        worst = max(worst, max(abs(sum(R[i][k] * nh[k] for k in range(3)) - nh[i]) for i in range(3)))
        det = sum(R[0][p[0]] * R[1][p[1]] * R[2][p[2]] * (1 if sum(1 for x in range(3) for y in range(x + 1, 3) if p[x] > p[y]) % 2 == 0 else -1) for p in itertools.permutations(range(3)))
        worst = max(worst, abs(det - 1))
        # right-handedness with a perpendicular probe vector
        v = [nh[1], -nh[0], 0.0] if abs(nh[0]) + abs(nh[1]) > 0 else [1.0, 0.0, 0.0]
        Rv = [sum(R[i][k] * v[k] for k in range(3)) for i in range(3)]; cr = [nh[1] * v[2] - nh[2] * v[1], nh[2] * v[0] - nh[0] * v[2], nh[0] * v[1] - nh[1] * v[0]]
        worst = max(worst, max(abs(Rv[i] - (math.cos(al) * v[i] + math.sin(al) * cr[i])) for i in range(3)))
        return worst > 1e-9, 'native Rotation_Matrix(%r,3,%s): worst deviation from orthogonality/det/axis/right-handed turn %.3g' % (al, ax, worst)
    if key.startswith('C16/rot2d'):
        al = math.atan2(fl(m['alpha_sin']), fl(m['alpha_cos'])); r = native_la(ctx, 83, None, None, s=al, i=2)
        if r['status'] != 'ok': return True, 'native: ' + r['status']
        R = r['out'][:4]; want = [math.cos(al), -math.sin(al), math.sin(al), math.cos(al)]
        return max(abs(x - y) for x, y in zip(R, want)) > 1e-12, 'native Rotation_Matrix(%r,2) = %s' % (al, R)
    return False, 'no replay rule for ' + key
