"""C15 - QR factors and eigenpairs satisfy their defining equations (DESIGN.md section 2/C15)"""
from la_common import *
from C05 import leibniz

EXPLANATION = ('C15: real QR_Decomposition (Householder_Matrix, block constructor, Sub_Matrix, products) on a symbolic non-singular matrix: Q^T Q = I, R upper triangular, Q R = M on every sign path, divisors non-zero; '
               'reachability of exit() in Find_Eigenvector_Rayleigh / Eigensystem for a symmetric matrix with an exact eigenvalue.')
BOUNDS = {'quick': {'n_qr': [1, 2]}, 'thorough': {'n_qr': [1, 2, 3]}}
NOT_DECIDED = ['convergence of the unshifted QR iteration (>= 11 sweeps before the first test), termination of the inverse iteration, NaN from 0/0 in Relative_Difference: data-dependent iteration counts',
               'the Jacobi-reference / trace / determinant clauses of Eigenvalues (need the converged iteration)', 'n beyond the bound, rounding']
ASSUMPTIONS = ['doubles are exact reals; sqrt via witness', 'det(M) != 0']

def job_qr(n):
    res = []; A = syms('a', n, n); mv = {'A': flat(A), 'shapeA': [n, n], 'op': 70}
    mod = G['m']
    it = Interp(mod, merge_pure=False, limits=Limits(max_steps=30000000, max_paths=5000)); st = it.new_state(); st.pc.append(leibniz(A) != 0)
    pa = st.put_doubles(flat(A)); out = st.alloc(8 * 64); shp = st.alloc(16); dummy = st.alloc(8)
    paths = it.execute('@verif_la', [70, n, n, pa, 0, 0, dummy, 0.0, 0, 0, dummy, dummy, out, shp], st)
    nret = 0
    for pi, p in enumerate(paths):
        tag = 'qr/%d[%d]' % (n, pi)
        if p.end is not None:
            res.append(prove(tag + '/returns', p.st.pc, z3.BoolVal(False), 30000, mv, key='C15/qr/returns', detail=str(p.end), tactic='nra')); continue
        nret += 1
        Q = [[toR(p.st.load(out + 8 * (i * n + j), 8, True)) for j in range(n)] for i in range(n)]
        R = [[toR(p.st.load(out + 8 * (n * n + i * n + j), 8, True)) for j in range(n)] for i in range(n)]
        hyp = alg_assumptions(p.st)
        T = 60000 if n <= 2 else 300000
        res += divisor_obligations(tag, p.st, model_vars=mv, key='C15/qr/division-by-zero', timeout_ms=T, tactic='nra')
        for i in range(n):
            for j in range(n):
                res.append(prove(tag + '/QtQ=I[%d,%d]' % (i, j), hyp, sum(Q[k][i] * Q[k][j] for k in range(n)) == (1 if i == j else 0), T, mv, key='C15/qr/orthogonal', tactic='nra', sample=(n == 2 and pi == 0 and i == 0 and j == 0)))
                res.append(prove(tag + '/QR=M[%d,%d]' % (i, j), hyp, sum(Q[i][k] * R[k][j] for k in range(n)) == A[i][j], T, mv, key='C15/qr/product', tactic='nra'))
                if i > j: res.append(prove(tag + '/R-upper[%d,%d]' % (i, j), hyp, R[i][j] == 0, T, mv, key='C15/qr/upper'))
    if nret == 0: res.append(ob('qr/%d/reach' % n, 'broken', detail='no returning path'))
    return res

def job_rayleigh(n):
    """is exit() reachable in the inverse iteration for a symmetric matrix when lambda is an exact eigenvalue?  (diagonal M, lambda = M[0][0])"""
    res = []; d = [z3.Real('d%d' % i) for i in range(n)]
    M = [[d[i] if i == j else 0.0 for j in range(n)] for i in range(n)]
    pre = [d[i] != d[j] for i in range(n) for j in range(i + 1, n)] + [x != 0 for x in d]
    mv = {'A': [d[i] if i == j else 0.0 for i in range(n) for j in range(n)], 'shapeA': [n, n], 'op': 73, 's': d[0]}
    _, rs = run_la(73, M, s=d[0], pre=pre, limits=Limits(max_steps=3000000, max_paths=200))
    ex = [q for q in rs if q.end is not None and q.end.kind == 'exit']
    for pi, q in enumerate(ex[:3]):
        res.append(prove('rayleigh/%d/exact-eigenvalue-does-not-exit[%d]' % (n, pi), q.pc, z3.BoolVal(False), 30000, mv, key='C15/eigensystem/exit-on-exact-eigenvalue', detail='exit reached: ' + str([e for e in q.events if e[0] == 'diag'][:1])))
    if not ex: res.append(ob('rayleigh/%d/exact-eigenvalue-does-not-exit' % n, 'discharged' if all(q.end is None for q in rs) else 'undecided', key='C15/eigensystem/exit-on-exact-eigenvalue', detail='%d paths, ends: %s' % (len(rs), [str(q.end) for q in rs if q.end][:3])))
    return res

def jobs(ctx):
    module(ctx); J = [(job_qr, (n,)) for n in BOUNDS[ctx.tier]['n_qr']] + [(job_rayleigh, (2,))]
    return J

def validate(ctx):
    module(ctx); bad = []; n = 0
    for A in ([[2.0, 1.0], [1.0, 3.0]], [[4.0, -2.0, 1.0], [3.0, 6.0, -4.0], [2.0, 1.0, 8.0]]):
        _, rs = run_la(70, A); r = native_la(ctx, 70, A); n += 1
        if len(rs) != 1 or rs[0].end is not None or r['status'] != 'ok': bad.append('qr: %s / %s' % ([str(x.end) for x in rs], r['status'])); continue
        k = 2 * len(A) ** 2
        mine = [rs[0].st.load(rs[0].rawout + 8 * i, 8, True) for i in range(k)]
        if any(abs(x - y) > 1e-12 * max(abs(x), abs(y), 1e-300) for x, y in zip(mine, r['out'][:k])): bad.append('qr: %s vs %s' % (mine, r['out'][:k]))
    if bad: return [ob('translator-validation', 'broken', detail='; '.join(bad[:4]))]
    return [ob('translator-validation', 'discharged', backend='TV', detail='%d concrete QR decompositions: interpreter == native' % n)]

def replay(ctx, o):
    m = o['model'] or {}; key = o['key']
    if 'A' not in m: return False, 'no model'
    n = m['shapeA'][0]; A = model_mat(m, 'A', n, n)
    if key == 'C15/eigensystem/exit-on-exact-eigenvalue':
        r = native_la(ctx, 74, A)
        return (r['status'] == 'exit'), 'native Eigensystem(%s): %s' % (A, {k: r.get(k) for k in ('status', 'code')})
    r = native_la(ctx, 70, A)
    if r['status'] != 'ok': return True, 'native QR_Decomposition(%s) ended: %s' % (A, r['status'])
    Q = [r['out'][i * n:(i + 1) * n] for i in range(n)]; R = [r['out'][n * n + i * n:n * n + (i + 1) * n] for i in range(n)]
    if any(x != x for row in Q + R for x in row): return True, 'native QR_Decomposition(%s) contains NaN' % A
    sc = max(abs(x) for row in A for x in row) or 1.0
    worst = max([abs(sum(Q[k][i] * Q[k][j] for k in range(n)) - (i == j)) for i in range(n) for j in range(n)] + [abs(sum(Q[i][k] * R[k][j] for k in range(n)) - A[i][j]) / sc for i in range(n) for j in range(n)])
    return worst > 1e-8, 'native QR of %s: worst deviation of Q^T Q = I / Q R = M: %.3g' % (A, worst)
