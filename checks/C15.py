"""C15 - QR factors and eigenpairs satisfy their defining equations (DESIGN.md section 2/C15)"""
from la_common import *
from C05 import leibniz

EXPLANATION = ('C15: real QR_Decomposition (Householder_Matrix, block constructor, Sub_Matrix, products) on a symbolic non-singular matrix: Q^T Q = I, R upper triangular, Q R = M on every sign path, divisors non-zero; '
               'reachability of exit() in Find_Eigenvector_Rayleigh / Eigensystem for a symmetric matrix with an exact eigenvalue; inductive step over the sweep loop of Eigenvalues (arbitrary iterate, arbitrary factors of the sweep): it returns only when the sub-diagonal mass of R*Q is at most 1e-12 of its diagonal mass, and returns that diagonal.')
BOUNDS = {'quick': {'n_qr': [1, 2]}, 'thorough': {'n_qr': [1, 2, 3]}}
NOT_DECIDED = ['convergence of the unshifted QR iteration (>= 11 sweeps before the first test), termination of the inverse iteration, NaN from 0/0 in Relative_Difference: data-dependent iteration counts',
               'the Jacobi-reference / trace / determinant clauses of Eigenvalues (need the converged iteration)', 'n beyond the bound, rounding']
ASSUMPTIONS = ['doubles are exact reals; sqrt via witness', 'det(M) != 0']

def job_qr(n):
    res = []; A = syms('a', n, n); mv = {'A': flat(A), 'shapeA': [n, n], 'op': 70}
    mod = G['m']
    it = Interp(mod, merge_pure=False, limits=Limits(max_steps=30000000, max_paths=5000)); st = it.new_state(); st.pc.append(leibniz(A) != 0)
    pa = st.put_doubles(flat(A)); out = st.alloc(8 * 64); shp = st.alloc(16); dummy = st.alloc(8)
    paths = it.execute('@verif_la', [70, n, n, pa, 0, 0, dummy, 0.0, 0, 0, dummy, dummy, out, shp], st)
    nret = 0
    for pi, p in enumerate(paths):
        tag = 'qr/%d[%d]' % (n, pi)
        if p.end is not None:
            res.append(prove(tag + '/returns', p.st.pc, z3.BoolVal(False), 30000, mv, key='C15/qr/returns', detail=str(p.end), tactic='nra')); continue
        nret += 1
        Q = [[toR(p.st.load(out + 8 * (i * n + j), 8, True)) for j in range(n)] for i in range(n)]
        R = [[toR(p.st.load(out + 8 * (n * n + i * n + j), 8, True)) for j in range(n)] for i in range(n)]
        hyp = alg_assumptions(p.st)
        T = 60000 if n <= 2 else 20000      # n = 3: most identities over three nested square-root witnesses are beyond nlsat within minutes; short budget, undecided is reported as such
        res += divisor_obligations(tag, p.st, model_vars=mv, key='C15/qr/division-by-zero', timeout_ms=T, tactic='nra')
        for i in range(n):
            for j in range(n):
                res.append(prove(tag + '/QtQ=I[%d,%d]' % (i, j), hyp, sum(Q[k][i] * Q[k][j] for k in range(n)) == (1 if i == j else 0), T, mv, key='C15/qr/orthogonal', tactic='nra', sample=(n == 2 and pi == 0 and i == 0 and j == 0)))
                res.append(prove(tag + '/QR=M[%d,%d]' % (i, j), hyp, sum(Q[i][k] * R[k][j] for k in range(n)) == A[i][j], T, mv, key='C15/qr/product', tactic='nra'))
                if i > j: res.append(prove(tag + '/R-upper[%d,%d]' % (i, j), hyp, R[i][j] == 0, T, mv, key='C15/qr/upper'))
    if nret == 0: res.append(ob('qr/%d/reach' % n, 'broken', detail='no returning path'))
    return res

def job_eigen_loop(n):
    """inductive step over the QR iteration of Eigenvalues: at the loop header the iterate A (in memory) is replaced by an ARBITRARY n x n matrix and the sweep counter by an arbitrary value past the
       ten warm-up sweeps; one real sweep (QR_Decomposition, R*Q, convergence test) is executed.  The function returns only when the sub-diagonal mass of the new iterate is at most 1e-12 of its
       diagonal mass, and what it returns is that diagonal; the back edge advances the counter by one."""
    res = []; tag = 'eigenvalues/loop-step/n%d' % n; S = syms('s', n, n); I0 = z3.Int('h_i'); info = {}
    fns = [k for k in G['m'].funcs if '11EigenvaluesERKNS_6MatrixE' in k]
    if len(fns) != 1: return [ob(tag + '/function', 'broken', detail=str(fns))]
    f = G['m'].funcs[fns[0]]; heads = [b for b in loop_headers(f) if any(I.op == 'phi' and I.dest.lstrip('%').split('.')[0] == 'i' for I in f.blocks[b])]
    if len(heads) != 1 or '%A' not in [I.dest for I in f.blocks[f.order[0]] if I.op == 'alloca']: return [ob(tag + '/loop-state', 'undecided', key='C15/eigenvalues/loop-step', detail='sweep loop / iterate not found: %s' % heads)]
    def handler(it, f_, blk, regs, st):
        for I in f_.blocks[blk]:
            if I.op == 'phi' and I.dest.lstrip('%').split('.')[0] == 'i': regs[I.dest] = I0; info['i'] = I.dest
            elif I.op == 'phi': raise Unsupported('unexpected loop-carried register %s in Eigenvalues' % I.dest)
        a = regs['%A']; rows = st.load(a, 8); ptrs = []
        for j in range(n):
            d = st.load(rows + 24 * j, 8); ptrs.append(d)
            for k in range(n): st.store(d + 8 * k, 8, S[j][k])
        info['ptrs'] = ptrs; st.pc += [I0 >= 11, I0 <= 198]; st.events.append(('havoc-done',))
    M0 = [[2.0 + j if j == k else 0.5 for k in range(n)] for j in range(n)]
    Qs = syms('q', n, n); Rs = syms('r', n, n)
    def put_matrix(st, addr, M):
        rows = st.alloc(24 * n)
        for j in range(n):
            d = st.put_doubles(M[j]); st.store(rows + 24 * j, 8, d); st.store(rows + 24 * j + 8, 8, d + 8 * n); st.store(rows + 24 * j + 16, 8, d + 8 * n)
        st.store(addr, 8, rows); st.store(addr + 8, 8, rows + 24 * n); st.store(addr + 16, 8, rows + 24 * n); st.store(addr + 24, 4, n); st.store(addr + 28, 4, n)
    def any_qr(it, args, st, depth):
        # the factors of the sweep are arbitrary matrices here: their defining equations are the subject of job_qr; this job is about what the loop does with them
        if not any(e[0] == 'havoc-done' for e in st.events): return NotImplemented
        put_matrix(st, args[0], Qs); put_matrix(st, args[0] + 32, Rs); st.events.append(('anyqr',)); return [(st, None)]
    it, rs = run_la(72, A=M0, havoc={(fns[0], heads[0]): handler}, intercept={'@_ZN10libphysica16QR_DecompositionERKNS_6MatrixE': any_qr}, limits=Limits(max_steps=30000000, max_paths=3000, feas_ms=2000, max_seconds=400))
    mv = {'S': flat(S), 'Q': flat(Qs), 'R': flat(Rs), 'shapeA': [n, n], 'op': 72, 'h_i': I0, 'loop_step': 1}; nret = nback = 0
    for pi, r in enumerate(rs):
        if r.end is None:
            nret += 1; cells = [[r.st.mem.get(info['ptrs'][j] + 8 * k) for k in range(n)] for j in range(n)]      # the iterate after the sweep (its storage is released on return; the cells are still there)
            if any(c is None for row in cells for c in row): res.append(ob('%s/iterate-readable[%d]' % (tag, pi), 'undecided', key='C15/eigenvalues/loop-step', detail='iterate storage moved')); continue
            A1 = [[toR(c[1]) for c in row] for row in cells]; off = sum(Abs(A1[k][j]) for j in range(n) for k in range(j + 1, n)); dg = sum(Abs(A1[j][j]) for j in range(n))
            hyp = r.pc + alg_assumptions(r.st)
            res.append(prove('%s/returns-only-when-nearly-triangular[%d]' % (tag, pi), hyp, off <= RV(1e-12) * dg, 60000, mv, key='C15/eigenvalues/loop-exit', tactic='nra', sample=(nret == 1)))
            res.append(prove('%s/returns-the-diagonal[%d]' % (tag, pi), hyp, z3.And(*[toR(r.out[j]) == A1[j][j] for j in range(n)]), 60000, mv, key='C15/eigenvalues/loop-value', tactic='nra'))
        elif r.end.kind == 'backedge':
            nback += 1; be = [e for e in r.events if e[0] == 'backedge'][-1][2]
            res.append(prove('%s/back-edge-advances-the-sweep-counter[%d]' % (tag, pi), r.pc, toI(be[info['i']]) == I0 + 1, 20000, mv, key='C15/eigenvalues/loop-counter'))
        elif r.end.kind == 'exit':
            # leaving through exit(): only "did not converge" at the last sweep, or QR_Decomposition's own guards on a singular iterate
            res.append(ob('%s/exit-path[%d]' % (tag, pi), 'discharged', key='C15/eigenvalues/loop-step', detail='exit path (singular iterate or sweep cap): %s' % r.end))
        elif r.end.kind != 'cutoff':
            res.append(prove('%s/no-%s[%d]' % (tag, r.end.kind, pi), r.pc, z3.BoolVal(False), 20000, mv, key='C15/eigenvalues/' + r.end.kind, detail=str(r.end)))
    res.append(ob(tag + '/coverage', 'discharged' if nret and nback else 'broken', key='C15/coverage', detail='%d returning, %d back-edge paths from the arbitrary iterate' % (nret, nback)))
    return res
def Abs(x): return z3.If(x >= 0, x, -x)

def job_rayleigh(n):
    """is exit() reachable in the inverse iteration for a symmetric matrix when lambda is an exact eigenvalue?  (diagonal M, lambda = M[0][0])"""
    res = []; d = [z3.Real('d%d' % i) for i in range(n)]
    M = [[d[i] if i == j else 0.0 for j in range(n)] for i in range(n)]
    pre = [d[i] != d[j] for i in range(n) for j in range(i + 1, n)] + [x != 0 for x in d]
    mv = {'A': [d[i] if i == j else 0.0 for i in range(n) for j in range(n)], 'shapeA': [n, n], 'op': 73, 's': d[0]}
    _, rs = run_la(73, M, s=d[0], pre=pre, limits=Limits(max_steps=3000000, max_paths=200))
    ex = [q for q in rs if q.end is not None and q.end.kind == 'exit']
    for pi, q in enumerate(ex[:3]):
        res.append(prove('rayleigh/%d/exact-eigenvalue-does-not-exit[%d]' % (n, pi), q.pc, z3.BoolVal(False), 30000, mv, key='C15/eigensystem/exit-on-exact-eigenvalue', detail='exit reached: ' + str([e for e in q.events if e[0] == 'diag'][:1])))
    if not ex: res.append(ob('rayleigh/%d/exact-eigenvalue-does-not-exit' % n, 'discharged' if all(q.end is None for q in rs) else 'undecided', key='C15/eigensystem/exit-on-exact-eigenvalue', detail='%d paths, ends: %s' % (len(rs), [str(q.end) for q in rs if q.end][:3])))
    return res

def jobs(ctx):
    module(ctx); J = [(job_qr, (n,)) for n in BOUNDS[ctx.tier]['n_qr']] + [(job_rayleigh, (2,)), (job_eigen_loop, (2,))]
    return J

def validate(ctx):
    module(ctx); bad = []; n = 0
    for A in ([[2.0, 1.0], [1.0, 3.0]], [[4.0, -2.0, 1.0], [3.0, 6.0, -4.0], [2.0, 1.0, 8.0]]):
        _, rs = run_la(70, A); r = native_la(ctx, 70, A); n += 1
        if len(rs) != 1 or rs[0].end is not None or r['status'] != 'ok': bad.append('qr: %s / %s' % ([str(x.end) for x in rs], r['status'])); continue
        k = 2 * len(A) ** 2
        mine = [rs[0].st.load(rs[0].rawout + 8 * i, 8, True) for i in range(k)]
        if any(abs(x - y) > 1e-12 * max(abs(x), abs(y), 1e-300) for x, y in zip(mine, r['out'][:k])): bad.append('qr: %s vs %s' % (mine, r['out'][:k]))
    if bad: return [ob('translator-validation', 'broken', detail='; '.join(bad[:4]))]
    return [ob('translator-validation', 'discharged', backend='TV', detail='%d concrete QR decompositions: interpreter == native' % n)]

def replay(ctx, o):
    m = o['model'] or {}; key = o['key']
    if m.get('loop_step'):
        # the model is an arbitrary iterate of the sweep loop, not an input: native confirmation = Eigenvalues on symmetric matrices with eigenvalues separated in magnitude and of either sign (the property's quantifier) against numpy
        import numpy as np
        worst = (0.0, None)
        for lam in ([-3.0, 1.0], [3.0, -1.0], [-5.0, -2.0], [4.0, 1.5], [-4.0, 2.0, 0.7], [5.0, -2.0, -0.6], [-6.0, -2.5, 1.0], [2.0, -0.9, 0.4, -0.15]):
            k = len(lam)
            for t in (0.3, 1.1):
                Qm = np.eye(k)
                for a in range(k):
                    for b in range(a + 1, k):
                        Gm = np.eye(k); c, s_ = math.cos(t + a + 2 * b), math.sin(t + a + 2 * b); Gm[a, a] = c; Gm[b, b] = c; Gm[a, b] = -s_; Gm[b, a] = s_; Qm = Qm @ Gm
                Mm = Qm @ np.diag(lam) @ Qm.T; Mm = (Mm + Mm.T) / 2
                r = native_la(ctx, 72, [[float(x) for x in row] for row in Mm])
                if r['status'] != 'ok': return True, 'native Eigenvalues(Q diag(%s) Q^T): %s' % (lam, r['status'])
                e = max(abs(x - y) for x, y in zip(sorted(r['out'][:k]), sorted(lam)))
                if e > worst[0]: worst = (e, (lam, sorted(r['out'][:k])))
        return worst[0] > 1e-8, 'native Eigenvalues on symmetric matrices Q diag(lambda) Q^T: worst deviation %.3g for lambda = %s' % (worst[0], worst[1])
    if 'A' not in m: return False, 'no model'
    n = m['shapeA'][0]; A = model_mat(m, 'A', n, n)
    if key == 'C15/eigensystem/exit-on-exact-eigenvalue':
        r = native_la(ctx, 74, A)
        return (r['status'] == 'exit'), 'native Eigensystem(%s): %s' % (A, {k: r.get(k) for k in ('status', 'code')})
    r = native_la(ctx, 70, A)
    if r['status'] != 'ok': return True, 'native QR_Decomposition(%s) ended: %s' % (A, r['status'])
    Q = [r['out'][i * n:(i + 1) * n] for i in range(n)]; R = [r['out'][n * n + i * n:n * n + (i + 1) * n] for i in range(n)]
    if any(x != x for row in Q + R for x in row): return True, 'native QR_Decomposition(%s) contains NaN' % A
    sc = max(abs(x) for row in A for x in row) or 1.0
    worst = max([abs(sum(Q[k][i] * Q[k][j] for k in range(n)) - (i == j)) for i in range(n) for j in range(n)] + [abs(sum(Q[i][k] * R[k][j] for k in range(n)) - A[i][j]) / sc for i in range(n) for j in range(n)])
    return worst > 1e-8, 'native QR of %s: worst deviation of Q^T Q = I / Q R = M: %.3g' % (A, worst)
