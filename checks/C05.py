"""C05 - Inverse and Determinant are correct for every square matrix (DESIGN.md section 2/C05)"""
from la_common import *

EXPLANATION = ('C05: real Matrix::Determinant equals the Leibniz polynomial; Invertible <=> det != 0; on every returning elimination path of the real Matrix::Inverse X*M = I and M*X = I entrywise '
               '(rational identities under the path pivot conditions); every matrix with non-zero determinant reaches a returning path (totality); singular and non-square matrices exit after a diagnostic.')
BOUNDS = {'quick': {'n_det': [1, 2, 3, 4], 'n_inv': [1, 2, 3]}, 'thorough': {'n_det': [1, 2, 3, 4, 5], 'n_inv': [1, 2, 3, 4]}}
NOT_DECIDED = ['the kappa*n*eps floating-point accuracy clause and growth with tiny pivots (rounding)', 'n beyond the bound']
ASSUMPTIONS = ['doubles are exact reals', 'entries symbolic, sizes enumerated']

def leibniz(A):
    n = len(A); tot = z3.RealVal(0)
    for perm in itertools.permutations(range(n)):
        inv = sum(1 for i in range(n) for j in range(i + 1, n) if perm[i] > perm[j])
        t = z3.RealVal(1 if inv % 2 == 0 else -1)
        for i in range(n): t = t * A[i][perm[i]]
        tot = tot + t
    return tot

def job_det(n):
    res = []; A = syms('a', n, n); mv = {'A': flat(A), 'shapeA': [n, n], 'op': 60}
    _, rs = run_la(60, A, limits=Limits(max_steps=20000000))
    for pi, r in enumerate(rs):
        if r.end is not None: res.append(prove('det/%d/defined[%d]' % (n, pi), r.pc, z3.BoolVal(False), 10000, mv, key='C05/det/defined', detail=str(r.end))); continue
        res.append(prove('det/%d/leibniz[%d]' % (n, pi), r.pc, toR(r.out[0]) == leibniz(A), 120000, dict(mv, _want=leibniz(A), _k=0), key='C05/det/leibniz', sample=(n == 3)))
    if n <= 3:
        # corollaries checked directly through the real code: transpose invariance, row swap sign, triangular product
        d0 = rs[0].out[0] if rs and rs[0].end is None else None
        _, rt_ = run_la(60, [[A[j][i] for j in range(n)] for i in range(n)])
        if d0 is not None and rt_ and rt_[0].end is None: res.append(prove('det/%d/transpose-invariant' % n, [], toR(rt_[0].out[0]) == toR(d0), 60000, mv, key='C05/det/transpose'))
        if n >= 2:
            sw = [A[1], A[0]] + A[2:]
            _, rw = run_la(60, sw)
            if d0 is not None and rw and rw[0].end is None: res.append(prove('det/%d/row-swap-sign' % n, [], toR(rw[0].out[0]) == -toR(d0), 60000, mv, key='C05/det/row-swap'))
        tri = [[A[i][j] if j >= i else 0.0 for j in range(n)] for i in range(n)]
        _, rtr = run_la(60, tri)
        if rtr and rtr[0].end is None:
            prod = z3.RealVal(1)
            for i in range(n): prod = prod * A[i][i]
            res.append(prove('det/%d/triangular' % n, [], toR(rtr[0].out[0]) == prod, 60000, mv, key='C05/det/triangular'))
        B = syms('b', n, n)
        _, pab = run_la(7, A, B)
        if pab and pab[0].end is None:
            _, dab = run_la(60, mat(pab[0], n, n)); _, db = run_la(60, B)
            if d0 is not None and dab and dab[0].end is None and db[0].end is None:
                res.append(prove('det/%d/multiplicative' % n, [], toR(dab[0].out[0]) == toR(d0) * toR(db[0].out[0]), 120000, mv, key='C05/det/multiplicative'))
    return res

def job_det_nonsquare(r, c):
    A = syms('a', r, c); mv = {'A': flat(A), 'shapeA': [r, c], 'op': 60}; res = []
    for op, nm in ((60, 'Determinant'), (62, 'Inverse')):
        _, rs = run_la(op, A)
        bad = [q for q in rs if not (q.end is not None and q.end.kind == 'exit' and any(e[0] == 'diag' for e in q.events))]
        if bad: res.append(prove('%s/nonsquare/%dx%d' % (nm, r, c), bad[0].pc, z3.BoolVal(False), 10000, dict(mv, op=op), key='C05/%s/nonsquare-rejects' % nm, detail=str(bad[0].end)))
        else: res.append(ob('%s/nonsquare/%dx%d' % (nm, r, c), 'discharged', key='C05/%s/nonsquare-rejects' % nm, detail='exits after a diagnostic'))
    _, rs = run_la(61, A)
    ok = all(q.end is None and not is_sym(q.out[0]) and q.out[0] == 0.0 for q in rs)
    res.append(ob('Invertible/nonsquare/%dx%d' % (r, c), 'discharged' if ok else 'candidate', key='C05/Invertible/nonsquare', model=None if ok else dict(mv, op=61), detail='returns false'))
    return res

def job_invertible(n):
    res = []; A = syms('a', n, n); mv = {'A': flat(A), 'shapeA': [n, n], 'op': 61}
    _, rs = run_la(61, A)
    for pi, r in enumerate(rs):
        if r.end is not None: res.append(prove('invertible/%d/defined[%d]' % (n, pi), r.pc, z3.BoolVal(False), 10000, mv, key='C05/invertible/defined', detail=str(r.end))); continue
        res.append(prove('invertible/%d/iff-det-nonzero[%d]' % (n, pi), r.pc, (toR(r.out[0]) == 1) == (leibniz(A) != 0), 60000, dict(mv, _want=z3.If(leibniz(A) != 0, z3.RealVal(1), z3.RealVal(0)), _k=0), key='C05/invertible/iff'))
        res.append(prove('invertible/%d/boolean[%d]' % (n, pi), r.pc, z3.Or(toR(r.out[0]) == 1, toR(r.out[0]) == 0), 60000, mv, key='C05/invertible/iff'))
    return res

def job_inverse(n, ei=None, ej=None):
    res = []; A = syms('a', n, n); mv = {'A': flat(A), 'shapeA': [n, n], 'op': 62}; det = leibniz(A)
    _, rs = run_la(62, A, limits=Limits(max_steps=20000000, max_paths=20000))
    nret = 0
    for pi, r in enumerate(rs):
        if r.end is not None:
            if ei is not None: continue
            if r.end.kind == 'exit':
                # totality: a matrix with non-zero determinant must not be rejected
                res.append(prove('inverse/%d/exit-only-singular[%d]' % (n, pi), r.pc, det == 0, 120000, mv, key='C05/inverse/total', detail='an exit path must imply det = 0', tactic='nra'))
                if not any(e[0] == 'diag' for e in r.events): res.append(ob('inverse/%d/exit-diagnostic[%d]' % (n, pi), 'candidate', key='C05/inverse/diagnostic', model=mv and None))
            else: res.append(prove('inverse/%d/no-%s[%d]' % (n, r.end.kind, pi), r.pc, z3.BoolVal(False), 20000, mv, key='C05/inverse/' + r.end.kind, detail=str(r.end)))
            continue
        nret += 1
        if ei is None: continue
        if r.shape[:2] != [n, n]: res.append(ob('inverse/%d/shape[%d]' % (n, pi), 'candidate', key='C05/inverse/shape', model=mv, detail=str(r.shape))); continue
        X = mat(r, n, n)
        if (ei, ej) == (0, 0): res.append(prove('inverse/%d/returns-only-invertible[%d]' % (n, pi), r.pc, det != 0, 120000, mv, key='C05/inverse/singular-rejected', tactic='nra'))
        for i in [ei]:
            for j in [ej]:
                xm = sum((toR(X[i][k]) * A[k][j] for k in range(n)), z3.RealVal(0)); mx = sum((A[i][k] * toR(X[k][j]) for k in range(n)), z3.RealVal(0))
                res.append(prove('inverse/%d/X*M=I[%d,%d,%d]' % (n, pi, i, j), alg_assumptions(r.st), xm == (1 if i == j else 0), 60000 if GTIER['t'] == 'quick' else 300000, mv, key='C05/inverse/XM=I', sample=(n == 2 and pi == 0 and i == 0 and j == 0), tactic='nra'))
                if n <= 2 or GTIER['t'] == 'thorough':
                    res.append(prove('inverse/%d/M*X=I[%d,%d,%d]' % (n, pi, i, j), alg_assumptions(r.st), mx == (1 if i == j else 0), 60000 if n <= 2 else 300000, mv, key='C05/inverse/MX=I', tactic='nra'))
        if (ei, ej) == (0, 0):
            res += divisor_obligations('inverse/%d/p%d' % (n, pi), r.st, model_vars=mv, key='C05/inverse/division-by-zero')
            # growth control of partial pivoting (the mechanism behind the kappa*n*eps accuracy clause): the multiplier of every row BELOW the pivot is at most 1 in magnitude.
            # Gauss-Jordan order of the ratio divisions: for pivot i, rows j = 0..n-1 (j != i); afterwards n*n normalisation divisions.
            divs = [e for e in r.st.events if e[0] == 'div' and len(e) > 3]
            order = [(i, j) for i in range(n) for j in range(n) if j != i]
            if len(divs) == len(order) + n * n:
                for (i, j), e in zip(order, divs):
                    if j > i:
                        res.append(prove('inverse/%d/multiplier-bounded[%d,pivot%d,row%d]' % (n, pi, i, j), r.pc, z3.If(toR(e[3]) >= 0, toR(e[3]), -toR(e[3])) <= z3.If(e[1] >= 0, e[1], -e[1]), 60000, mv, key='C05/inverse/multiplier-bounded', tactic='nra'))
            else: res.append(ob('inverse/%d/multiplier-bounded[%d]' % (n, pi), 'undecided', detail='elimination performed %d divisions, expected %d: cannot map them to (pivot,row)' % (len(divs), len(order) + n * n)))
    if nret == 0: res.append(ob('inverse/%d/reach' % n, 'broken', detail='no returning path'))
    return res

GTIER = {'t': 'quick'}
def jobs(ctx):
    GTIER['t'] = ctx.tier; module(ctx); b = BOUNDS[ctx.tier]; J = []
    for n in b['n_inv']:
        J.append((job_inverse, (n,))); J.append((job_invertible, (n,)))
        for i in range(n):
            for j in range(n): J.append((job_inverse, (n, i, j)))
    for n in b['n_det']: J.append((job_det, (n,)))
    for r, c in ((1, 2), (2, 1), (2, 3), (3, 2)): J.append((job_det_nonsquare, (r, c)))
    J.sort(key=lambda j: -j[1][0] if j[0] in (job_inverse, job_det) else 0)
    return J

def validate(ctx):
    module(ctx); bad = []; n = 0
    for A in ([[2.0, 1.0], [1.0, 3.0]], [[4.0, -2.0, 1.0], [3.0, 6.0, -4.0], [2.0, 1.0, 8.0]], [[0.5]]):
        for op in (60, 62):
            _, rs = run_la(op, A); r = native_la(ctx, op, A); n += 1
            if len(rs) != 1 or rs[0].end is not None or r['status'] != 'ok': bad.append('op %d: %s / %s' % (op, [str(x.end) for x in rs], r['status'])); continue
            k = rs[0].shape[0] * rs[0].shape[1]
            if any(abs(x - y) > 1e-12 * max(abs(x), abs(y), 1e-300) for x, y in zip(rs[0].out, r['out'][:k])): bad.append('op %d: %s vs %s' % (op, rs[0].out, r['out'][:k]))
    if bad: return [ob('translator-validation', 'broken', detail='; '.join(bad[:4]))]
    return [ob('translator-validation', 'discharged', backend='TV', detail='%d concrete Determinant/Inverse calls: interpreter == native' % n)]

def replay(ctx, o):
    m = o['model'] or {}
    if 'A' not in m: return False, 'no model'
    n = m['shapeA'][0]; c = m['shapeA'][1]; A = model_mat(m, 'A', n, c); op = m['op']; key = o['key']
    r = native_la(ctx, op, A)
    import fractions
    def det_exact():
        Q = [[fractions.Fraction(*q) if isinstance(q, list) else fractions.Fraction(q) for q in m['A'][i * n:(i + 1) * n]] for i in range(n)]
        tot = 0
        for perm in itertools.permutations(range(n)):
            inv = sum(1 for i in range(n) for j in range(i + 1, n) if perm[i] > perm[j]); t = fractions.Fraction(-1 if inv % 2 else 1)
            for i in range(n): t *= Q[i][perm[i]]
            tot += t
        return tot
    if key == 'C05/inverse/total':
        d = det_exact()
        if d == 0: return False, 'model determinant is zero'
        if r['status'] == 'ok': return False, 'native Inverse returned'
        return True, 'matrix %s has determinant %s but native Inverse() ended with %s' % (A, d, {k: r.get(k) for k in ('status', 'code')})
    if key.endswith('nonsquare-rejects'): return (r['status'] != 'exit'), 'native %s' % r['status']
    if r['status'] != 'ok':
        return (key != 'C05/inverse/singular-rejected'), 'native call ended with %s' % {k: r.get(k) for k in ('status', 'code')}
    out = r['out'][:r['shape'][0] * r['shape'][1]]
    if '_want' in m and isinstance(m['_want'], list):
        w = q2f(m['_want']); g = out[m['_k']]
        return abs(g - w) > 1e-9 * max(abs(g), abs(w), 1e-300), 'native result %r, definition %r' % (g, w)
    if key.startswith('C05/det/'):
        # any determinant law: the native Determinant of the model matrix against the exact Leibniz value (the laws fail only if this value is wrong for some matrix; the triangular / product / swapped variants are tried too)
        import numpy as np
        tests = [A, [[A[i][j] if j >= i else 0.0 for j in range(n)] for i in range(n)], [A[1], A[0]] + A[2:] if n >= 2 else A, [[float((i + 2) * (j + 1) % 5 + (i == j) * 3) for j in range(n)] for i in range(n)]]
        for T in tests:
            rt = native_la(ctx, 60, T)
            if rt['status'] != 'ok': return True, 'native Determinant(%s): %s' % (T, rt['status'])
            want = float(np.linalg.det(np.array(T))) if n > 0 else 1.0
            if abs(rt['out'][0] - want) > 1e-9 * max(1.0, abs(want)): return True, 'native Determinant(%s) = %r, numpy gives %r' % (T, rt['out'][0], want)
        return False, 'native Determinant agrees with numpy on the model matrix and its triangular / swapped variants'
    if key == 'C05/inverse/multiplier-bounded':
        r2 = native_la(ctx, 62, A, read_globals=('libphysica_verif_inverse_max_multiplier',))
        if r2['status'] != 'ok': return False, 'native Inverse did not return'
        mx = r2['globals']['libphysica_verif_inverse_max_multiplier']
        return mx > 1.0 + 1e-12, 'native Inverse of %s applied a below-pivot multiplier of magnitude %r (hook libphysica_verif_inverse_max_multiplier); partial pivoting bounds it by 1' % (A, mx)
    if key in ('C05/inverse/XM=I', 'C05/inverse/MX=I', 'C05/inverse/singular-rejected'):
        if key == 'C05/inverse/singular-rejected': return det_exact() == 0, 'native Inverse returned %s for a matrix with exact determinant %s' % (out, det_exact())
        X = [out[i * n:(i + 1) * n] for i in range(n)]; worst = 0.0
        for i in range(n):
            for j in range(n):
                worst = max(worst, abs(sum(X[i][k] * A[k][j] for k in range(n)) - (i == j)), abs(sum(A[i][k] * X[k][j] for k in range(n)) - (i == j)))
        return worst > 1e-6, 'native Inverse of %s: max |X*M-I|,|M*X-I| = %.3g' % (A, worst)
    return False, 'no replay rule for ' + key
