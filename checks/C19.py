"""C19 - Partition, grid, search, list and summary-statistics helpers (DESIGN.md section 2/C19)"""
import itertools, math
import z3
from llsym import *
from check import *
import native as nat
import bp, sf_common

EXPLANATION = ('C19: CBMC on the IR-derived C of the real Workload_Distribution for all arguments in the bound (size, end points, monotonicity, differences within 1) and, on IEEE doubles, Variance of three finite values is a non-negative number (never negative, never NaN); EA with symbolic integers on Range (exact half-open integer range in the stated direction); '
               'EA on Linear_Space / Log_Space (count, end points, equal spacing, monotonicity), Locate_Closest_Location (index in range, nearest element, unsorted input exits), the list templates on symbolic doubles for every length combination in the bound, '
               'and Arithmetic_Mean / Variance / Standard_Deviation / Median (sorting-network oracle) / Weighted_Average (equal weights reduce to mean and s/sqrt(N); arbitrary positive weights, N <= 3: the average is sum(w x)/sum(w) and the squared standard error is N/((N-1) W^2) sum w_i^2 (x_i - avg)^2, from which the translation and scaling laws follow).')
BOUNDS = {'quick': {'workers': 8, 'tasks': 64, 'range': 6, 'steps': [2, 3, 4, 5], 'list_len': 3, 'stat_n': [1, 2, 3, 4, 5]}, 'thorough': {'workers': 12, 'tasks': 1024, 'range': 10, 'steps': [2, 3, 4, 5, 6, 8], 'list_len': 4, 'stat_n': [1, 2, 3, 4, 5, 6]}}
NOT_DECIDED = ['float spacing degeneracy of Linear_Space/Log_Space for huge step counts (rounding)', 'sizes beyond the bound']
ASSUMPTIONS = ['EA: doubles exact reals, exp/log uninterpreted with exp(log x) = x where named', 'BP: CBMC bit-precise on the generated C, unwinding assertions on']

SRCS = ['Utilities.cpp', 'Special_Functions.cpp', 'Natural_Units.cpp', 'Linear_Algebra.cpp']
NATIVE_SRCS = ['Numerics.cpp', 'Special_Functions.cpp', 'Utilities.cpp', 'Linear_Algebra.cpp', 'Integration.cpp', 'Statistics.cpp', 'Natural_Units.cpp']
KEEP = ['verif_workload', 'verif_range', 'verif_range1', 'verif_space', 'verif_closest', 'verif_lists', 'verif_in_units', 'verif_count_lines', 'verif_import_table', 'verif_import_list', 'verif_export_table', 'verif_export_list']
G = {}
def module(ctx):
    if 'm' not in G: G['m'] = ctx.lower(SRCS, 'UT.cpp', KEEP, exceptions=True)
    return G['m']
def native(ctx): return ctx.native(NATIVE_SRCS, 'UT.cpp')
def run(fname, args, pre=(), limits=None, intercept=None):
    it = Interp(G['m'], intercept=intercept, limits=limits); st = it.new_state(); st.pc += list(pre)
    args = [a(st) if callable(a) else a for a in args]
    return it, it.execute(fname, args, st)

def job_space(logarithmic, steps):
    res = []; MN, MX = z3.Real('mn'), z3.Real('mx'); nm = 'Log_Space' if logarithmic else 'Linear_Space'; outp = {}
    def out(st): outp['a'] = st.alloc(8 * 16); return outp['a']
    E, Lg = uf('exp'), uf('log')
    for orient, pre in (('ascending', [MN < MX]), ('descending', [MN > MX])):
        pre = pre + ([MN > 0, MX > 0] if logarithmic else [])
        _, ps = run('@verif_space', [logarithmic, MN, MX, steps, out, 16], pre=pre)
        mv = {'mn': MN, 'mx': MX, 'steps': steps, 'log': logarithmic}
        for pi, p in enumerate(ps):
            tag = '%s/steps%d/%s[%d]' % (nm, steps, orient, pi)
            if p.end is not None: res.append(prove(tag + '/returns', p.st.pc, z3.BoolVal(False), 10000, mv, key='C19/space/returns', detail=str(p.end))); continue
            okn = p.ret == steps
            res.append(ob(tag + '/count', 'discharged' if okn else 'candidate', key='C19/space/count', model=None if okn else mv, detail='%s points for steps=%d' % (p.ret, steps)))
            if not okn: continue
            v = [toR(p.st.load(outp['a'] + 8 * k, 8, True)) for k in range(steps)]; hyp = p.st.pc + alg_assumptions(p.st)
            if not logarithmic:
                res.append(prove(tag + '/end-points', hyp, z3.And(v[0] == MN, v[-1] == MX), 20000, mv, key='C19/space/end-points'))
                res.append(prove(tag + '/equal-spacing', hyp, z3.And(*[v[k + 1] - v[k] == (MX - MN) / (steps - 1) for k in range(steps - 1)]), 20000, mv, key='C19/space/equal-spacing', sample=(steps == 3 and orient == 'ascending')))
                res.append(prove(tag + '/strictly-monotone', hyp, z3.And(*[(v[k] < v[k + 1]) if orient == 'ascending' else (v[k] > v[k + 1]) for k in range(steps - 1)]), 20000, mv, key='C19/space/monotone'))
            else:
                # points are exp(log(min) + k * log(max/min)/(steps-1)): equally spaced in the logarithm by construction; end points with exp(log x) = x and log(a/b) = log a - log b
                ax = [E(Lg(MN)) == MN, E(Lg(MX)) == MX, Lg(MX / MN) == Lg(MX) - Lg(MN)]
                res.append(prove(tag + '/form', hyp, z3.And(*[v[k] == E(Lg(MN) + k * (Lg(MX / MN) / (steps - 1))) for k in range(steps)]), 20000, mv, key='C19/space/log-form'))
                res.append(prove(tag + '/end-points', hyp + ax, z3.And(v[0] == MN, v[-1] == MX), 20000, mv, key='C19/space/end-points'))
    # degenerate requests return the single point {min}
    for st_, a, b in ((1, 1.0, 2.0), (0, 1.0, 2.0), (4, 3.0, 3.0)):
        _, ps = run('@verif_space', [logarithmic, a, b, st_, out, 16])
        ok = len(ps) == 1 and ps[0].end is None and ps[0].ret == 1 and ps[0].st.load(outp['a'], 8, True) == a
        res.append(ob('%s/degenerate(steps=%d,min=%r,max=%r)' % (nm, st_, a, b), 'discharged' if ok else 'candidate', key='C19/space/degenerate', model=None if ok else {'steps': st_, 'mn': [int(a), 1], 'mx': [int(b), 1], 'log': logarithmic}, detail='returns {min}'))
    return res

def job_closest(n):
    res = []; L = [z3.Real('e%d' % i) for i in range(n)]; T = z3.Real('target'); mv = {'list': L, 'target': T, 'n': n}
    _, ps = run('@verif_closest', [n, lambda st: st.put_doubles(L), T], limits=Limits(max_paths=2000, feas_ms=2000))
    sorted_c = z3.And(*([L[i] <= L[i + 1] for i in range(n - 1)] + [z3.BoolVal(True)])); nret = 0
    Abs = lambda x: z3.If(x >= 0, x, -x)
    for pi, p in enumerate(ps):
        tag = 'closest/n%d[%d]' % (n, pi)
        if p.end is not None:
            if p.end.kind == 'exit': res.append(prove(tag + '/exit-only-unsorted', p.st.pc, z3.Not(sorted_c), 10000, mv, key='C19/closest/exit-only-unsorted'))
            else: res.append(prove(tag + '/no-' + p.end.kind, p.st.pc, z3.BoolVal(False), 10000, mv, key='C19/closest/' + p.end.kind, detail=str(p.end)))
            continue
        nret += 1; k = p.ret
        if is_sym(k) and z3.is_int_value(z3.simplify(k)): k = z3.simplify(k).as_long()
        if is_sym(k) or not (0 <= k < n): res.append(prove(tag + '/index-in-range', p.st.pc, z3.BoolVal(False), 10000, mv, key='C19/closest/index-range', detail='returned %s' % k)); continue
        res.append(prove(tag + '/sorted-input', p.st.pc, sorted_c, 10000, mv, key='C19/closest/returns-only-sorted'))
        res.append(prove(tag + '/nearest', p.st.pc, z3.And(*[Abs(L[k] - T) <= Abs(L[j] - T) for j in range(n)]), 20000, mv, key='C19/closest/nearest', sample=(n == 3 and nret == 1)))
    res.append(ob('closest/n%d/coverage' % n, 'discharged' if nret else 'broken', key='C19/coverage', detail='%d returning paths' % nret))
    return res

def job_lists(n1, n2):
    res = []; A = [z3.Real('a%d' % i) for i in range(n1)]; B = [z3.Real('b%d' % i) for i in range(n2)]; V = z3.Real('value'); outp = {}; CAP = 32
    def out(st): outp['a'] = st.alloc(8 * CAP); return outp['a']
    def call(op, i1=0, i2=0, pre=()):
        return run('@verif_lists', [op, n1, lambda st: st.put_doubles(A) if A else st.alloc(8), n2, lambda st: st.put_doubles(B) if B else st.alloc(8), V, i1 & 0xffffffff, i2, out, CAP], pre=pre, limits=Limits(max_paths=500, feas_ms=2000))[1]
    mv = {'a': A, 'b': B, 'value': V, 'n1': n1, 'n2': n2}; sh = '%d,%d' % (n1, n2)
    def outv(p, k): return [p.st.load(outp['a'] + 8 * i, 8, True) for i in range(k)]
    # Lists_Equal
    for pi, p in enumerate(call(1)):
        if p.end is not None: res.append(prove('lists-equal/%s/returns[%d]' % (sh, pi), p.st.pc, z3.BoolVal(False), 10000, dict(mv, op=1), key='C19/lists/returns', detail=str(p.end))); continue
        want = z3.And(*[A[i] == B[i] for i in range(n1)]) if n1 == n2 else z3.BoolVal(False)
        res.append(prove('lists-equal/%s[%d]' % (sh, pi), p.st.pc, (toR(p.ret) == 1) == want, 10000, dict(mv, op=1), key='C19/lists/equal'))
    # Combine, Flatten
    for op, nm in ((2, 'combine'), (5, 'flatten')):
        for pi, p in enumerate(call(op)):
            if p.end is not None: res.append(prove('%s/%s/returns[%d]' % (nm, sh, pi), p.st.pc, z3.BoolVal(False), 10000, dict(mv, op=op), key='C19/lists/returns', detail=str(p.end))); continue
            ok = p.ret == n1 + n2 and all(same_(x, y) for x, y in zip(outv(p, n1 + n2), A + B))
            res.append(ob('%s/%s[%d]' % (nm, sh, pi), 'discharged' if ok else 'candidate', key='C19/lists/' + nm, model=None if ok else dict(mv, op=op), detail='a followed by b'))
    # Transpose of two lists
    ps = call(3)
    for pi, p in enumerate(ps):
        if n1 == n2 and n1 > 0:
            if p.end is not None: res.append(prove('transpose/%s/returns[%d]' % (sh, pi), p.st.pc, z3.BoolVal(False), 10000, dict(mv, op=3), key='C19/lists/returns', detail=str(p.end))); continue
            want = [x for i in range(n1) for x in (A[i], B[i])]
            ok = p.ret == 2 * n1 and all(same_(x, y) for x, y in zip(outv(p, 2 * n1), want)) and p.st.load(outp['a'] + 8 * (CAP - 1), 8, True) == float(n1)
            res.append(ob('transpose/%s[%d]' % (sh, pi), 'discharged' if ok else 'candidate', key='C19/lists/transpose', model=None if ok else dict(mv, op=3), detail='rows {a_i, b_i}'))
        elif n1 != n2 and n1 > 0:
            ok = p.end is not None and p.end.kind == 'exit' and any(e[0] == 'diag' for e in p.st.events)
            res.append(ob('transpose/%s/ragged-rejected[%d]' % (sh, pi), 'discharged' if ok else 'candidate', key='C19/lists/transpose-ragged', model=None if ok else dict(mv, op=3), detail=str(p.end)))
    # Sub_List(a, i1, i2): the elements i1..i2 inclusive, indices clipped to the list
    if n1 > 0:
        for i1 in range(-1, n1):
            for i2 in range(max(i1, 0), n1 + 2):
                lo = max(i1, 0); hi = min(i2, n1 - 1)
                for pi, p in enumerate(call(4, i1, i2)):
                    tag = 'sub-list/n%d/%d..%d[%d]' % (n1, i1, i2, pi); mvs = dict(mv, op=4, i1=i1, i2=i2)
                    if p.end is not None: res.append(prove(tag + '/no-' + p.end.kind, p.st.pc, z3.BoolVal(False), 10000, mvs, key='C19/lists/sub-list/' + p.end.kind, detail=str(p.end))); continue
                    ok = p.ret == hi - lo + 1 and all(same_(x, y) for x, y in zip(outv(p, hi - lo + 1), A[lo:hi + 1]))
                    res.append(ob(tag, 'discharged' if ok else 'candidate', key='C19/lists/sub-list', model=None if ok else mvs, detail='expected elements %d..%d, got %s elements' % (lo, hi, p.ret)))
    # List_Contains, Find_Indices
    for pi, p in enumerate(call(6)):
        if p.end is None: res.append(prove('contains/%s[%d]' % (sh, pi), p.st.pc, (toR(p.ret) == 1) == z3.Or(*([A[i] == V for i in range(n1)] + [z3.BoolVal(False)])), 10000, dict(mv, op=6), key='C19/lists/contains'))
    for pi, p in enumerate(call(7)):
        if p.end is not None: continue
        k = p.ret; idx = outv(p, k)
        conds = [z3.And(*[A[int(j)] == V for j in idx] + [z3.BoolVal(True)])] + [A[i] != V for i in range(n1) if float(i) not in idx] + [z3.BoolVal(all(idx[t] < idx[t + 1] for t in range(len(idx) - 1)))]
        res.append(prove('find-indices/%s[%d]' % (sh, pi), p.st.pc, z3.And(*conds), 10000, dict(mv, op=7), key='C19/lists/find-indices'))
    return res
def same_(x, y): return (is_sym(x) and is_sym(y) and x.eq(y)) or (not is_sym(x) and not is_sym(y) and x == y)

def sortnet(vals):
    v = list(vals); n = len(v)
    for i in range(n):
        for j in range(n - 1 - i):
            a, b = v[j], v[j + 1]; v[j], v[j + 1] = z3.If(a <= b, a, b), z3.If(a <= b, b, a)
    return v

def job_stats(n):
    res = []; D = [z3.Real('x%d' % i) for i in range(n)]; W = z3.Real('w'); SF = sf_common; SF.G['m'] = G['sf']
    def call(op, weights=None):
        out2 = {}
        def o2(st): out2['a'] = st.alloc(16); return out2['a']
        _, ps = SF.run('@verif_stats', [op, n, lambda st: st.put_doubles(D), lambda st: st.put_doubles(weights or [1.0] * n), o2], limits=Limits(max_paths=3000, feas_ms=1000, max_seconds=200))
        return ps, out2
    mv = {'x': D, 'n': n, 'w': W}; mean = sum(D) / n
    ps, _ = call(1)
    for pi, p in enumerate(ps):
        if p.end is None: res.append(prove('mean/n%d[%d]' % (n, pi), p.st.pc, toR(p.ret) == mean, 10000, dict(mv, op=1), key='C19/stats/mean'))
    if n >= 2:
        var = sum((x - mean) * (x - mean) for x in D) / (n - 1)
        ps, _ = call(3)
        for pi, p in enumerate(ps):
            if p.end is None: res.append(prove('variance/n%d[%d]' % (n, pi), p.st.pc, toR(p.ret) == var, 20000, dict(mv, op=3), key='C19/stats/variance', sample=(n == 3)))
        ps, _ = call(4)
        for pi, p in enumerate(ps):
            if p.end is None: res.append(prove('standard-deviation/n%d[%d]' % (n, pi), p.st.pc + alg_assumptions(p.st), z3.And(toR(p.ret) >= 0, toR(p.ret) * toR(p.ret) == var), 20000, dict(mv, op=4), key='C19/stats/standard-deviation'))
        # equal weights: plain mean and standard error s/sqrt(N)
        ps, o2 = call(5, [W] * n)
        for pi, p in enumerate(ps):
            if p.end is not None: continue
            avg = toR(p.st.load(o2['a'], 8, True)); se = toR(p.st.load(o2['a'] + 8, 8, True))
            res.append(prove('weighted-average/equal-weights/n%d[%d]' % (n, pi), p.st.pc + alg_assumptions(p.st) + [W > 0], z3.And(avg == mean, se >= 0, se * se * n - var <= RV(4e-16) * var, var - se * se * n <= RV(4e-16) * var), 60000,   # N/(N-1.0) is folded in double arithmetic: equality up to 2 ulp
                              dict(mv, op=5), key='C19/stats/weighted-average', tactic='nra'))
    if 2 <= n <= 3:
        # arbitrary positive weights: the average is sum(w x)/sum(w) and Cochran's expression collapses to N/((N-1) W^2) sum w_i^2 (x_i - avg)^2 - translation invariant, quadratic under scaling
        WS = [z3.Real('w%d' % i) for i in range(n)]
        ps, o2 = call(5, WS)
        for pi, p in enumerate(ps):
            if p.end is not None: continue
            avg = toR(p.st.load(o2['a'], 8, True)); se = toR(p.st.load(o2['a'] + 8, 8, True)); wsum = sum(WS)
            core = sum(w * w * (x - avg) * (x - avg) for w, x in zip(WS, D)) * n; lhs = se * se * wsum * wsum * (n - 1)
            res.append(prove('weighted-average/unequal-weights/n%d[%d]' % (n, pi), p.st.pc + alg_assumptions(p.st) + [w > 0 for w in WS], z3.And(avg * wsum == sum(w * x for w, x in zip(WS, D)), se >= 0, lhs - core <= RV(4e-16) * core, core - lhs <= RV(4e-16) * core), 60000,
                              dict(mv, op=5, weights=WS), key='C19/stats/weighted-average', tactic='nra'))
    ps, _ = call(2)
    srt = sortnet(D); med = srt[n // 2] if n % 2 else (srt[n // 2 - 1] + srt[n // 2]) / 2
    nret = 0
    for pi, p in enumerate(ps):
        if p.end is not None: res.append(prove('median/n%d/returns[%d]' % (n, pi), p.st.pc, z3.BoolVal(False), 10000, dict(mv, op=2), key='C19/stats/median-returns', detail=str(p.end))); continue
        nret += 1
        res.append(prove('median/n%d[%d]' % (n, pi), p.st.pc, toR(p.ret) == med, 20000, dict(mv, op=2), key='C19/stats/median'))
    res.append(ob('median/n%d/coverage' % n, 'discharged' if nret else 'broken', key='C19/coverage', detail='%d comparison paths of std::nth_element' % nret))
    return res

def job_range(direction, maxlen):
    """Range(min,max,step) with symbolic integers: exactly the half-open range from min towards max (EA, linear integer arithmetic; paths = element counts up to maxlen)"""
    res = []; MN, MX, STP = z3.Int('rmin'), z3.Int('rmax'), z3.Int('rstep'); outp = {}
    def out(st): outp['a'] = st.alloc(4 * 64); return outp['a']
    B = 1000
    pre = [MN >= -B, MN <= B, MX >= -B, MX <= B, STP >= 1, STP <= B] + ([MN <= MX] if direction == 'ascending' else [MN > MX])
    lim = Limits(max_visits=maxlen + 1, visit_fn='Range', visit_block='for.body', feas_ms=3000, max_paths=200)
    _, ps = run('@verif_range', [MN, MX, STP, out, 64], pre=pre, limits=lim)
    mv = {'rmin': MN, 'rmax': MX, 'rstep': STP}; nret = 0
    for pi, p in enumerate(ps):
        tag = 'range/%s[%d]' % (direction, pi)
        if p.end is not None:
            if p.end.kind != 'cutoff': res.append(prove(tag + '/no-' + p.end.kind, p.st.pc, z3.BoolVal(False), 10000, mv, key='C19/range/' + p.end.kind, detail=str(p.end)))
            continue
        nret += 1; n = p.ret
        if is_sym(n): res.append(ob(tag + '/count', 'undecided', detail='symbolic count')); continue
        sg = 1 if direction == 'ascending' else -1
        els = [toI(p.st.load(outp['a'] + 4 * k, 4), 32) for k in range(n)]
        conds = [els[k] == MN + sg * k * STP for k in range(n)]
        # half-open: every listed element is on the near side of max, the next one would not be
        conds += [(e < MX) if sg > 0 else (e > MX) for e in els]
        nxt = MN + sg * n * STP; conds.append((nxt >= MX) if sg > 0 else (nxt <= MX))
        res.append(prove(tag + '/exact-half-open-range(n=%d)' % n, p.st.pc, z3.And(*conds), 20000, mv, key='C19/range/exact', sample=(n == 2 and direction == 'ascending')))
    res.append(ob('range/%s/coverage' % direction, 'discharged' if nret >= maxlen else 'broken', key='C19/coverage', detail='%d returning paths (0..%d elements)' % (nret, maxlen)))
    return res

def job_bp(h): return bp.run_harness('C19', 'C19.c', h, G['m'], ['verif_workload', 'verif_range', 'verif_range1'])
def job_bp_stats(h): return bp.run_harness('C19', 'C19s.c', h, G['sf'], ['verif_stats'], tag='C19s')

def jobs(ctx):
    module(ctx); b = BOUNDS[ctx.tier]; J = []
    G['sf'] = ctx.lower(sf_common.SRCS, 'SF.cpp', sf_common.KEEP)
    for h in bp.harnesses('C19.c', ctx.tier): J.append((job_bp, (h,)))
    for h in bp.harnesses('C19s.c', ctx.tier): J.append((job_bp_stats, (h,)))
    for d_ in ('ascending', 'descending'): J.append((job_range, (d_, 6 if ctx.quick() else 12)))
    for lg in (0, 1):
        for s_ in b['steps']: J.append((job_space, (lg, s_)))
    for n in range(1, 6 if ctx.quick() else 7): J.append((job_closest, (n,)))
    for n1 in range(0, b['list_len'] + 1):
        for n2 in range(0, b['list_len'] + 1): J.append((job_lists, (n1, n2)))
    for n in b['stat_n']: J.append((job_stats, (n,)))
    return J

def validate(ctx):
    module(ctx); so = native(ctx); bad = []; n = 0
    for w, t in ((3, 10), (4, 3), (1, 7), (5, 0), (7, 23)):
        _, ps = run('@verif_workload', [w, t, lambda st: st.alloc(4 * 16), 16]); r = nat.call(so, 'verif_workload', [('u32', w), ('u32', t), ('i32[]', [0] * 16), ('u64', 16)], restype='long'); n += 1
        if len(ps) != 1 or ps[0].end is not None or ps[0].ret != r.get('ret'): bad.append('workload(%d,%d)' % (w, t))
    for a, b_, s_ in ((0, 10, 3), (5, -4, 2), (-3, 3, 1), (2, 2, 1)):
        _, ps = run('@verif_range', [a & 0xffffffff, b_ & 0xffffffff, s_, lambda st: st.alloc(4 * 32), 32]); r = nat.call(so, 'verif_range', [('i32', a), ('i32', b_), ('i32', s_), ('i32[]', [0] * 32), ('u64', 32)], restype='long'); n += 1
        if len(ps) != 1 or ps[0].end is not None or ps[0].ret != r.get('ret'): bad.append('range(%d,%d,%d): %s vs %s' % (a, b_, s_, ps[0].ret if ps else None, r.get('ret')))
    if bad: return [ob('translator-validation', 'broken', detail='; '.join(bad[:3]))]
    tvso = bp.build_tv_so(G['m'], ['verif_workload', 'verif_range', 'verif_range1'], 'C19')
    for w, t in ((3, 10), (6, 20), (2, 5)):
        r1 = nat.call(tvso, 'verif_workload', [('u32', w), ('u32', t), ('i32[]', [0] * 16), ('u64', 16)], restype='long'); r2 = nat.call(so, 'verif_workload', [('u32', w), ('u32', t), ('i32[]', [0] * 16), ('u64', 16)], restype='long'); n += 1
        if r1.get('arrays') != r2.get('arrays'): bad.append('generated C vs native: workload(%d,%d): %s vs %s' % (w, t, r1.get('arrays'), r2.get('arrays')))
    if bad: return [ob('translator-validation', 'broken', detail='; '.join(bad[:3]))]
    return [ob('translator-validation', 'discharged', backend='TV', detail='%d concrete helper calls: interpreter == native; gcc build of the IR-derived C == native' % n)]

def fl(q): return q2f(q) if isinstance(q, list) else float(q)
def replay(ctx, o):
    so = native(ctx); m = o['model'] or {}; key = o['key']
    if o['backend'] == 'BP':
        if 'in_d0' in m:
            d = [m['in_d0'], m['in_d1'], m['in_d2']]; so2 = ctx.native(sf_common.NATIVE_SRCS, 'SF.cpp')
            r = nat.call(so2, 'verif_stats', [('i32', 3), ('u32', 3), ('dbl[]', d), ('dbl[]', [1.0] * 3), ('dbl[]', [0.0, 0.0])])
            s2 = nat.call(so2, 'verif_stats', [('i32', 4), ('u32', 3), ('dbl[]', d), ('dbl[]', [1.0] * 3), ('dbl[]', [0.0, 0.0])])
            return (r['status'] != 'ok' or not (r['ret'] >= 0.0)), 'native Variance(%r) = %s, Standard_Deviation = %s' % (d, r.get('ret', r['status']), s2.get('ret', s2['status']))
        if 'in_workers' in m and 'workload' in o['name']:
            w, t = m['in_workers'], m['in_tasks']; r = nat.call(so, 'verif_workload', [('u32', w), ('u32', t), ('i32[]', [0] * 40), ('u64', 40)], restype='long')
            idx = r['arrays'][0][:r['ret']]; d = [idx[i + 1] - idx[i] for i in range(len(idx) - 1)]
            bad = r['ret'] != w + 1 or idx[0] != 0 or idx[-1] != t or any(x < 0 for x in d) or (d and max(d) - min(d) > 1)
            return bad, 'native Workload_Distribution(%d,%d) = %s' % (w, t, idx)
        if 'in_min' in m:
            a, b_, s_ = m['in_min'], m['in_max'], m['in_step']; r = nat.call(so, 'verif_range', [('i32', a), ('i32', b_), ('i32', s_), ('i32[]', [0] * 64), ('u64', 64)], restype='long')
            got = r['arrays'][0][:r['ret']]; want = list(range(a, b_, s_)) if a <= b_ else list(range(a, b_, -s_))
            return got != want, 'native Range(%d,%d,%d) = %s, expected %s' % (a, b_, s_, got, want)
        return False, 'no inputs in trace'
    if key.startswith('C19/lists'):
        a = [fl(q) for q in m.get('a', [])]; b_ = [fl(q) for q in m.get('b', [])]; v = fl(m.get('value', [0, 1])); op = m['op']
        if op == 4:
            # distinct values make a wrong element visible
            a = [10.0 + i for i in range(m['n1'])]
            r = nat.call(so, 'verif_lists', [('i32', 4), ('u32', len(a)), ('dbl[]', a), ('u32', 0), ('dbl[]', [0.0]), 0.0, ('i32', m['i1']), ('u32', m['i2']), ('dbl[]', [0.0] * 32), ('u64', 32)], restype='long')
            lo = max(m['i1'], 0); hi = min(m['i2'], len(a) - 1); want = a[lo:hi + 1]
            got = r['arrays'][2][:r['ret']] if r['status'] == 'ok' else r['status']
            return got != want, 'native Sub_List(%s, %d, %d) = %s, elements i1..i2 inclusive are %s' % (a, m['i1'], m['i2'], got, want)
        r = nat.call(so, 'verif_lists', [('i32', op), ('u32', len(a)), ('dbl[]', a or [0.0]), ('u32', len(b_)), ('dbl[]', b_ or [0.0]), v, ('i32', 0), ('u32', 0), ('dbl[]', [0.0] * 32), ('u64', 32)], restype='long')
        if op == 3 and len(a) != len(b_): return r['status'] != 'exit', 'native Transpose_Lists of lengths %d,%d: %s' % (len(a), len(b_), r['status'])
        if r['status'] != 'ok': return True, 'native list operation %d ended: %s' % (op, r['status'])
        got = r['arrays'][2][:max(r['ret'], 0)]
        want = {1: None, 2: a + b_, 5: a + b_, 3: [x for i in range(len(a)) for x in (a[i], b_[i])] if len(a) == len(b_) else None, 6: None, 7: [float(i) for i, x in enumerate(a) if x == v]}[op]
        if op == 1: return r['ret'] != int(a == b_), 'native Lists_Equal = %d' % r['ret']
        if op == 6: return r['ret'] != int(v in a), 'native List_Contains = %d' % r['ret']
        return got != want, 'native list operation %d: %s, expected %s' % (op, got, want)
    if key.startswith('C19/space'):
        mn, mx, st_, lg = fl(m['mn']), fl(m['mx']), m['steps'], m['log']
        r = nat.call(so, 'verif_space', [('i32', lg), mn, mx, ('u32', st_), ('dbl[]', [0.0] * 16), ('u64', 16)], restype='long'); got = r['arrays'][0][:r['ret']] if r['status'] == 'ok' else []
        if st_ < 2 or mn == mx: return got != [mn], 'native degenerate request returned %s' % got
        want = [mn + k * (mx - mn) / (st_ - 1) for k in range(st_)] if not lg else [math.exp(math.log(mn) + k * math.log(mx / mn) / (st_ - 1)) for k in range(st_)]
        bad = len(got) != st_ or any(abs(x - y) > 1e-9 * max(abs(mn), abs(mx)) for x, y in zip(got, want))
        return bad, 'native %s(%r,%r,%d) = %s' % ('Log_Space' if lg else 'Linear_Space', mn, mx, st_, got)
    if key.startswith('C19/closest'):
        L = [fl(q) for q in m['list']]; t = fl(m['target']); r = nat.call(so, 'verif_closest', [('u32', len(L)), ('dbl[]', L), t], restype='uint')
        if L != sorted(L): return r['status'] != 'exit', 'native Locate_Closest_Location on unsorted %s: %s' % (L, r['status'])
        if r['status'] != 'ok': return True, 'native call on sorted input ended: ' + r['status']
        k = r['ret']; return not (0 <= k < len(L) and all(abs(L[k] - t) <= abs(x - t) for x in L)), 'native Locate_Closest_Location(%s, %r) = %d' % (L, t, k)
    if key.startswith('C19/stats'):
        import statistics
        x = [fl(q) for q in m['x']]; n = len(x); so2 = ctx.native(sf_common.NATIVE_SRCS, 'SF.cpp'); w = abs(fl(m.get('w', [1, 1]))) or 1.0
        def call(op, ws): return nat.call(so2, 'verif_stats', [('i32', op), ('u32', n), ('dbl[]', x), ('dbl[]', ws), ('dbl[]', [0.0, 0.0])])
        sc = max(abs(t) for t in x) or 1.0
        bad = abs(call(1, [1.0] * n)['ret'] - sum(x) / n) > 1e-12 * sc or abs(call(2, [1.0] * n)['ret'] - statistics.median(x)) > 1e-12 * sc
        if n >= 2:
            bad = bad or abs(call(3, [1.0] * n)['ret'] - statistics.variance(x)) > 1e-9 * sc * sc
            r = call(5, [w] * n); bad = bad or abs(r['arrays'][2][0] - sum(x) / n) > 1e-9 * sc or abs(r['arrays'][2][1] - math.sqrt(statistics.variance(x) / n)) > 1e-9 * sc
        if 'weights' in m and n >= 2:
            ws = [fl(q) for q in m['weights']]; r = call(5, ws); W = sum(ws); avg = sum(a * b for a, b in zip(ws, x)) / W
            se = math.sqrt(n / (n - 1.0) / W / W * sum(a * a * (b - avg) ** 2 for a, b in zip(ws, x)))
            r2 = nat.call(so2, 'verif_stats', [('i32', 5), ('u32', n), ('dbl[]', [t + 3.0 for t in x]), ('dbl[]', ws), ('dbl[]', [0.0, 0.0])])
            bad = abs(r['arrays'][2][0] - avg) > 1e-9 * sc or abs(r['arrays'][2][1] - se) > 1e-9 * max(se, sc * 1e-6)
            return bad, 'native Weighted_Average of values %s weights %s = %s; sum(w x)/sum(w) = %r, N/((N-1)W^2) sum w^2 (x-avg)^2 gives %r; after shifting the values by 3: %s' % (x, ws, r['arrays'][2], avg, se, r2['arrays'][2])
        return bad, 'native summary statistics of %s: mean %r median %r' % (x, call(1, [1.0] * n)['ret'], call(2, [1.0] * n)['ret'])
    return False, 'no replay rule for ' + key
