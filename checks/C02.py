"""C02 - Find_Root (Ridder) on a bracketed function (DESIGN.md section 2/C02)"""
from num_common import *
import bp

EXPLANATION = ('C02: real Find_Root executed with the user function as an uninterpreted F (EA, up to K Ridder iterations from entry): exits only without a sign change and after a diagnostic, every evaluation point and the result lie in the bracket, '
               'inductive step over the Ridder loop from an ARBITRARY bracket state satisfying the invariant (so: for every number of iterations) - evaluations and results between the two ends, no exit, the back edge re-establishes the invariant; '
               'a zero bracket end is returned as is, either order of the ends gives the same run, linear functions are solved exactly in one step; all divisors / sqrt arguments are valid; '
               'accuracy clause per run: a return within the first accuracy_iterations iterations is accepted only if two evaluated points of opposite sign (or an evaluated zero) lie within the requested accuracy of the result - by the intermediate value theorem that is exactly when every continuous function consistent with the run changes sign there. '
               'BP (CBMC on the IR-derived C, IEEE doubles): the entry logic for all pairs of end values incl. NaN and products that underflow.')
BOUNDS = {'quick': {'K_iterations': 2, 'accuracy_iterations': 2}, 'thorough': {'K_iterations': 3, 'accuracy_iterations': 3}}
K_ACC = [2]
NOT_DECIDED = ['the accuracy clause for returns after more than accuracy_iterations iterations (and: from iteration 2 on it is violated on the unchanged tree, known finding C02/accuracy/successive-iterates, which hides other accuracy defects of later iterations)', 'run-level claims (order of the ends, accuracy, evaluation counts) beyond K iterations - the bracket-safety claims hold for every iteration by the loop step', 'rounding in x4', 'brackets beyond +-1e90 (the sentinel -9.9e99 of the first stopping test)']
ASSUMPTIONS = ['F is an arbitrary function of its argument (uninterpreted), doubles exact reals in EA', 'paths with more than 2+2K evaluations are cut off (outside the bound)', 'BP: the user function returns arbitrary doubles']

XL, XR, ACC = z3.Real('xl'), z3.Real('xr'), z3.Real('acc')
def Min(a, b): return z3.If(a <= b, a, b)
def Max(a, b): return z3.If(a >= b, a, b)

def job_entry(order, K):
    res = []; tag = 'root/%s/K%d' % (order, K)
    pre = [XL < XR] if order == 'lt' else [XL > XR] if order == 'gt' else [XL == XR]
    pre.append(ACC > 0)
    it, paths = run('@verif_c02_root', [XL, XR, ACC], user_f(maxcalls=3 + 2 * K), pre=pre, limits=Limits(max_paths=20000, feas_ms=3000))
    lo, hi = Min(XL, XR), Max(XL, XR); fl, fr = F1(lo), F1(hi)
    ncut = 0; nret = 0; nexit = 0
    for pi, p in enumerate(paths):
        cs = calls(p.st); pc = p.st.pc
        mv = {'xl': XL, 'xr': XR, 'acc': ACC, 'calls_x': [c[1][0] for c in cs], 'calls_f': [c[2] for c in cs]}
        if p.end is not None and p.end.kind == 'cutoff': ncut += 1; continue
        for ci, c in enumerate(cs):
            res.append(prove('%s/evaluates-inside-bracket[%d,%d]' % (tag, pi, ci), pc, z3.And(lo <= toR(c[1][0]), toR(c[1][0]) <= hi), 30000, mv, key='C02/evaluates-inside-bracket', tactic='nra'))
        res += divisor_obligations('%s/p%d' % (tag, pi), p.st, model_vars=mv, key='C02/division-or-sqrt', timeout_ms=30000, tactic='nra')
        if p.end is not None:
            if p.end.kind != 'exit':
                res.append(prove('%s/no-%s[%d]' % (tag, p.end.kind, pi), pc, z3.BoolVal(False), 20000, mv, key='C02/' + p.end.kind, detail=str(p.end))); continue
            nexit += 1
            res.append(prove('%s/exit-only-without-sign-change[%d]' % (tag, pi), pc, fl * fr > 0, 60000, mv, key='C02/valid-bracket-never-exits', tactic='nra', sample=(nexit == 1 and order == 'lt')))
            if not any(e[0] == 'diag' for e in p.st.events): res.append(ob('%s/exit-diagnostic[%d]' % (tag, pi), 'candidate', key='C02/exit-diagnostic', model=None))
            continue
        nret += 1; v = toR(p.ret)
        res.append(prove('%s/result-inside-bracket[%d]' % (tag, pi), pc, z3.And(lo <= v, v <= hi), 60000, mv, key='C02/result-inside-bracket', tactic='nra'))
        res.append(prove('%s/returns-only-with-sign-change-or-zero[%d]' % (tag, pi), pc, fl * fr <= 0, 60000, mv, key='C02/returns-only-with-sign-change', tactic='nra'))
        res.append(prove('%s/zero-left-end-returned[%d]' % (tag, pi), pc + [fl == 0], v == lo, 60000, mv, key='C02/zero-end-returned', tactic='nra'))
        res.append(prove('%s/zero-right-end-returned[%d]' % (tag, pi), pc + [fr == 0, fl != 0], v == hi, 60000, mv, key='C02/zero-end-returned', tactic='nra'))
        if len(cs) >= 3:
            # accuracy clause, decided exactly for the run: every continuous function that takes the recorded values at the recorded points changes sign (or vanishes) within acc of the result
            # <=> two evaluated points of opposite sign (or one evaluated zero) lie within acc of the result (intermediate value theorem; otherwise the zero can be placed outside the window)
            near = [z3.And(toR(c[1][0]) - v <= ACC, v - toR(c[1][0]) <= ACC) for c in cs]; fv = [toR(c[2]) for c in cs]
            alts = [z3.And(near[a], fv[a] == 0) for a in range(len(cs))] + [z3.And(near[a], near[b], fv[a] * fv[b] < 0) for a in range(len(cs)) for b in range(a + 1, len(cs))]
            it_no = (len(cs) - 1) // 2
            akey = 'C02/accuracy/first-iterate' if it_no <= 1 else 'C02/accuracy/successive-iterates'
            amv = dict(mv); amv['ret'] = v
            if it_no <= K_ACC[0]:
                aname = '%s/sign-change-within-accuracy[%d,it%d]' % (tag, pi, it_no); apre = pc + [fl * fr < 0, ACC <= hi - lo]
                t1, t2 = (20000, 60000) if it_no <= 1 else (10000, 20000)      # from iteration 2 on the clause is a known finding on the unchanged tree: short budgets there
                r = prove(aname, apre + [lo >= -10, hi <= 10] + [z3.And(x >= -10, x <= 10) for x in fv], z3.Or(*alts), t1, amv, key=akey, tactic='nra')      # human-scale counterexample first
                if r['status'] != 'candidate': r = prove(aname, apre + [lo >= -RV(1e90), hi <= RV(1e90)], z3.Or(*alts), t2, amv, key=akey, tactic='nra')
                res.append(r)
    res.append(ob(tag + '/coverage', 'discharged' if nret and nexit else 'broken', detail='%d returning, %d exiting, %d cut-off paths' % (nret, nexit, ncut), key='C02/coverage'))
    return res

def job_loop_step():
    """inductive step over Ridder's loop: at the loop header the loop-carried state is replaced by an ARBITRARY bracket state satisfying the invariant
       (both ends inside the original bracket, distinct, f1 = F(x1), f2 = F(x2), f1 f2 < 0, any iteration number, any previous estimate); one real iteration is executed.
       Every evaluation and every returned value lies between the two ends, the process never exits, and the back edge re-establishes the invariant with a bracket inside the old one.
       With the entry paths (K = 1) this covers every number of iterations."""
    res = []; tag = 'root/loop-step'; fresh = {}
    X1, X2, RES, RV0 = z3.Real('h_x1'), z3.Real('h_x2'), z3.Real('h_result'), z3.Real('h_retval'); I0 = z3.Int('h_i')
    fns = [n for n in G['m'].funcs if '9Find_RootE' in n]
    if len(fns) != 1: return [ob(tag + '/function', 'broken', detail=str(fns))]
    f = G['m'].funcs[fns[0]]; need = ('x1', 'x2', 'f1', 'f2', 'result', 'i')
    heads = [b for b in loop_headers(f) if set(need) <= set(I.dest.lstrip('%').split('.')[0] for I in f.blocks[b] if I.op == 'phi')]
    if len(heads) != 1: return [ob(tag + '/loop-state', 'undecided', key='C02/loop-step', detail='no unique loop header carrying %s: %s' % (need, heads))]
    def handler(it, f_, blk, regs, st):
        for I in f_.blocks[blk]:
            if I.op != 'phi': continue
            base = I.dest.lstrip('%').split('.')[0]
            v = {'x1': X1, 'x2': X2, 'f1': F1(X1), 'f2': F1(X2), 'result': RES, 'i': I0, 'retval': RV0}.get(base)
            if v is None:
                if str(I.ty) == 'i1' or getattr(I.ty, 'w', 0) == 1: v = 1          # the carried loop condition i < Max_Iterations holds at the header
                else: v = z3.Real('h_' + base)
            regs[I.dest] = v; fresh[base] = I.dest
        st.pc += [XL <= X1, X1 <= XR, XL <= X2, X2 <= XR, X1 != X2, F1(X1) * F1(X2) < 0, I0 >= 0, I0 <= 49]
        st.events.append(('havoc', len([e for e in st.events if e[0] == 'call'])))
    it = Interp(G['m'], intercept=user_f(maxcalls=8), limits=Limits(max_paths=4000, feas_ms=2000, max_seconds=200)); it.havoc[(fns[0], heads[0])] = handler
    st = it.new_state(); st.pc += [XL < XR, ACC > 0]
    ps = it.execute('@verif_c02_root', [XL, XR, ACC], st)
    lo, hi = Min(X1, X2), Max(X1, X2); mv = {'xl': XL, 'xr': XR, 'acc': ACC, 'h_x1': X1, 'h_x2': X2, 'h_f1': F1(X1), 'h_f2': F1(X2), 'h_result': RES, 'h_i': I0, 'loop_step': 1}; nret = nback = 0
    for pi, p in enumerate(ps):
        hv = [e for e in p.st.events if e[0] == 'havoc']
        if not hv: continue                                   # paths that end before the loop (zero end, no sign change): entry logic, decided by job_entry
        cs = calls(p.st)[hv[0][1]:]; pc = p.st.pc; mvp = dict(mv, calls_x=[c[1][0] for c in cs], calls_f=[c[2] for c in cs])
        for ci, c in enumerate(cs):
            res.append(prove('%s/evaluates-inside-current-bracket[%d,%d]' % (tag, pi, ci), pc, z3.And(lo <= toR(c[1][0]), toR(c[1][0]) <= hi), 30000, mvp, key='C02/loop-step/evaluates-inside', tactic='nra'))
        res += divisor_obligations('%s/p%d' % (tag, pi), p.st, model_vars=mvp, key='C02/division-or-sqrt', timeout_ms=30000, tactic='nra')
        if p.end is None:
            nret += 1; res.append(prove('%s/result-inside-current-bracket[%d]' % (tag, pi), pc, z3.And(lo <= toR(p.ret), toR(p.ret) <= hi), 60000, mvp, key='C02/loop-step/result-inside', tactic='nra'))
        elif p.end.kind == 'backedge':
            nback += 1; be = [e for e in p.st.events if e[0] == 'backedge'][-1][2]; g = lambda k: toR(be[fresh[k]])
            inv = z3.And(lo <= g('x1'), g('x1') <= hi, lo <= g('x2'), g('x2') <= hi, g('x1') != g('x2'), g('f1') == F1(g('x1')), g('f2') == F1(g('x2')), g('f1') * g('f2') < 0, toI(be[fresh['i']]) == I0 + 1)
            res.append(prove('%s/back-edge-re-establishes-the-bracket-invariant[%d]' % (tag, pi), pc + alg_assumptions(p.st), inv, 60000, mvp, key='C02/loop-step/invariant', tactic='nra', sample=(nback == 1)))
        elif p.end.kind == 'exit':
            res.append(prove('%s/never-exits-from-a-valid-bracket[%d]' % (tag, pi), pc, z3.BoolVal(False), 60000, mvp, key='C02/valid-bracket-never-exits', tactic='nra'))
        elif p.end.kind != 'cutoff':
            res.append(prove('%s/no-%s[%d]' % (tag, p.end.kind, pi), pc, z3.BoolVal(False), 20000, mvp, key='C02/' + p.end.kind, detail=str(p.end)))
    res.append(ob(tag + '/coverage', 'discharged' if nret and nback else 'broken', key='C02/coverage', detail='%d returning, %d back-edge paths from the arbitrary bracket state' % (nret, nback)))
    return res

def job_order(K):
    """either order of the ends: the two runs evaluate F at the same points and return the identical term"""
    res = []; tag = 'root/order/K%d' % K
    pre = [XL < XR, ACC > 0]
    _, A = run('@verif_c02_root', [XL, XR, ACC], user_f(maxcalls=3 + 2 * K), pre=pre, limits=Limits(max_paths=20000, feas_ms=3000), resolve_selects=True)
    _, B = run('@verif_c02_root', [XR, XL, ACC], user_f(maxcalls=3 + 2 * K), pre=pre, limits=Limits(max_paths=20000, feas_ms=3000), resolve_selects=True)
    n = 0
    for pi, p in enumerate(A):
        if p.end is not None and p.end.kind == 'cutoff': continue
        for qi, q in enumerate(B):
            if q.end is not None and q.end.kind == 'cutoff': continue
            so = z3.Solver(); so.set('timeout', 5000); so.add(*(p.st.pc + q.st.pc))
            if so.check() == z3.unsat: continue
            n += 1; mv = {'xl': XL, 'xr': XR, 'acc': ACC, 'calls_x': [c[1][0] for c in calls(p.st)], 'calls_f': [c[2] for c in calls(p.st)]}
            if (p.end is None) != (q.end is None):
                res.append(prove('%s/same-outcome[%d,%d]' % (tag, pi, qi), p.st.pc + q.st.pc, z3.BoolVal(False), 30000, mv, key='C02/order-irrelevant', detail='%s vs %s' % (p.end, q.end), tactic='nra')); continue
            if p.end is not None: continue
            if is_sym(p.ret) and is_sym(q.ret) and p.ret.eq(q.ret): res.append(ob('%s/identical[%d,%d]' % (tag, pi, qi), 'discharged', key='C02/order-irrelevant', detail='identical result terms => bit-identical'))
            else: res.append(prove('%s/equal[%d,%d]' % (tag, pi, qi), p.st.pc + q.st.pc, toR(p.ret) == toR(q.ret), 10000, mv, key='C02/order-irrelevant'))
    if n == 0: res.append(ob(tag + '/pairs', 'broken', detail='no feasible pair'))
    return res

def job_linear():
    """F(x) = mu x + nu with a sign change: the call returns -nu/mu, evaluating F at most 4 times"""
    res = []; mu, nu = z3.Real('mu'), z3.Real('nu'); tag = 'root/linear'
    f = lambda x: mu * toR(x) + nu
    for order, pre0 in (('lt', [XL < XR]), ('gt', [XL > XR])):
        pre = pre0 + [ACC > 0, mu != 0, (mu * XL + nu) * (mu * XR + nu) < 0]
        _, paths = run('@verif_c02_root', [XL, XR, ACC], user_f(fn=f, maxcalls=9), pre=pre)
        mv = {'xl': XL, 'xr': XR, 'acc': ACC, 'mu': mu, 'nu': nu}
        for pi, p in enumerate(paths):
            if p.end is not None:
                res.append(prove('%s/%s/returns[%d]' % (tag, order, pi), p.st.pc, z3.BoolVal(False), 60000, mv, key='C02/linear-exact', detail=str(p.end), tactic='nra')); continue
            res.append(prove('%s/%s/exact-root[%d]' % (tag, order, pi), p.st.pc, toR(p.ret) * mu == -nu, 60000, mv, key='C02/linear-exact', tactic='nra', sample=(pi == 0 and order == 'lt')))
            res.append(ob('%s/%s/at-most-4-evaluations[%d]' % (tag, order, pi), 'discharged' if len(calls(p.st)) <= 4 else 'candidate', key='C02/linear-exact', model=None, detail='%d evaluations' % len(calls(p.st))))
        if not paths: res.append(ob(tag + '/reach', 'broken', detail='no path'))
    return res

def job_bp(h):
    return bp.run_harness('C02', 'C02.c', h, G['m'], ['verif_c02_root'])

def jobs(ctx):
    module(ctx); K = BOUNDS[ctx.tier]['K_iterations']; K_ACC[0] = BOUNDS[ctx.tier]['accuracy_iterations']
    J = [(job_entry, ('lt', K)), (job_entry, ('gt', K)), (job_entry, ('eq', 1)), (job_order, (min(K, 2),)), (job_linear, ()), (job_loop_step, ())]
    for h in bp.harnesses('C02.c', ctx.tier): J.append((job_bp, (h,)))
    return J

def validate(ctx):
    module(ctx); so = native(ctx); bad = []; n = 0
    cases = [(lambda x: x * x - 2.0, 0.0, 2.0, 1e-6), (lambda x: x * x - 2.0, -2.0, 0.0, 1e-6), (lambda x: x * x * x - 0.3, 1.0, -1.0, 1e-10), (lambda x: 2.0 * x - 1.0, 0.0, 3.0, 1e-3), (lambda x: math.atan(x) - 0.5, -5.0, 40.0, 1e-12)]
    for f, a, b, acc in cases:
        _, ps = run('@verif_c02_root', [a, b, acc], user_f(fn=f))
        r = nat.call(so, 'verif_c02_root', [a, b, acc], fcb=f); n += 1
        if len(ps) != 1 or ps[0].end is not None or r['status'] != 'ok' or ps[0].ret != r['ret']: bad.append('Find_Root case %d: interp %s native %s' % (n, ps, r.get('ret', r['status'])))
    if bad: return [ob('translator-validation', 'broken', detail='; '.join(bad[:3]))]
    return [ob('translator-validation', 'discharged', backend='TV', detail='%d concrete Find_Root runs: interpreter == native (bit-identical)' % n)]

def table_cb(xs, fs):
    """continuous function through the model's (x, F(x)) points: exact at the points (1e-9 relative match), linear in between, constant outside"""
    pts = sorted(set(zip(xs, fs)))
    def f(x):
        for (a, v) in pts:
            if a == x or abs(a - x) <= 1e-9 * max(abs(a), abs(x), 1e-300): return v
        lo = [p for p in pts if p[0] < x]; hi = [p for p in pts if p[0] > x]
        if not lo: return hi[0][1]
        if not hi: return lo[-1][1]
        (a, va), (b, vb) = lo[-1], hi[0]
        return va + (vb - va) * (x - a) / (b - a)
    return f

def far_zero_cb(xs, fs, v):
    """continuous function through the model's points whose sign changes are placed as far from v as the recorded values allow (piecewise linear, one zero per opposite-sign neighbour pair)"""
    pts = sorted(set(zip(xs, fs))); bp_ = []; zeros = [a for a, fa in pts if fa == 0]
    for (a, fa), (b, fb) in zip(pts, pts[1:]):
        bp_.append((a, fa))
        if fa * fb < 0:
            z = a + 1e-3 * (b - a) if abs(a - v) >= abs(b - v) else b - 1e-3 * (b - a)
            bp_.append((z, 0.0)); zeros.append(z)
    bp_.append(pts[-1])
    return table_cb([p[0] for p in bp_], [p[1] for p in bp_]), zeros

def replay(ctx, o):
    so = native(ctx); m = o['model'] or {}; key = o['key']
    if o['backend'] == 'BP':
        if 'in_f0' not in m: return False, 'no inputs in the cbmc trace'
        seq = [m['in_f0'], m['in_f1']]; cnt = [0]
        def f(x):
            cnt[0] += 1
            return seq[cnt[0] - 1] if cnt[0] <= 2 else 0.0
        r = nat.call(so, 'verif_c02_root', [m['in_xl'], m['in_xr'], m.get('in_acc', 1e-6)], fcb=f)
        desc = 'native Find_Root on bracket (%r,%r) with end values F=%r, %r: %s' % (m['in_xl'], m['in_xr'], seq[0], seq[1], r.get('ret', r['status']))
        if key == 'C02/bp/valid-bracket-never-exits': return r['status'] == 'exit', desc
        if key in ('C02/bp/nan-end-exits', 'C02/bp/same-sign-exits'): return r['status'] != 'exit', desc
        if key == 'C02/bp/zero-end-returned':
            lo, hi = min(m['in_xl'], m['in_xr']), max(m['in_xl'], m['in_xr'])
            return not (r['status'] == 'ok' and r['ret'] == (lo if seq[0] == 0 else hi)), desc
        return False, desc
    if 'xl' not in m: return False, 'no model'
    xl, xr, acc = q2f(m['xl']), q2f(m['xr']), q2f(m['acc'])
    if 'mu' in m:
        mu, nu = q2f(m['mu']), q2f(m['nu']); r = nat.call(so, 'verif_c02_root', [xl, xr, acc], fcb=lambda x: mu * x + nu)
        if r['status'] != 'ok': return True, 'native Find_Root on F(x)=%r x + %r, bracket [%r,%r]: %s' % (mu, nu, xl, xr, r['status'])
        return abs(r['ret'] * mu + nu) > 1e-9 * max(abs(nu), abs(mu * r['ret']), 1e-300), 'native Find_Root on the line %r x + %r returned %r (root %r), %d evaluations' % (mu, nu, r['ret'], -nu / mu, len(r['calls']))
    xs = [q2f(q) for q in m['calls_x']]; fs = [q2f(q) for q in m['calls_f']]
    if m.get('loop_step'):
        # the model is an arbitrary loop state, not a run from the entry: it is reproduced by entering Find_Root with that bracket (first iteration, previous estimate = sentinel)
        a, b = q2f(m['h_x1']), q2f(m['h_x2']); f = table_cb([a, b] + xs, [q2f(m['h_f1']), q2f(m['h_f2'])] + fs); r = nat.call(so, 'verif_c02_root', [a, b, acc], fcb=f)
        lo, hi = min(a, b), max(a, b); out = [c[0][0] for c in r.get('calls', []) if not (lo <= c[0][0] <= hi)]
        desc = 'native Find_Root entered with the bracket state of the model [%r,%r], F = %r, %r, accuracy %r: %s; evaluations outside the bracket: %s' % (a, b, f(a), f(b), acc, r.get('ret', r['status']), out or 'none')
        if f(a) * f(b) >= 0: return False, desc
        if r['status'] == 'exit': return True, desc
        if r['status'] != 'ok': return False, desc
        return bool(out) or not (lo <= r['ret'] <= hi), desc
    if key.startswith('C02/accuracy/'):
        f, zeros = far_zero_cb(xs, fs, q2f(m['ret'])); r = nat.call(so, 'verif_c02_root', [xl, xr, acc], fcb=f)
        if r['status'] != 'ok': return False, 'native Find_Root ended with %s' % r['status']
        d = min(abs(z - r['ret']) for z in zeros) if zeros else float('inf')
        return (d > acc and f(min(xl, xr)) * f(max(xl, xr)) < 0), 'native Find_Root on [%r,%r], accuracy %r, continuous piecewise-linear F through %s with zeros at %s: returned %r after %d evaluations, nearest sign change %r away' % (xl, xr, acc, list(zip(xs, fs)), zeros, r['ret'], len(r['calls']), d)
    f = table_cb(xs, fs); r = nat.call(so, 'verif_c02_root', [xl, xr, acc], fcb=f)
    lo, hi = min(xl, xr), max(xl, xr); fl, fr = f(lo), f(hi)
    if key == 'C02/valid-bracket-never-exits':
        return (r['status'] == 'exit' and fl * fr < 0), 'native Find_Root on [%r,%r] with F(lo)=%r, F(hi)=%r: %s' % (lo, hi, fl, fr, r['status'])
    if key == 'C02/returns-only-with-sign-change':
        return (r['status'] == 'ok' and fl * fr > 0), 'native Find_Root returned %s although F(lo)*F(hi) = %r > 0' % (r.get('ret'), fl * fr)
    if key == 'C02/evaluates-inside-bracket':
        out = [c[0][0] for c in r.get('calls', []) if not (lo <= c[0][0] <= hi)] if r['status'] == 'ok' else []
        return bool(out), 'native Find_Root on [%r,%r] evaluated F at %s' % (lo, hi, out or 'points inside the bracket only')
    if r['status'] != 'ok': return (fl * fr <= 0), 'native Find_Root ended with %s' % r['status']
    v = r['ret']
    if key == 'C02/result-inside-bracket': return not (lo <= v <= hi), 'native Find_Root on [%r,%r] returned %r' % (lo, hi, v)
    if key == 'C02/zero-end-returned':
        want = lo if fl == 0 else hi if fr == 0 else None
        return (want is not None and v != want), 'native Find_Root returned %r; zero bracket end is %r' % (v, want)
    if key == 'C02/order-irrelevant':
        r2 = nat.call(so, 'verif_c02_root', [xr, xl, acc], fcb=f)
        return (r2.get('ret') != v), 'native Find_Root(%r,%r)=%r but Find_Root(%r,%r)=%r' % (xl, xr, v, xr, xl, r2.get('ret', r2['status']))
    return False, 'no replay rule for ' + key
