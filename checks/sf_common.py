"""Shared by C06, C07, C17, C18, C19(stat): harness/SF.cpp on Special_Functions.cpp / Statistics.cpp"""
import itertools, math
import z3
from llsym import *
from check import *
import native as nat
from num_common import user_f, calls, F1, F2

SRCS = ['Special_Functions.cpp', 'Statistics.cpp', 'Numerics.cpp', 'Integration.cpp', 'Linear_Algebra.cpp', 'Utilities.cpp']
NATIVE_SRCS = ['Numerics.cpp', 'Special_Functions.cpp', 'Utilities.cpp', 'Linear_Algebra.cpp', 'Integration.cpp', 'Statistics.cpp', 'Natural_Units.cpp']
KEEP = ['verif_sf', 'verif_sf_seq', 'verif_vsh_vec', 'verif_vsh', 'verif_factorial_table', 'verif_factorial_table_set', 'verif_likelihood_binned', 'verif_chibar', 'verif_sample', 'verif_rejection2d', 'verif_metropolis', 'verif_metropolis2d', 'verif_stats']
G = {}
def module(ctx):
    if 'm' not in G: G['m'] = ctx.lower(SRCS, 'SF.cpp', KEEP)
    return G['m']
def native(ctx): return ctx.native(NATIVE_SRCS, 'SF.cpp')
def run(fname, args, intercept=None, pre=(), limits=None, state=None, interp=None, **kw):
    it = interp or Interp(G['m'], intercept=intercept, limits=limits, **kw)
    if state is None:
        st = it.new_state()
        st, _ = it.run_global_ctors(st, 'Special_Functions')      # FactorialList = {1.0} is a dynamic initialiser
    else: st = state
    st.pc += list(pre)
    args = [a(st) if callable(a) else a for a in args]
    return it, it.execute(fname, args, st)
def sf(op, a=0.0, b=0.0, c=0.0, i=0, j=0, **kw):
    return run('@verif_sf', [op & 0xffffffff, a, b, c, i if is_sym(i) else i & 0xffffffff, j if is_sym(j) else j & 0xffffffff], **kw)
def nsf(ctx, op, a=0.0, b=0.0, c=0.0, i=0, j=0):
    return nat.call(native(ctx), 'verif_sf', [('i32', op), float(a), float(b), float(c), ('i32', i), ('i32', j)])
def Abs(x): return z3.If(x >= 0, x, -x)
def Max(a, b): return z3.If(a >= b, a, b)
