#!/bin/sh
# offline set-up: checks the tools, byte-compiles the engine. Builds nothing from the network.
set -e
cd "$(dirname "$0")"
for t in clang++-14 llvm-link-14 opt-14 g++ python3-vt cbmc goto-cc z3 cvc5; do command -v $t >/dev/null || { echo "missing tool $t"; exit 1; }; done
python3-vt -c "import z3; assert z3.get_version_string() >= '4.8'"
python3-vt -m compileall -q engine checks >/dev/null
mkdir -p .work evidence replays
echo "setup ok"
